"""E3 -- classification of emitted events, keys and index expressions."""
from __future__ import annotations

from typing import Optional

from .terms import EV, EVKEY, EVITEM, EVSTORE, subterms, show

SAME = ("SAME",)
PARENT = ("PARENT",)
ROOT = ("ROOT",)


def sub_parts(t):
    """(base, index) of a subscript term (with or without epoch)."""
    if t[0] == "sub":
        return t[1], t[2]
    return None, None


KEYIDX = ("sub", EVKEY, ("const", 0))


def key_class(k):
    """Class of a key term relative to the key of the handled event."""
    if k is None:
        return ("UNKNOWN", None)
    if k == EVKEY:
        return SAME
    if k[0] == "tuple" and len(k) == 3 and k[2] == EVKEY:
        return ("CHILD", k[1])
    b, i = sub_parts(k)
    if b == EVKEY and i == ("const", 1):
        return PARENT
    if k == ("tuple", ("const", 0)):
        return ROOT
    return ("UNKNOWN", k)


class MuxEvent:
    __slots__ = ("kind", "key", "keyclass", "payload", "store", "how", "term")

    def __init__(self, kind, key, payload, store, how, term):
        self.kind = kind
        self.key = key
        self.keyclass = key_class(key) if kind != "Probe" else ("NONE",)
        self.payload = payload
        self.store = store
        self.how = how           # 'same' | 'replace' | 'new'
        self.term = term

    def brief(self):
        kc = self.keyclass
        ks = kc[0] if kc[0] != "CHILD" else "CHILD(%s)" % show(kc[1])
        if kc[0] == "UNKNOWN":
            ks = "UNKNOWN(%s)" % show(kc[1]) if kc[1] is not None else "UNKNOWN"
        return "%s[%s]%s" % (self.kind, ks, "" if self.how != "same" else "=ev")


def mux_event(term, kind) -> Optional[MuxEvent]:
    """Interpret the argument of an emission as a mux event.

    *kind* is the kind of the event being handled (for ``ev`` and
    ``ev._replace(...)``).  Returns None when the term is not a mux event
    (a plain value)."""
    if term is None:
        return None
    if term == EV:
        if kind is None:
            return None
        if kind in ("Probe", "Other"):
            return MuxEvent(kind, None, None, None, "same", term)
        return MuxEvent(kind, EVKEY, _payload_of(kind), EVSTORE, "same", term)
    if term[0] == "replace" and term[1] == EV:
        if kind is None or kind in ("Probe", "Other"):
            return MuxEvent(kind or "Other", None, None, None, "replace", term)
        fields = dict(term[2])
        key = fields.get("key", EVKEY)
        payload = fields.get("item", fields.get("error", _payload_of(kind)))
        store = fields.get("store", EVSTORE)
        return MuxEvent(kind, key, payload, store, "replace", term)
    if term[0] == "mkevent":
        return MuxEvent(term[1], term[2], term[3], term[4], "new", term)
    return None


def _payload_of(kind):
    if kind == "Next":
        return EVITEM
    if kind == "Error":
        return ("attr", EV, "error")
    return None


# ----------------------------------------------------------------------
# tiny affine algebra on index terms:  base*D + t
def linear_index(t, loop_iters=None):
    """Decompose an index term into (mult_terms, addends).

    Returns ('keyidx',) for ev.key[0];
            ('scaled', D, rest) for ev.key[0]*D + rest   (D a term)
            None otherwise.
    With loop_iters, a loop variable over range(key[0]*D, key[0]*D + D) is ('scaled', D, ('fullrange', D))."""
    if t == KEYIDX:
        return ("keyidx",)
    if t[0] == "loopvar" and loop_iters is not None:
        it = loop_iters.get(t[1])
        if it is not None and it[0] == "call" and it[1] == ("builtin", "range") and len(it[2]) == 2:
            lo, hi = it[2]
            li = linear_index(lo)
            if li is not None and li[0] == "scaled" and li[2] == ("const", 0):
                from .rules.linear import diff
                d = diff(hi, lo)
                dd = diff(li[1], ("const", 0))
                if d is not None and dd is not None and d == dd:
                    return ("scaled", li[1], ("fullrange", li[1]))
        return None
    if t[0] == "binop" and t[1] == "Add":
        for a, b in ((t[2], t[3]), (t[3], t[2])):
            if a[0] == "binop" and a[1] == "Mult":
                for x, y in ((a[2], a[3]), (a[3], a[2])):
                    if x == KEYIDX:
                        return ("scaled", y, b)
    if t[0] == "binop" and t[1] == "Mult":
        for x, y in ((t[2], t[3]), (t[3], t[2])):
            if x == KEYIDX:
                return ("scaled", y, ("const", 0))
    return None


def offset_range(rest, D, loop_iters):
    """Is the offset term *rest* provably within [0, D)?

    loop_iters: {loop uid: iter term}.  Returns a description string or None."""
    if rest[0] == "fullrange" and rest[1] == D:
        return "loop over the key's whole slice"
    if rest[0] == "loopvar":
        it = loop_iters.get(rest[1])
        if it is not None and it == ("call", ("builtin", "range"), (D,)):
            return "loop variable over range(%s)" % show(D)
        return None
    if rest[0] == "binop" and rest[1] == "Mod" and rest[3] == D:
        return "(...) %% %s" % show(D)
    if rest == ("const", 0):
        return "0"
    return None


def depends_on(term, pred) -> bool:
    """Does any sub-term satisfy pred?"""
    for x in subterms(term):
        if pred(x):
            return True
    return False


def ring_coverage(idx, loop_iters):
    """Does the generic child index idx = key[0]*D + X enumerate *all* D slots of the key as its loop runs?

    True for X = t and X = (e + t) % D with t a loop variable over range(D) and e independent of t."""
    li = linear_index(idx, loop_iters)
    if li is None or li[0] != "scaled":
        return False
    D, rest = li[1], li[2]
    if rest == ("fullrange", D):
        return True

    def full_loopvar(t):
        return t[0] == "loopvar" and loop_iters.get(t[1]) == ("call", ("builtin", "range"), (D,))
    if full_loopvar(rest):
        return True
    if rest[0] == "binop" and rest[1] == "Mod" and rest[3] == D:
        inner = rest[2]
        if full_loopvar(inner):
            return True
        if inner[0] == "binop" and inner[1] == "Add":
            for a, b in ((inner[2], inner[3]), (inner[3], inner[2])):
                if full_loopvar(b) and not any(x[0] == "loopvar" and x[1] == b[1] for x in subterms(a)):
                    return True
    return False
