"""E1 -- operator model.

Finds every construction site of a (Mux)Observable whose subscribe function is
written in the repository, resolves the subscribe function, its subscription
calls and the three handlers, and assigns roles (downstream observer, outer
Subject, event variable, bound branch index, user functions, configuration
parameters).
"""
from __future__ import annotations

import ast
from typing import Dict, List, Optional

from .executor import HandlerSpec
from .loader import AnalysisError, Module, Program, dotted_name

CONSTRUCTORS = {
    "rxsci.mux.muxobservable.MuxObservable": "mux",
    "rxsci.mux.muxconnectable.MuxConnectableProxy": "muxconn",
    "rx.create": "create",
}


class HandlerRef:
    """How one of on_next / on_error / on_completed is wired."""

    def __init__(self, how, spec=None, target=None, method=None, node=None):
        self.how = how            # 'fn' | 'forward' | 'absent'
        self.spec = spec          # HandlerSpec when how == 'fn'
        self.target = target      # term of the observer forwarded to
        self.method = method
        self.node = node


class Subscription:
    def __init__(self, call, source_text, passthrough, handlers, in_fn):
        self.call = call
        self.source_text = source_text
        self.passthrough = passthrough
        self.handlers: Dict[str, HandlerRef] = handlers
        self.in_fn = in_fn


class Site:
    def __init__(self, module, call, ctor, subscribe_fn, nbound, fn_module=None):
        self.module: Module = fn_module or module     # module of the subscribe function (where the code lives)
        self.call_module: Module = module             # module of the constructor call
        self.call = call
        self.ctor = ctor
        self.subscribe_fn = subscribe_fn
        self.nbound = nbound
        self.observer_param = None
        self.subscriptions: List[Subscription] = []
        self.roles = {}
        self.ctx = {}                 # bindings of factory parameters (instances of a shared operator template)
        self.anchor_rel = self.module.relpath
        self.anchor_short = None
        self.instance_of = None       # label of the template when the site is an instance
        self.error = None             # AnalysisError text when the site could not be modelled (raised when consulted)

    @property
    def name(self):
        if self.instance_of:
            return "%s::%s" % (self.anchor_rel, self.short)
        return self.module.qualname(self.subscribe_fn)

    @property
    def short(self):
        return self.anchor_short or self.module.scopes[self.subscribe_fn].qualname

    def where(self):
        return self.call_module.where(self.call)

    def handler_specs(self, which="on_next") -> List[HandlerSpec]:
        out = []
        for sub in self.subscriptions:
            h = sub.handlers.get(which)
            if h is not None and h.how == "fn":
                out.append(h.spec)
        return out


def _resolve_callee(program: Program, module: Module, node) -> Optional[str]:
    dn = dotted_name(node)
    if dn is None:
        return None
    ref = program.resolve_dotted(module, dn)
    if ref[0] in ("class", "def"):
        return program.canonical(ref)
    if ref[0] in ("ext", "unknown", "module"):
        return ref[1]
    return None


def _lookup_def(module: Module, from_fn, name):
    """FunctionDef bound to *name* as seen from inside from_fn (lexically)."""
    sc = module.scopes.get(from_fn) if from_fn is not None else None
    while sc is not None:
        if name in sc.defs:
            return sc.defs[name]
        if name in sc.params or (name in sc.locals and name not in sc.nonlocals):
            return None
        sc = sc.parent
    b = module.bindings.get(name)
    if b is not None and b[0] == "def":
        return b[1]
    return None


def _own_nodes(fn):
    """Nodes of fn's body, not descending into nested function definitions."""
    stack = list(fn.body) if not isinstance(fn, ast.Lambda) else [fn.body]
    while stack:
        n = stack.pop()
        yield n
        for c in ast.iter_child_nodes(n):
            if isinstance(c, (ast.FunctionDef, ast.AsyncFunctionDef, ast.Lambda)):
                continue
            stack.append(c)


def _top_function(module: Module, node):
    fn = module.enclosing_function(node)
    top = None
    while fn is not None:
        if isinstance(fn, (ast.FunctionDef, ast.AsyncFunctionDef)):
            top = fn
        fn = module.enclosing_function(fn)
    return top


FUNC_HEADS = ("func", "lambda", "partial")


def _call_index(program: Program):
    """FunctionDef node -> [(module, call)] for every call in the repository that resolves to a module-level def."""
    idx = {}
    for mname in sorted(program.modules):
        module = program.modules[mname]
        for node in ast.walk(module.tree):
            if not isinstance(node, ast.Call):
                continue
            dn = dotted_name(node.func)
            if dn is None:
                continue
            fn = module.enclosing_function(node)
            local = _lookup_def(module, fn, dn) if "." not in dn else None
            if local is not None:
                if module.scopes[local].parent is None:
                    idx.setdefault(local, []).append((module, node))
                continue
            if "." not in dn and fn is not None:
                sc = module.scopes.get(fn)
                shadow = False
                while sc is not None:
                    if dn in sc.params or dn in sc.locals:
                        shadow = True
                        break
                    sc = sc.parent
                if shadow:
                    continue
            try:
                ref = program.resolve_dotted(module, dn)
            except Exception:
                continue
            if ref[0] == "def":
                idx.setdefault(ref[2], []).append((module, node))
    return idx


def _bind_call(ex, module: Module, call, fmod: Module, fdef, ctx, capture):
    """{(module name, qualname, param): term} for the parameters of fdef at this call, the arguments being evaluated
    at factory time in the lexical scope of the call; parameters whose argument has effects stay unbound."""
    sc = fmod.scopes[fdef]
    a = fdef.args
    pos = [x.arg for x in a.posonlyargs] + [x.arg for x in a.args]
    defaults = dict(zip(pos[len(pos) - len(a.defaults):], a.defaults))
    for x, d in zip(a.kwonlyargs, a.kw_defaults):
        if d is not None:
            defaults[x.arg] = d
    encl = module.enclosing_function(call)
    given = {}
    for k, arg in enumerate(call.args):
        if isinstance(arg, ast.Starred) or k >= len(pos):
            return None
        given[pos[k]] = (module, encl, arg)
    for kw in call.keywords:
        if kw.arg is None:
            return None
        given[kw.arg] = (module, encl, kw.value)
    out = {}
    for p in sc.params:
        if p in given:
            m_, f_, node = given[p]
            t = ex.eval_in_scope(m_, f_, node, ctx=ctx, capture=capture)
        elif p in defaults:
            t = ex.eval_in_scope(fmod, None, defaults[p], ctx=ctx)
        else:
            t = None
        if t is not None:
            out[(fmod.name, sc.qualname, p)] = t
    return out


def _is_function_valued(t):
    return t[0] in FUNC_HEADS or (t[0] == "attr" and t[1][0] == "obs")


def _exported(program: Program):
    """Function definitions that a package __init__ re-exports: the public operators.  They are analysed on their
    own (their parameters are whatever the user passes); only internal helpers are instantiated per caller."""
    out = set()
    for mname, module in program.modules.items():
        if not module.relpath.endswith("__init__.py"):
            continue
        for name in module.bindings:
            try:
                ref = program.resolve_dotted(module, name)
            except Exception:
                continue
            if ref[0] == "def":
                out.add(ref[2])
    return out


def _contexts(program, ex, index, fmod: Module, fdef, depth=0, seen=()):
    """Instantiation contexts of the module-level function fdef: one per in-repository call chain that hands it
    functions written in the repository.  [] when fdef is not used as a template (it is then analysed on its own,
    its parameters being the configuration / the user functions)."""
    if depth > 4 or fdef in seen or fdef in index["<exported>"]:
        return []
    out = []
    for module, call in index.get(fdef, []):
        g0 = _top_function(module, call)
        if g0 is fdef:
            continue
        outer = _contexts(program, ex, index, module, g0, depth + 1, seen + (fdef,)) if g0 is not None else []
        for octx, root in (outer or [({}, (module, g0))]):
            capture = {}
            b = _bind_call(ex, module, call, fmod, fdef, octx, capture)
            if b is None:
                continue
            if not outer and not any(_is_function_valued(t) for t in b.values()):
                continue
            ctx = dict(octx)
            for k, v in capture.items():
                if v != ("ambiguous",) and k not in ctx:
                    ctx[k] = v
            ctx.update(b)
            out.append((ctx, root))
    return out


def find_sites(program: Program) -> List[Site]:
    from .executor import Executor
    ex = Executor(program)
    index = None
    sites = []
    for mname in sorted(program.modules):
        module = program.modules[mname]
        for node in ast.walk(module.tree):
            if not isinstance(node, ast.Call):
                continue
            callee = _resolve_callee(program, module, node.func)
            ctor = CONSTRUCTORS.get(callee)
            if ctor is None:
                continue
            if index is None:
                index = _call_index(program)
                index["<exported>"] = _exported(program)
            top = _top_function(module, node)
            ctxs = _contexts(program, ex, index, module, top) if top is not None else []
            if not ctxs:
                sites.append(_make_site(program, ex, module, node, ctor, callee, {}, None))
                continue
            for ctx, (rmod, rfn) in ctxs:
                sites.append(_make_site(program, ex, module, node, ctor, callee, ctx, (rmod, rfn)))
    return sites


def _make_site(program, ex, module, node, ctor, callee, ctx, root) -> Site:
    try:
        farg = None
        if ctor == "muxconn":
            if len(node.args) >= 2:
                farg = node.args[1]
        elif node.args:
            farg = node.args[0]
        for kw in node.keywords:
            if kw.arg == "subscribe":
                farg = kw.value
        if farg is None:
            raise AnalysisError("%s: %s(...) without a subscribe function" % (module.where(node), callee))
        encl = module.enclosing_function(node)
        nbound = 0
        fn = fmod = None
        syn = farg
        if isinstance(syn, ast.Call) and _resolve_callee(program, module, syn.func) == "functools.partial" and syn.args:
            nbound = len(syn.args) - 1
            syn = syn.args[0]
        if isinstance(syn, ast.Name):
            fn = _lookup_def(module, encl, syn.id)
            fmod = module
        elif isinstance(syn, ast.Lambda) and syn in module.scopes:
            fn, fmod = syn, module
        if fn is None:
            # the subscribe function is produced by an expression (a helper returning a closure, ...)
            t = ex.eval_in_scope(module, encl, farg, ctx=ctx)
            nbound = 0
            if t is not None and t[0] == "partial":
                nbound = len(t[2])
                t = t[1]
            if t is None or t[0] != "func":
                raise AnalysisError("%s: cannot resolve the subscribe function %s of %s" % (module.where(node), ast.unparse(farg)[:60], callee))
            fn, fmod = t[1], t[2]
        site = Site(module, node, ctor, fn, nbound, fn_module=fmod)
        site.ctx = ctx
        if root is not None:
            rmod, rfn = root
            site.anchor_rel = rmod.relpath
            site.instance_of = site.module.qualname(fn)
            site.anchor_short = "%s.%s" % (rmod.scopes[rfn].qualname, site.module.scopes[fn].qualname)
        _model_site(program, site, ex)
        return site
    except AnalysisError as e:
        site = Site.__new__(Site)
        site.module = site.call_module = module
        site.call = node
        site.ctor = ctor
        site.subscribe_fn = None
        site.nbound = 0
        site.observer_param = None
        site.subscriptions = []
        site.roles = {}
        site.ctx = ctx
        site.anchor_rel = root[0].relpath if root is not None else module.relpath
        encl = module.enclosing_function(node)
        site.anchor_short = (root[0].scopes[root[1]].qualname + "." if root is not None else "") + (
            module.scopes[encl].qualname if encl is not None else "<module>")
        site.instance_of = None
        site.error = str(e)
        return site


def _subject_roles(program, module, fn):
    """Free variables of enclosing scopes bound to ``Subject()`` are outer observers."""
    roles = {}
    sc = module.scopes.get(fn)
    sc = sc.parent if sc else None
    while sc is not None:
        for n in _own_nodes(sc.node):
            if isinstance(n, ast.Assign) and isinstance(n.value, ast.Call):
                callee = _resolve_callee(program, module, n.value.func)
                if callee in ("rx.subject.Subject", "rx.subject.subject.Subject"):
                    for t in n.targets:
                        if isinstance(t, ast.Name):
                            roles[(t.id, sc.qualname)] = ("obs", "outer")
        sc = sc.parent
    return roles


def _model_site(program: Program, site: Site, ex=None):
    module, fn = site.module, site.subscribe_fn
    sc = module.scopes[fn]
    params = sc.params
    if len(params) <= site.nbound:
        raise AnalysisError("%s: subscribe function %s has no observer parameter" % (site.where(), fn.name))
    site.observer_param = params[site.nbound]
    roles = {(site.observer_param, sc.qualname): ("obs", "down")}
    roles.update(_subject_roles(program, module, fn))
    site.roles = roles
    # subscription calls: own body, then helpers called from it, then nested defs
    searched = [fn]
    for n in _own_nodes(fn):
        if isinstance(n, ast.Call) and isinstance(n.func, ast.Name):
            d = _lookup_def(module, fn, n.func.id)
            if d is not None and d not in searched and module.scopes[d].parent is not sc:
                searched.append(d)
    subs = []
    try:
        for f in searched:
            subs += _find_subscriptions(program, site, f, nested=False, ex=ex)
        if not subs:
            subs = _find_subscriptions(program, site, fn, nested=True, ex=ex)
    except AnalysisError:
        if ex is None:
            raise
        subs = []       # e.g. a subscription helper whose handlers are its parameters: bound by executing the caller
    if not subs and ex is not None:
        subs = _subscriptions_by_execution(program, site, ex)
    site.subscriptions = subs


def _find_subscriptions(program, site: Site, f, nested, ex=None):
    module = site.module
    out = []
    nodes = ast.walk(f) if nested else _own_nodes(f)
    for n in nodes:
        if not (isinstance(n, ast.Call) and isinstance(n.func, ast.Attribute) and n.func.attr in ("subscribe", "subscribe_")):
            continue
        try:
            source_text = ast.unparse(n.func.value)
        except Exception:
            source_text = "?"
        in_fn = module.enclosing_function(n)
        handlers: Dict[str, HandlerRef] = {}
        passthrough = False
        order = ["on_next", "on_error", "on_completed", "scheduler"]
        exprs = {}
        for k, a in enumerate(n.args):
            if k == 0 and isinstance(a, ast.Name) and a.id == site.observer_param:
                passthrough = True
                break
            if k < len(order):
                exprs[order[k]] = a
        for kw in n.keywords:
            if kw.arg in order:
                exprs[kw.arg] = kw.value
            elif kw.arg == "observer":
                passthrough = True
        if not passthrough:
            for which in ("on_next", "on_error", "on_completed"):
                e = exprs.get(which)
                handlers[which] = _resolve_handler(program, site, in_fn, which, e, ex)
        out.append(Subscription(n, source_text, passthrough, handlers, in_fn))
    return out


def _no_decorator(fmod, fn, which):
    """a decorated handler is the decorator's result, not the function under it: analysing the bare body would ignore whatever the
    decorator adds (a try / except around it, a call that is skipped)"""
    if isinstance(fn, ast.FunctionDef) and fn.decorator_list:
        raise AnalysisError("%s: the %s handler %s is decorated (%s); the analysis does not follow decorators" % (
            fmod.where(fn), which, fn.name, ", ".join(ast.unparse(d)[:40] for d in fn.decorator_list)))


def _handler_from_term(site: Site, which, t, node, capture=None) -> Optional[HandlerRef]:
    if t is None or t == ("const", None):
        return HandlerRef("absent")
    if t[0] == "attr" and t[2] in ("on_next", "on_error", "on_completed"):
        return HandlerRef("forward", target=t[1], method=t[2], node=node)
    if t[0] == "attr" and t[1][0] == "call" and t[1][1][0] == "glob":
        # a bound method of a library object created by the subscribe function (queue.append): it cannot emit
        return HandlerRef("method", target=t[1], method=(t[2],), node=node)
    pargs = ()
    if t[0] == "partial":
        pargs = t[2]
        t = t[1]
    if t[0] not in ("func", "lambda"):
        return None
    fn, fmod = t[1], t[2]
    _no_decorator(fmod, fn, which)
    sc = fmod.scopes[fn]
    params = list(sc.params)
    bound = {}
    npos = 0
    for a in pargs:
        if isinstance(a, tuple) and a and a[0] == "kw":
            if a[1] in params:
                bound[a[1]] = a[2]          # functools.partial(handler, observer=observer)
            continue
        if npos < len(params):
            bound[params[npos]] = a
        npos += 1
    event_param = None
    if which in ("on_next", "on_error"):
        posargs = [a.arg for a in fn.args.posonlyargs + fn.args.args if a.arg not in bound]
        if not posargs:
            raise AnalysisError("%s: %s handler %s takes no event parameter" % (fmod.where(fn), which, sc.qualname))
        event_param = posargs[0]
    ctx = site.ctx
    if capture:
        # the handler is a closure returned by a handler factory: the factory's parameters are bound by that call
        ctx = dict(ctx)
        for k, v in capture.items():
            if v != ("ambiguous",) and k not in ctx:
                ctx[k] = v
    spec = HandlerSpec(fmod, fn, event_param, roles=site.roles, bound=bound, label=which, ctx=ctx)
    if site.instance_of:
        spec.instance = "%s::%s" % (site.anchor_rel, site.short.split(".")[0])
    return HandlerRef("fn", spec=spec, node=node)


def _resolve_local_alias(ex, module, in_fn, t, site):
    """a closure variable of the subscribe function assigned once from an expression: its alternatives"""
    return t


def _subscriptions_by_execution(program, site: Site, ex) -> List[Subscription]:
    """Subscription calls reached from the subscribe function through helpers of other modules (a shared
    'subscribe and forward the termination' routine): found by enumerating the paths of the subscribe function."""
    from .terms import show
    spec = HandlerSpec(site.module, site.subscribe_fn, None, roles=site.roles, ctx=site.ctx)
    capture = {}
    ex.capture = capture
    try:
        paths = ex.run(spec, None, {}, max_iter=1)
    except AnalysisError:
        return []
    finally:
        ex.capture = None
    out, seen = [], set()
    order = ["on_next", "on_error", "on_completed", "scheduler"]
    for p in paths:
        for e in p.trace:
            if e.k != "call" or e.d.get("method") not in ("subscribe", "subscribe_") or id(e.node) in seen:
                continue
            seen.add(id(e.node))
            exprs, pos, passthrough = {}, 0, False
            for a in e.args:
                if a[0] == "kw":
                    if a[1] == "observer":
                        passthrough = True
                    exprs[a[1]] = a[2]
                else:
                    if pos == 0 and a == ("obs", "down"):
                        passthrough = True
                    if pos < len(order):
                        exprs[order[pos]] = a
                    pos += 1
            handlers = {}
            if not passthrough:
                for which in ("on_next", "on_error", "on_completed"):
                    ref = _handler_from_term(site, which, exprs.get(which), e.node, capture)
                    if ref is None:
                        raise AnalysisError("%s: cannot resolve the %s handler %s of %s" % (e.where(), which, show(exprs.get(which)), site.name))
                    handlers[which] = ref
            out.append(Subscription(e.node, show(e.base), passthrough, handlers, e.mod.enclosing_function(e.node)))
    return out


def _resolve_handler(program, site: Site, in_fn, which, e, ex=None) -> HandlerRef:
    module = site.module
    if e is None or (isinstance(e, ast.Constant) and e.value is None):
        return HandlerRef("absent")
    bound_args = []
    node = e
    if isinstance(e, ast.Call) and _resolve_callee(program, module, e.func) == "functools.partial":
        node = e.args[0]
        bound_args = e.args[1:]
    if isinstance(node, ast.Attribute) and node.attr in ("on_next", "on_error", "on_completed") and not bound_args:
        tgt = node.value
        if isinstance(tgt, ast.Name) and tgt.id == site.observer_param:
            return HandlerRef("forward", target=("obs", "down"), method=node.attr, node=e)
        return HandlerRef("forward", target=("opaque", ast.unparse(tgt), ()), method=node.attr, node=e)
    fn = None
    fmod = module
    bound = {}
    if isinstance(node, ast.Name):
        fn = _lookup_def(module, in_fn, node.id)
    elif isinstance(node, ast.Lambda):
        fn = node
    if fn is not None:
        params = list(module.scopes[fn].params)
        for k, a in enumerate(bound_args):
            if k < len(params):
                # functools.partial(handler, observer): the bound argument is the downstream observer itself
                if isinstance(a, ast.Name) and a.id == site.observer_param:
                    bound[params[k]] = ("obs", "down")
                else:
                    bound[params[k]] = ("bound", params[k])
    elif ex is not None:
        # the handler is the value of an expression: a factory parameter bound by the instantiation context, a
        # conditional expression decided by it, functools.partial of one of these
        capture = {}
        t = ex.eval_in_scope(module, in_fn, e, ctx=site.ctx, roles=site.roles, capture=capture)
        if in_fn is not None:
            # arguments that are locals of the function making the subscription (observer = source.observer inside its
            # loop) have a value only on a path: let the caller bind them by executing the subscribe function
            own = module.scopes[in_fn].qualname
            from .terms import subterms
            for v in capture.values():
                if any(x[0] == "free" and len(x) > 2 and x[2] == own for x in [v] + list(subterms(v))):
                    raise AnalysisError("%s: the %s handler %s depends on locals of %s" % (module.where(e), which, ast.unparse(e)[:50], own))
        ref = _handler_from_term(site, which, t, e, capture) if t is not None else None
        if ref is not None:
            return ref
        if t is None:
            # a choice between bound methods of one library object made at subscription time
            # (enqueue = queue.extend if extend is True else queue.append): such a handler cannot emit anything
            ts = ex.eval_all_in_scope(module, in_fn, e, ctx=site.ctx, roles=site.roles)
            ts = [ _resolve_local_alias(ex, module, in_fn, x, site) for x in (ts or []) ]
            if ts and all(x is not None and x[0] == "attr" and x[1] == ts[0][1] and x[1][0] == "call" and x[1][1][0] == "glob" for x in ts):
                return HandlerRef("method", target=ts[0][1], method=tuple(sorted({x[2] for x in ts})), node=e)
    if fn is None:
        raise AnalysisError("%s: cannot resolve %s handler %s of %s" % (
            module.where(e), which, ast.unparse(e), site.name))
    _no_decorator(fmod, fn, which)
    sc = fmod.scopes[fn]
    event_param = None
    if which in ("on_next", "on_error"):
        # first unbound positional parameter is the event / the error
        posargs = [a.arg for a in fn.args.posonlyargs + fn.args.args if a.arg not in bound]
        if not posargs:
            raise AnalysisError("%s: %s handler %s takes no event parameter" % (fmod.where(fn), which, sc.qualname))
        event_param = posargs[0]
    spec = HandlerSpec(fmod, fn, event_param, roles=site.roles, bound=bound, label=which, ctx=site.ctx)
    if site.instance_of:
        spec.instance = "%s::%s" % (site.anchor_rel, site.short.split(".")[0])
    return HandlerRef("fn", spec=spec, node=e)


# ----------------------------------------------------------------------
# configuration space of a handler
def _test_nodes(fn):
    for n in ast.walk(fn):
        if isinstance(n, (ast.If, ast.While, ast.IfExp)):
            yield n.test
        elif isinstance(n, ast.Return) and n.value is not None:
            # a boolean expression returned by a predicate helper is a test of its caller
            v = n.value
            if isinstance(v, ast.Call) and isinstance(v.func, ast.Name) and v.func.id == "bool" and len(v.args) == 1:
                v = v.args[0]
            if isinstance(v, (ast.BoolOp, ast.Compare)) or (isinstance(v, ast.UnaryOp) and isinstance(v.op, ast.Not)):
                yield v
        elif isinstance(n, ast.Assign) and isinstance(n.value, (ast.BoolOp,)):
            yield n.value


def _atoms(test):
    """Atomic tests of a condition (operands of and/or/not)."""
    if isinstance(test, ast.BoolOp):
        for v in test.values:
            yield from _atoms(v)
    elif isinstance(test, ast.UnaryOp) and isinstance(test.op, ast.Not):
        yield from _atoms(test.operand)
    else:
        yield test


def _is_factory_param(module: Module, fn, name, own=False):
    sc = module.scopes.get(fn)
    if sc is None:
        return False
    if own and name in sc.params:
        return True        # fn is itself an enclosing factory (atoms reached through an enclosing-scope constant)
    if name in sc.params or (name in sc.locals and name not in sc.nonlocals):
        return False
    cur = sc.parent
    while cur is not None:
        if name in cur.params:
            return True
        if name in cur.locals and name not in cur.nonlocals:
            return False
        cur = cur.parent
    return False


def _enclosing_const(module: Module, fn, name):
    """(value node, scope function) of a local of an enclosing function that is assigned exactly once at the top
    level of that function; None otherwise."""
    sc = module.scopes.get(fn)
    if sc is None or name in sc.params or (name in sc.locals and name not in sc.nonlocals):
        return None
    cur = sc.parent
    while cur is not None:
        if name in cur.params:
            return None
        if name in cur.locals and name not in cur.nonlocals:
            hits = [n for n in cur.node.body if isinstance(n, ast.Assign) and len(n.targets) == 1
                    and isinstance(n.targets[0], ast.Name) and n.targets[0].id == name]
            others = [n for n in ast.walk(cur.node) if isinstance(n, (ast.Assign, ast.AugAssign)) and n not in hits and any(
                isinstance(x, ast.Name) and x.id == name and isinstance(x.ctx, ast.Store) for x in ast.walk(n))]
            if len(hits) == 1 and not others and isinstance(hits[0].value, (ast.BoolOp, ast.Compare, ast.UnaryOp, ast.Name)):
                return hits[0].value, cur.node
            return None
        cur = cur.parent
    return None


def _param_owner(module: Module, fn, name, own=False):
    sc = module.scopes.get(fn)
    if sc is None:
        return None
    if own and name in sc.params:
        return sc
    cur = sc.parent
    while cur is not None:
        if name in cur.params:
            return cur
        if name in cur.locals and name not in cur.nonlocals:
            return None
        cur = cur.parent
    return None


def _ctx_functions(spec):
    out = []

    def walk(t):
        if not isinstance(t, tuple) or not t:
            return
        if t[0] in ("func", "lambda") and len(t) >= 3 and isinstance(t[2], Module):
            if (t[2], t[1]) not in out:
                out.append((t[2], t[1]))
            return
        for x in t[1:]:
            if isinstance(x, tuple):
                walk(x)
    for v in spec.ctx.values():
        walk(v)
    return out


def config_space(program: Program, spec: HandlerSpec, extra_fns=()) -> Dict[str, List[str]]:
    """Abstract domains of the factory parameters tested in the handler."""
    fns = [(spec.module, spec.fn)] + _ctx_functions(spec) + [(spec.module, f) for f in extra_fns]
    # helpers that may be inlined
    k = 0
    while k < len(fns) and k < 64:
        module, f0 = fns[k]
        k += 1
        for n in ast.walk(f0):
            if isinstance(n, ast.Call) and isinstance(n.func, ast.Name):
                d = _lookup_def(module, f0, n.func.id)
                if d is not None and (module, d) not in fns:
                    fns.append((module, d))
    dom: Dict[str, set] = {}

    def variable(module, inner_fn, name, own):
        """configuration variable tested through *name*, or None (not a factory parameter, a role, or a parameter the
        instantiation context binds to a function / constant)"""
        if not _is_factory_param(module, inner_fn, name, own) or _is_role(spec, module, inner_fn, name):
            return None
        owner = _param_owner(module, inner_fn, name, own)
        if owner is not None:
            t = spec.ctx.get((module.name, owner.qualname, name))
            if t is not None:
                return t[1] if t[0] == "param" else None
        return name

    for module, f in fns:
        def expand(a, inner_fn, depth=0):
            """Atoms of a test, looking through enclosing-scope constants such as
            ``is_joined = zip is True or combine is True``."""
            if isinstance(a, ast.Name) and depth < 4 and not _is_factory_param(module, inner_fn, a.id):
                v = _enclosing_const(module, inner_fn, a.id)
                if v is not None:
                    out = []
                    for b in _atoms(v[0]):
                        out += expand(b, v[1], depth + 1)
                    return [(x, f_, True) for x, f_, _ in out]
            return [(a, inner_fn, False)]

        for test in _test_nodes(f):
            atoms = []
            for a0 in _atoms(test):
                atoms += expand(a0, module.enclosing_function(a0) or f)
            for a, inner_fn, own_ in atoms:
                if isinstance(a, ast.Name):
                    v = variable(module, inner_fn, a.id, own_)
                    if v is not None:
                        dom.setdefault(v, set()).add("truth")
                elif isinstance(a, ast.Compare) and len(a.ops) == 1:
                    l, r = a.left, a.comparators[0]
                    for x, y in ((l, r), (r, l)):
                        if isinstance(x, ast.Name) and isinstance(y, ast.Constant) and \
                                isinstance(a.ops[0], (ast.Is, ast.IsNot, ast.Eq, ast.NotEq)):
                            v = variable(module, inner_fn, x.id, own_)
                            if v is None:
                                continue
                            if y.value is True or y.value is False:
                                dom.setdefault(v, set()).add("bool")
                            elif y.value is None:
                                dom.setdefault(v, set()).add("none")
    return domains(dom)


def domains(dom):
    out = {}
    for name, kinds in dom.items():
        vals = []
        if "bool" in kinds:
            vals += ["True", "False"]
        if "none" in kinds:
            vals += ["None", "Obj"]
        if "truth" in kinds and "none" not in kinds and "bool" not in kinds:
            vals += ["None", "Obj"]
        if "truth" in kinds and "bool" in kinds and "none" not in kinds:
            pass
        seen = []
        for v in vals:
            if v not in seen:
                seen.append(v)
        out[name] = seen
    return out


def _is_role(spec, module, fn, name):
    sc = module.scopes.get(fn)
    cur = sc.parent if sc else None
    while cur is not None:
        if name in cur.params:
            return (name, cur.qualname) in spec.roles
        cur = cur.parent
    return False


def valuations(space: Dict[str, List[str]]):
    names = sorted(space)
    if not names:
        yield {}
        return

    def rec(k, cur):
        if k == len(names):
            yield dict(cur)
            return
        for v in space[names[k]]:
            cur[names[k]] = v
            yield from rec(k + 1, cur)
    yield from rec(0, {})
