"""E1 -- operator model.

Finds every construction site of a (Mux)Observable whose subscribe function is
written in the repository, resolves the subscribe function, its subscription
calls and the three handlers, and assigns roles (downstream observer, outer
Subject, event variable, bound branch index, user functions, configuration
parameters).
"""
from __future__ import annotations

import ast
from typing import Dict, List, Optional

from .executor import HandlerSpec
from .loader import AnalysisError, Module, Program, dotted_name

CONSTRUCTORS = {
    "rxsci.mux.muxobservable.MuxObservable": "mux",
    "rxsci.mux.muxconnectable.MuxConnectableProxy": "muxconn",
    "rx.create": "create",
}


class HandlerRef:
    """How one of on_next / on_error / on_completed is wired."""

    def __init__(self, how, spec=None, target=None, method=None, node=None):
        self.how = how            # 'fn' | 'forward' | 'absent'
        self.spec = spec          # HandlerSpec when how == 'fn'
        self.target = target      # term of the observer forwarded to
        self.method = method
        self.node = node


class Subscription:
    def __init__(self, call, source_text, passthrough, handlers, in_fn):
        self.call = call
        self.source_text = source_text
        self.passthrough = passthrough
        self.handlers: Dict[str, HandlerRef] = handlers
        self.in_fn = in_fn


class Site:
    def __init__(self, module, call, ctor, subscribe_fn, nbound):
        self.module: Module = module
        self.call = call
        self.ctor = ctor
        self.subscribe_fn = subscribe_fn
        self.nbound = nbound
        self.observer_param = None
        self.subscriptions: List[Subscription] = []
        self.roles = {}

    @property
    def name(self):
        return self.module.qualname(self.subscribe_fn)

    @property
    def short(self):
        return self.module.scopes[self.subscribe_fn].qualname

    def where(self):
        return self.module.where(self.call)

    def handler_specs(self, which="on_next") -> List[HandlerSpec]:
        out = []
        for sub in self.subscriptions:
            h = sub.handlers.get(which)
            if h is not None and h.how == "fn":
                out.append(h.spec)
        return out


def _resolve_callee(program: Program, module: Module, node) -> Optional[str]:
    dn = dotted_name(node)
    if dn is None:
        return None
    ref = program.resolve_dotted(module, dn)
    if ref[0] in ("class", "def"):
        return program.canonical(ref)
    if ref[0] in ("ext", "unknown", "module"):
        return ref[1]
    return None


def _lookup_def(module: Module, from_fn, name):
    """FunctionDef bound to *name* as seen from inside from_fn (lexically)."""
    sc = module.scopes.get(from_fn) if from_fn is not None else None
    while sc is not None:
        if name in sc.defs:
            return sc.defs[name]
        if name in sc.params or (name in sc.locals and name not in sc.nonlocals):
            return None
        sc = sc.parent
    b = module.bindings.get(name)
    if b is not None and b[0] == "def":
        return b[1]
    return None


def _own_nodes(fn):
    """Nodes of fn's body, not descending into nested function definitions."""
    stack = list(fn.body) if not isinstance(fn, ast.Lambda) else [fn.body]
    while stack:
        n = stack.pop()
        yield n
        for c in ast.iter_child_nodes(n):
            if isinstance(c, (ast.FunctionDef, ast.AsyncFunctionDef, ast.Lambda)):
                continue
            stack.append(c)


def find_sites(program: Program) -> List[Site]:
    sites = []
    for mname in sorted(program.modules):
        module = program.modules[mname]
        for node in ast.walk(module.tree):
            if not isinstance(node, ast.Call):
                continue
            callee = _resolve_callee(program, module, node.func)
            ctor = CONSTRUCTORS.get(callee)
            if ctor is None:
                continue
            farg = None
            if ctor == "muxconn":
                if len(node.args) >= 2:
                    farg = node.args[1]
            elif node.args:
                farg = node.args[0]
            for kw in node.keywords:
                if kw.arg == "subscribe":
                    farg = kw.value
            if farg is None:
                raise AnalysisError("%s: %s(...) without a subscribe function" % (module.where(node), callee))
            encl = module.enclosing_function(node)
            nbound = 0
            if isinstance(farg, ast.Call) and _resolve_callee(program, module, farg.func) == "functools.partial":
                nbound = len(farg.args) - 1
                farg = farg.args[0]
            if not isinstance(farg, ast.Name):
                raise AnalysisError("%s: subscribe function of %s is not a simple name" % (module.where(node), callee))
            fn = _lookup_def(module, encl, farg.id)
            if fn is None:
                raise AnalysisError("%s: cannot resolve subscribe function %s" % (module.where(node), farg.id))
            site = Site(module, node, ctor, fn, nbound)
            _model_site(program, site)
            sites.append(site)
    return sites


def _subject_roles(program, module, fn):
    """Free variables of enclosing scopes bound to ``Subject()`` are outer observers."""
    roles = {}
    sc = module.scopes.get(fn)
    sc = sc.parent if sc else None
    while sc is not None:
        for n in _own_nodes(sc.node):
            if isinstance(n, ast.Assign) and isinstance(n.value, ast.Call):
                callee = _resolve_callee(program, module, n.value.func)
                if callee in ("rx.subject.Subject", "rx.subject.subject.Subject"):
                    for t in n.targets:
                        if isinstance(t, ast.Name):
                            roles[(t.id, sc.qualname)] = ("obs", "outer")
        sc = sc.parent
    return roles


def _model_site(program: Program, site: Site):
    module, fn = site.module, site.subscribe_fn
    sc = module.scopes[fn]
    params = sc.params
    if len(params) <= site.nbound:
        raise AnalysisError("%s: subscribe function %s has no observer parameter" % (site.where(), fn.name))
    site.observer_param = params[site.nbound]
    roles = {(site.observer_param, sc.qualname): ("obs", "down")}
    roles.update(_subject_roles(program, module, fn))
    site.roles = roles
    # subscription calls: own body, then helpers called from it, then nested defs
    searched = [fn]
    for n in _own_nodes(fn):
        if isinstance(n, ast.Call) and isinstance(n.func, ast.Name):
            d = _lookup_def(module, fn, n.func.id)
            if d is not None and d not in searched and module.scopes[d].parent is not sc:
                searched.append(d)
    subs = []
    for f in searched:
        subs += _find_subscriptions(program, site, f, nested=False)
    if not subs:
        subs = _find_subscriptions(program, site, fn, nested=True)
    site.subscriptions = subs


def _find_subscriptions(program, site: Site, f, nested):
    module = site.module
    out = []
    nodes = ast.walk(f) if nested else _own_nodes(f)
    for n in nodes:
        if not (isinstance(n, ast.Call) and isinstance(n.func, ast.Attribute) and n.func.attr in ("subscribe", "subscribe_")):
            continue
        try:
            source_text = ast.unparse(n.func.value)
        except Exception:
            source_text = "?"
        in_fn = module.enclosing_function(n)
        handlers: Dict[str, HandlerRef] = {}
        passthrough = False
        order = ["on_next", "on_error", "on_completed", "scheduler"]
        exprs = {}
        for k, a in enumerate(n.args):
            if k == 0 and isinstance(a, ast.Name) and a.id == site.observer_param:
                passthrough = True
                break
            if k < len(order):
                exprs[order[k]] = a
        for kw in n.keywords:
            if kw.arg in order:
                exprs[kw.arg] = kw.value
            elif kw.arg == "observer":
                passthrough = True
        if not passthrough:
            for which in ("on_next", "on_error", "on_completed"):
                e = exprs.get(which)
                handlers[which] = _resolve_handler(program, site, in_fn, which, e)
        out.append(Subscription(n, source_text, passthrough, handlers, in_fn))
    return out


def _resolve_handler(program, site: Site, in_fn, which, e) -> HandlerRef:
    module = site.module
    if e is None or (isinstance(e, ast.Constant) and e.value is None):
        return HandlerRef("absent")
    bound_args = []
    node = e
    if isinstance(e, ast.Call) and _resolve_callee(program, module, e.func) == "functools.partial":
        node = e.args[0]
        bound_args = e.args[1:]
    if isinstance(node, ast.Attribute) and node.attr in ("on_next", "on_error", "on_completed") and not bound_args:
        tgt = node.value
        if isinstance(tgt, ast.Name) and tgt.id == site.observer_param:
            return HandlerRef("forward", target=("obs", "down"), method=node.attr, node=e)
        return HandlerRef("forward", target=("opaque", ast.unparse(tgt), ()), method=node.attr, node=e)
    fn = None
    if isinstance(node, ast.Name):
        fn = _lookup_def(module, in_fn, node.id)
    elif isinstance(node, ast.Lambda):
        fn = node
    if fn is None:
        raise AnalysisError("%s: cannot resolve %s handler %s of %s" % (
            module.where(e), which, ast.unparse(e), site.name))
    sc = module.scopes[fn]
    params = list(sc.params)
    bound = {}
    for k, a in enumerate(bound_args):
        if k < len(params):
            bound[params[k]] = ("bound", params[k])
    free_params = [p for p in params if p not in bound]
    event_param = None
    if which in ("on_next", "on_error"):
        # first unbound positional parameter is the event / the error
        posargs = [a.arg for a in fn.args.posonlyargs + fn.args.args if a.arg not in bound]
        if not posargs:
            raise AnalysisError("%s: %s handler %s takes no event parameter" % (module.where(fn), which, sc.qualname))
        event_param = posargs[0]
    spec = HandlerSpec(module, fn, event_param, roles=site.roles, bound=bound, label=which)
    return HandlerRef("fn", spec=spec, node=e)


# ----------------------------------------------------------------------
# configuration space of a handler
def _test_nodes(fn):
    for n in ast.walk(fn):
        if isinstance(n, (ast.If, ast.While, ast.IfExp)):
            yield n.test
        elif isinstance(n, ast.Return) and n.value is not None:
            # a boolean expression returned by a predicate helper is a test of its caller
            v = n.value
            if isinstance(v, ast.Call) and isinstance(v.func, ast.Name) and v.func.id == "bool" and len(v.args) == 1:
                v = v.args[0]
            if isinstance(v, (ast.BoolOp, ast.Compare)) or (isinstance(v, ast.UnaryOp) and isinstance(v.op, ast.Not)):
                yield v
        elif isinstance(n, ast.Assign) and isinstance(n.value, (ast.BoolOp,)):
            yield n.value


def _atoms(test):
    """Atomic tests of a condition (operands of and/or/not)."""
    if isinstance(test, ast.BoolOp):
        for v in test.values:
            yield from _atoms(v)
    elif isinstance(test, ast.UnaryOp) and isinstance(test.op, ast.Not):
        yield from _atoms(test.operand)
    else:
        yield test


def _is_factory_param(module: Module, fn, name, own=False):
    sc = module.scopes.get(fn)
    if sc is None:
        return False
    if own and name in sc.params:
        return True        # fn is itself an enclosing factory (atoms reached through an enclosing-scope constant)
    if name in sc.params or (name in sc.locals and name not in sc.nonlocals):
        return False
    cur = sc.parent
    while cur is not None:
        if name in cur.params:
            return True
        if name in cur.locals and name not in cur.nonlocals:
            return False
        cur = cur.parent
    return False


def _enclosing_const(module: Module, fn, name):
    """(value node, scope function) of a local of an enclosing function that is assigned exactly once at the top
    level of that function; None otherwise."""
    sc = module.scopes.get(fn)
    if sc is None or name in sc.params or (name in sc.locals and name not in sc.nonlocals):
        return None
    cur = sc.parent
    while cur is not None:
        if name in cur.params:
            return None
        if name in cur.locals and name not in cur.nonlocals:
            hits = [n for n in cur.node.body if isinstance(n, ast.Assign) and len(n.targets) == 1
                    and isinstance(n.targets[0], ast.Name) and n.targets[0].id == name]
            others = [n for n in ast.walk(cur.node) if isinstance(n, (ast.Assign, ast.AugAssign)) and n not in hits and any(
                isinstance(x, ast.Name) and x.id == name and isinstance(x.ctx, ast.Store) for x in ast.walk(n))]
            if len(hits) == 1 and not others and isinstance(hits[0].value, (ast.BoolOp, ast.Compare, ast.UnaryOp, ast.Name)):
                return hits[0].value, cur.node
            return None
        cur = cur.parent
    return None


def config_space(program: Program, spec: HandlerSpec, extra_fns=()) -> Dict[str, List[str]]:
    """Abstract domains of the factory parameters tested in the handler."""
    module = spec.module
    fns = [spec.fn]
    # helpers that may be inlined
    for n in ast.walk(spec.fn):
        if isinstance(n, ast.Call) and isinstance(n.func, ast.Name):
            d = _lookup_def(module, spec.fn, n.func.id)
            if d is not None and d not in fns:
                fns.append(d)
    fns += [f for f in extra_fns if f not in fns]
    dom: Dict[str, set] = {}

    def expand(a, inner_fn, depth=0):
        """Atoms of a test, looking through enclosing-scope constants such as
        ``is_joined = zip is True or combine is True``."""
        if isinstance(a, ast.Name) and depth < 4 and not _is_factory_param(module, inner_fn, a.id):
            v = _enclosing_const(module, inner_fn, a.id)
            if v is not None:
                out = []
                for b in _atoms(v[0]):
                    out += expand(b, v[1], depth + 1)
                return [(x, f_, True) for x, f_, _ in out]
        return [(a, inner_fn, False)]

    for f in fns:
        encl_sub = module.scopes[f]
        for test in _test_nodes(f):
            atoms = []
            for a0 in _atoms(test):
                atoms += expand(a0, module.enclosing_function(a0) or f)
            for a, inner_fn_, own_ in atoms:
                inner_fn = inner_fn_
                if isinstance(a, ast.Name):
                    if _is_factory_param(module, inner_fn, a.id, own_) and not _is_role(spec, module, inner_fn, a.id):
                        dom.setdefault(a.id, set()).add("truth")
                elif isinstance(a, ast.Compare) and len(a.ops) == 1:
                    l, r = a.left, a.comparators[0]
                    for x, y in ((l, r), (r, l)):
                        if isinstance(x, ast.Name) and isinstance(y, ast.Constant) and \
                                isinstance(a.ops[0], (ast.Is, ast.IsNot, ast.Eq, ast.NotEq)) and \
                                _is_factory_param(module, inner_fn, x.id, own_):
                            if y.value is True or y.value is False:
                                dom.setdefault(x.id, set()).add("bool")
                            elif y.value is None:
                                dom.setdefault(x.id, set()).add("none")
    return domains(dom)


def domains(dom):
    out = {}
    for name, kinds in dom.items():
        vals = []
        if "bool" in kinds:
            vals += ["True", "False"]
        if "none" in kinds:
            vals += ["None", "Obj"]
        if "truth" in kinds and "none" not in kinds and "bool" not in kinds:
            vals += ["None", "Obj"]
        if "truth" in kinds and "bool" in kinds and "none" not in kinds:
            pass
        seen = []
        for v in vals:
            if v not in seen:
                seen.append(v)
        out[name] = seen
    return out


def _is_role(spec, module, fn, name):
    sc = module.scopes.get(fn)
    cur = sc.parent if sc else None
    while cur is not None:
        if name in cur.params:
            return (name, cur.qualname) in spec.roles
        cur = cur.parent
    return False


def valuations(space: Dict[str, List[str]]):
    names = sorted(space)
    if not names:
        yield {}
        return

    def rec(k, cur):
        if k == len(names):
            yield dict(cur)
            return
        for v in space[names[k]]:
            cur[names[k]] = v
            yield from rec(k + 1, cur)
    yield from rec(0, {})
