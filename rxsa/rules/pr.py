"""C11 -- streaming promptness: PR-1 (no scheduler hop / deferred emission on the
data path), PR-2 (the set of completion-time emitters is closed)."""
from __future__ import annotations

import ast

from ..classify import SAME
from ..engine import Ctx, Finding, RuleResult, cfg_str, trace_of
from ..loader import AnalysisError, dotted_name
from .common import emissions, mk_finding, mux_emissions, summary
from .mx import classify_sites

SCHEDULING_METHODS = {"schedule", "schedule_relative", "schedule_absolute", "schedule_periodic", "invoke_action"}
DEFERRING_RX_OPS = {"observe_on", "subscribe_on", "delay", "delay_subscription", "debounce", "throttle_first", "throttle_with_timeout",
                    "sample", "buffer_with_time", "buffer_with_time_or_count", "window_with_time", "timer", "interval", "timeout"}
OTHER_DEFERRING = {"threading.Thread", "threading.Timer", "time.sleep", "asyncio.sleep", "asyncio.ensure_future", "asyncio.create_task"}
# sources: they *start* a stream on a scheduler; every item is then pushed synchronously
SOURCE_ALLOW = {
    ("rxsci/io/file.py", "read.on_subscribe"): "source: schedules the read loop once",
    ("rxsci/operators/from_iterable.py", "from_iterable.subscribe"): "source: schedules the iteration once",
    ("rxsci/container/parquet.py", "load_from_file.on_subscribe"): "source: schedules the file scan once",
}


def rule_pr1(ctx: Ctx) -> RuleResult:
    r = RuleResult("PR-1", "no scheduler hop, timer or thread on the data path: every operator pushes synchronously inside the handler of the event")
    prog = ctx.program
    for rel, m in sorted(prog.by_relpath.items()):
        for node in ast.walk(m.tree):
            if not isinstance(node, ast.Call):
                continue
            dn = dotted_name(node.func)
            fn = m.enclosing_function(node)
            qn = m.scopes[fn].qualname if fn is not None else "<module>"
            what = None
            if isinstance(node.func, ast.Attribute) and node.func.attr in SCHEDULING_METHODS:
                what = "scheduler.%s(...)" % node.func.attr
            elif dn is not None:
                ref = prog.resolve_dotted(m, dn)
                canon = ref[1] if ref[0] in ("ext", "unknown") else None
                if canon is not None:
                    last = canon.split(".")[-1]
                    if canon.startswith("rx.") and last in DEFERRING_RX_OPS:
                        what = canon
                    elif canon in OTHER_DEFERRING:
                        what = canon
            if what is None:
                continue
            r.instances += 1
            allowed = SOURCE_ALLOW.get((rel, qn))
            if allowed is None and rel == "rxsci/run.py":
                allowed = "run(): blocks the caller until the pipe ends; not an operator"
            if allowed and ("%s::%s: %s" % (rel, qn, allowed)) not in r.notes:
                r.notes.append("%s::%s: %s" % (rel, qn, allowed))
            r.ob(allowed is not None, lambda what=what, qn=qn, node=node: Finding(
                "PR-1", "%s::%s{%s}" % (rel, qn, what), m.where(node),
                "%s defers work to a scheduler / timer / thread inside an operator: outputs would no longer be emitted while the item "
                "that determines them is being processed" % what))
    # every handler of every site emits only from inside the handler: emissions found in functions that are not
    # handlers, subscribe functions or helpers called from them are deferred callbacks
    from .common import reached_functions
    handler_fns = reached_functions(ctx)
    for rel, m in sorted(prog.by_relpath.items()):
        for node in ast.walk(m.tree):
            if isinstance(node, ast.Call) and isinstance(node.func, ast.Attribute) and node.func.attr == "on_next" \
                    and isinstance(node.func.value, ast.Name) and node.func.value.id in ("observer", "outer_observer"):
                fn = m.enclosing_function(node)
                f = fn
                ok = False
                chain = []
                while f is not None:
                    chain.append(f)
                    if f in handler_fns:
                        ok = True
                        break
                    f = m.enclosing_function(f)
                r.instances += 1
                r.ob(ok, lambda node=node, fn=fn: Finding(
                    "PR-1", "%s{emission-outside-handler}" % m.qualname(fn) if fn is not None else rel, m.where(node),
                    "an emission is made from a function that is not (inside) an on_next/on_error/on_completed handler or subscribe function"))
    r.require_instances(40)
    return r


COMPLETION_EMITTERS = {
    ("rxsci/operators/scan.py", "scan_mux"): "reduce / terminator results depend on the end of the key",
    ("rxsci/operators/last.py", "last_mux"): "the last item is only known at the end of the key",
    ("rxsci/data/pad.py", "pad_end_mux"): "end padding follows the last item",
}


def rule_pr2(ctx: Ctx) -> RuleResult:
    r = RuleResult("PR-2", "only scan(reduce/terminator), last and pad_end emit items when a key completes; nothing else buffers results until completion")
    classes = classify_sites(ctx)
    found = set()
    for site, cls in classes.items():
        if cls in ("cast", "root", "demux"):
            continue
        for spec in site.handler_specs("on_next"):
            r.instances += 1
            emits = None
            for kind, cfg, paths in ctx.all_paths(spec, kinds=("Completed",)):
                for p in paths:
                    r.paths += 1
                    r.groups.add((spec.qualname, cfg_str(cfg)))
                    for m in mux_emissions(p):
                        if m.event is not None and m.event.kind == "Next":
                            emits = (kind, cfg, p, m)
            key = (site.anchor_rel, site.short.split(".")[0])
            if emits is not None:
                found.add(key)
                kind, cfg, p, m = emits
                r.ob(key in COMPLETION_EMITTERS, lambda: mk_finding(
                    "PR-2", spec, kind, cfg, p,
                    "items are emitted when the key completes (%s): a result that is determined by an earlier item is withheld until the "
                    "end of the key" % summary(p), node=m.eff.node, extra="emits-at-completion"))
            else:
                r.ob(True)
    for key, why in COMPLETION_EMITTERS.items():
        r.ob(key in found, lambda key=key: Finding("PR-2", "%s::%s{expected-emitter}" % key, key[0] + ":1",
                                                   "%s no longer emits at completion (%s): the table of completion emitters is stale" % (key[1], COMPLETION_EMITTERS[key])))
    # scan streams when reduce is False and no terminator is given
    site = ctx.site("rxsci/operators/scan.py", "scan_mux._scan.on_subscribe")
    spec = site.handler_specs("on_next")[0]
    for p in ctx.paths(spec, "Completed", {"reduce": "False", "terminator": "None"}):
        ems = [m for m in mux_emissions(p) if m.event is not None and m.event.kind == "Next"]
        r.ob(not ems, lambda: mk_finding("PR-2", spec, "Completed", {"reduce": "False", "terminator": "None"}, p,
                                         "a streaming scan must not emit items at completion", extra="scan-streaming"))
    # plain operators that buffer by design are named, any other plain on_completed that emits items is reported
    plain_allowed = {
        ("rxsci/operators/scan.py", "scan_obs"): "reduce / terminator",
        ("rxsci/data/to_deque.py", "to_deque"): "to_deque buffers by contract (sort)",
        ("rxsci/framing/line.py", "unframe"): "trailing unterminated line",
        ("rxsci/compression/z.py", "compress"): "codec flush",
        ("rxsci/compression/z.py", "decompress"): "codec flush",
        ("rxsci/compression/zstd.py", "compress"): "codec flush",
        ("rxsci/compression/zstd.py", "decompress"): "codec flush",
        ("rxsci/data/codec.py", "encode"): "incremental codec flush",
        ("rxsci/data/codec.py", "decode"): "incremental codec flush",
    }
    for site in ctx.sites:
        if site.ctor != "create":
            continue
        for spec in site.handler_specs("on_completed"):
            r.instances += 1
            emits = None
            from ..model import valuations
            for cfg in valuations(ctx.space(spec)):
                for p in ctx.paths(spec, None, cfg):
                    r.paths += 1
                    for m in emissions(p):
                        if m.method == "on_next" and m.role == "down":
                            emits = (cfg, p, m)
            key = (site.anchor_rel, site.short.split(".")[0])
            if emits is not None and "flush" in plain_allowed.get(key, ""):
                # a codec may emit what its flush returns when the source completes, and nothing else: the output of every
                # chunk must leave while the chunk is handled, not be kept for the end of the stream
                from ..model import valuations as _vals
                for cfg2 in _vals(ctx.space(spec)):
                    for p2 in ctx.paths(spec, None, cfg2):
                        inloop = False
                        n_items = 0
                        for e2 in p2.trace:
                            if e2.k == "loopiter":
                                inloop = True
                            elif e2.k == "loopexit":
                                inloop = False
                            elif e2.k == "emit" and e2.method == "on_next":
                                n_items += 1
                                r.ob(not inloop, lambda p2=p2, e2=e2, cfg2=cfg2: mk_finding(
                                    "PR-2", spec, None, cfg2, p2, "items are emitted from a loop when the source completes: outputs that were determined by "
                                    "earlier chunks are withheld until the end of the stream", node=e2.node, extra="replay-at-completion"))
                        r.ob(n_items <= 1, lambda p2=p2, cfg2=cfg2: mk_finding(
                            "PR-2", spec, None, cfg2, p2, "more than the flush output is emitted at completion (%s)" % summary(p2), extra="replay-at-completion"))
                for nspec in site.handler_specs("on_next"):
                    for cfg2 in _vals(ctx.space(nspec)):
                        for p2 in ctx.paths(nspec, None, cfg2):
                            if any(e2.d.get("raised") for e2 in p2.trace) or p2.outcome == "raise":
                                continue
                            outs = [e2 for e2 in p2.trace if e2.k == "emit" and e2.method in ("on_next", "on_error") and e2.target == ("obs", "down")]
                            if not outs:
                                from .io import _eof_and_empty_facts
                                if _eof_and_empty_facts(p2)[1] is True and not any(e2.k in ("call", "mutate") for e2 in p2.trace):
                                    r.ob(True)      # an empty chunk carries nothing to decode: nothing is withheld
                                    continue
                            r.ob(bool(outs), lambda p2=p2, cfg2=cfg2, nspec=nspec: mk_finding(
                                "PR-2", nspec, None, cfg2, p2, "a chunk is consumed without emitting the codec's output for it: the output is withheld "
                                "(until a later chunk or the end of the stream)", extra="chunk-withheld"))
            if emits is not None:
                cfg, p, m = emits
                r.ob(key in plain_allowed, lambda: mk_finding(
                    "PR-2", spec, None, cfg, p, "this plain operator emits items when its source completes (%s) and is not one of the operators "
                    "whose results depend on the end of the stream" % summary(p), node=m.eff.node, extra="plain-emits-at-completion"))
    r.require_instances(30)
    return r

def rule_pr4(ctx: Ctx) -> RuleResult:
    """PR-4: from_iterable hands an element on before it asks the iterable for the next one.  Pulling element k+1 first (a look-ahead
    'to know the end in advance') delays everything computed from element k until the source produces k+1: on a lazy or blocking
    feed the result of an element waits for the following element."""
    r = RuleResult("PR-4", "from_iterable emits each element before it pulls the next one from the iterable (no look-ahead)")
    rel = "rxsci/operators/from_iterable.py"
    m = ctx.program.by_relpath.get(rel)
    if m is None:
        raise AnalysisError("%s not found" % rel)
    fn = next((f for f in ast.walk(m.tree) if isinstance(f, ast.FunctionDef) and f.name == "from_iterable"), None)
    acts = [f for f in ast.walk(fn) if isinstance(f, ast.FunctionDef) and any(
        isinstance(c, ast.Call) and isinstance(c.func, ast.Name) and c.func.id == "next" and m.enclosing_function(c) is f for c in ast.walk(f))] if fn is not None else []
    if len(acts) != 1:
        raise AnalysisError("from_iterable: expected one inner function that pulls from the iterator, found %d" % len(acts))
    act = acts[0]
    r.instances += 1
    for p in ctx.fn_paths(m, act, max_iter=2):
        r.paths += 1
        pending = None
        bad = None
        for e in p.trace:
            if e.k == "call" and e.func == ("builtin", "next") and not e.d.get("raised"):
                if pending is not None:
                    bad = (pending, e)
                    break
                pending = e
            elif e.k == "emit" and e.method == "on_next":
                pending = None
        r.ob(bad is None, lambda bad=bad, p=p: Finding(
            "PR-4", "%s::from_iterable.%s{look-ahead}" % (rel, act.name), bad[1].where(),
            "the iterable is asked for another element (%s) while the element pulled before (%s) has not been emitted yet: every element, and "
            "everything computed from it, reaches the subscriber one source element late" % (bad[1].brief(), bad[0].brief()), trace_of(p)))
    r.require_instances(1)
    return r
