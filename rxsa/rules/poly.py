"""Rational-function normal forms of arithmetic terms.

Used to compare an update formula in the source with a reference recurrence *as
rational functions over the reals* (plain normalisation; no solver).  Atoms are
all sub-terms that are not + - * / ** (integer exponent) or numeric constants.
"""
from __future__ import annotations

from fractions import Fraction


class Poly(dict):
    """{monomial: coeff}; a monomial is a sorted tuple of (atom, exponent)."""

    @staticmethod
    def const(c):
        p = Poly()
        if c != 0:
            p[()] = Fraction(c)
        return p

    @staticmethod
    def atom(a):
        p = Poly()
        p[((a, 1),)] = Fraction(1)
        return p

    def add(self, o, sign=1):
        r = Poly(self)
        for k, v in o.items():
            nv = r.get(k, 0) + sign * v
            if nv == 0:
                r.pop(k, None)
            else:
                r[k] = nv
        return r

    def mul(self, o):
        r = Poly()
        for k1, v1 in self.items():
            for k2, v2 in o.items():
                d = dict(k1)
                for a, e in k2:
                    d[a] = d.get(a, 0) + e
                k = tuple(sorted(d.items(), key=lambda ae: repr(ae[0])))
                nv = r.get(k, 0) + v1 * v2
                if nv == 0:
                    r.pop(k, None)
                else:
                    r[k] = nv
        return r


class RF:
    def __init__(self, num, den=None):
        self.num = num
        self.den = den if den is not None else Poly.const(1)

    def add(self, o, sign=1):
        return RF(self.num.mul(o.den).add(o.num.mul(self.den), sign), self.den.mul(o.den))

    def mul(self, o):
        return RF(self.num.mul(o.num), self.den.mul(o.den))

    def div(self, o):
        return RF(self.num.mul(o.den), self.den.mul(o.num))

    def equals(self, o):
        return self.num.mul(o.den) == o.num.mul(self.den)


def rf(t, atomize=None):
    """RF of a term, or None when a constant is not numeric / an exponent is not a small natural number."""
    h = t[0]
    if h == "const":
        if isinstance(t[1], bool) or not isinstance(t[1], (int, float)):
            return None
        return RF(Poly.const(Fraction(t[1])))
    if h == "binop" and t[1] in ("Add", "Sub", "Mult", "Div", "Pow"):
        a = rf(t[2], atomize)
        if a is None:
            return None
        if t[1] == "Pow":
            e = t[3]
            if e[0] == "const" and isinstance(e[1], int) and 0 <= e[1] <= 6:
                r = RF(Poly.const(1))
                for _ in range(e[1]):
                    r = r.mul(a)
                return r
            return None
        b = rf(t[3], atomize)
        if b is None:
            return None
        if t[1] == "Add":
            return a.add(b)
        if t[1] == "Sub":
            return a.add(b, -1)
        if t[1] == "Mult":
            return a.mul(b)
        if not b.num:
            return None
        return a.div(b)
    if h == "unop" and t[1] == "USub":
        a = rf(t[2], atomize)
        return None if a is None else RF(Poly.const(0)).add(a, -1)
    if atomize is not None:
        t = atomize(t)
    return RF(Poly.atom(t))


def strip_uid(t):
    """Remove call-result ids / epochs so that two evaluations of the same expression compare equal."""
    if not isinstance(t, tuple) or not t:
        return t
    h = t[0]
    if h == "call":
        return ("call", strip_uid(t[1]), tuple(strip_uid(x) for x in t[2]))
    if h == "ucall":
        return ("ucall", t[1], tuple(strip_uid(x) for x in t[2]))
    if h == "mcall":
        return ("mcall", strip_uid(t[1]), t[2], tuple(strip_uid(x) for x in t[3]))
    if h == "sub":
        return ("sub", strip_uid(t[1]), strip_uid(t[2]))
    if isinstance(h, str):
        return (h,) + tuple(strip_uid(x) for x in t[1:])
    return tuple(strip_uid(x) for x in t)
