"""C10 -- per-key sequence operators: FW-2 (multiplicities and bookkeeping from
path summaries), DP-6 (batch flags), DP-8 (seed slots compared by value)."""
from __future__ import annotations

import ast

from ..classify import SAME
from ..engine import Ctx, Finding, RuleResult, cfg_str, trace_of
from ..loader import AnalysisError, dotted_name
from ..model import _lookup_def
from ..terms import EV, EVITEM, EVKEY, EVSTORE, show, subterms
from .common import Emission, emissions, mk_finding, mux_emissions, summary
from .linear import linform, normalise_cmp, FLIP as FLIP_
from .lv import _is_notset
from .scan import scan_call_sites, _callable_def


def _normal(p):
    return not any(e.d.get("raised") for e in p.trace) and p.outcome != "raise"


_STATE = {}


def _spec(ctx, rel, suffix, pick=None):
    site = ctx.site(rel, suffix, kind="mux", pick=pick)
    spec = site.handler_specs("on_next")[0]
    _STATE[id(spec)] = ctx.only_state(site)
    return site, spec


def _creates_deque(ctx, site):
    """the lag(n) site: the one whose Create branch stores a fresh deque"""
    for spec in site.handler_specs("on_next"):
        for kind, cfg, paths in ctx.all_paths(spec, kinds=("Create",)):
            for p in paths:
                for e in p.trace:
                    if e.k == "store" and e.op == "set_state" and e.extra and e.extra[0][0] == "call" and e.extra[0][1] == ("glob", "collections.deque"):
                        return True
    return False


def _reads(p, name=None):
    return [e for e in p.trace if e.k == "store" and e.op == "get_state" and e.state is not None and e.state[0] == "free" and (name is None or e.state[1] == name)]


def _writes(p, name=None):
    return [e for e in p.trace if e.k == "store" and e.op == "set_state" and e.state is not None and e.state[0] == "free" and (name is None or e.state[1] == name)]


def _notset_outcome(p, read):
    """True/False if the path decided 'read is NOTSET', None if undecided."""
    for e in p.trace:
        if e.k == "decision" and e.test[0] == "cmp" and read in (e.test[2], e.test[3]) and (_is_notset(e.test[2]) or _is_notset(e.test[3])):
            return e.outcome == (e.test[1] in ("Is", "Eq"))
    return None


def _is_range_of_param(it, name):
    """it is the term of range(<parameter name>)"""
    return it[0] == "call" and it[1] == ("builtin", "range") and len(it[2]) == 1 and it[2][0][0] == "param" and it[2][0][1] == name


def _loop_runs_param_times(p, loop, name):
    """the loop of the path runs once per unit of the parameter *name*: `for _ in range(name)`, or a countdown
    `k = name; while k > 0: ...; k -= 1` (the k-th evaluation of the loop test is  name - k > 0)"""
    if loop.iter is not None:
        return _is_range_of_param(loop.iter, name)
    tests = []
    for k, e in enumerate(p.trace):
        if e.k in ("loopiter", "loopexit") and e.loop == loop.loop and k > 0 and p.trace[k - 1].k == "decision":
            tests.append(p.trace[k - 1])
    if not tests:
        return False
    for k, d in enumerate(tests):
        nf = normalise_cmp(d.test, True)
        if nf is None:
            return False
        op, co, c = nf
        co = dict(co)
        if len(co) != 1:
            return False
        (atom, coef), = co.items()
        base = atom
        if base[0] == "call" and base[1] in (("glob", "operator.index"), ("builtin", "int")) and len(base[2]) == 1:
            base = base[2][0]
        if not (base[0] == "param" and base[1] == name) or coef not in (1, -1):
            return False
        s = coef
        # name - k > 0   /   name - k >= 1
        opn = op if s == 1 else {"Gt": "Lt", "Lt": "Gt", "GtE": "LtE", "LtE": "GtE"}.get(op, op)
        cn = c * s
        if not ((opn == "Gt" and cn == -k) or (opn == "GtE" and cn == -(k + 1)) or (opn == "NotEq" and cn == -k)):
            return False
    return True


def _items(p):
    return [m for m in mux_emissions(p, roles=("down",)) if m.event is not None and m.event.kind == "Next"]


def _probe_default(ctx, spec, name=None):
    from .st import state_vars
    sv = state_vars(ctx, spec)
    if name is None:
        name = _STATE.get(id(spec))
    if name not in sv:
        raise AnalysisError("%s: state '%s' is not created in the Probe branch" % (spec.qualname, name))
    return dict(sv[name].kwargs)


def rule_fw2(ctx: Ctx) -> RuleResult:
    r = RuleResult("FW-2", "first/take/last/pad/start_with/lag/distinct: emission multiplicity and bookkeeping on every path")

    def each(spec, kinds):
        for kind, cfg, paths in ctx.all_paths(spec, kinds=kinds):
            for p in paths:
                r.paths += 1
                r.groups.add((spec.qualname, kind, cfg_str(cfg)))
                if _normal(p):
                    yield kind, cfg, p

    def fail(spec, kind, cfg, p, msg, extra, node=None):
        return lambda: mk_finding("FW-2", spec, kind, cfg, p, msg, node=node, extra=extra)

    # ---- first -----------------------------------------------------------
    site, spec = _spec(ctx, "rxsci/operators/first.py", "first_mux._first.on_subscribe")
    r.instances += 1
    dflt = _probe_default(ctx, spec).get("default_value")
    r.ob(dflt == ("const", False), lambda: Finding("FW-2", spec.qualname + "{default}", spec.module.where(spec.fn),
                                                   "first: the 'already emitted' flag must start as False"))
    for kind, cfg, p in each(spec, ("Next",)):
        rd, wr, it = _reads(p), _writes(p), _items(p)
        d = [e for e in p.trace if e.k == "decision" and rd and rd[0].result in (e.test[2:] if e.test[0] == "cmp" else (e.test,))]
        fresh = None
        for e in d:
            if e.test[0] == "cmp" and e.test[1] in ("Is", "Eq") and ("const", False) in (e.test[2], e.test[3]):
                fresh = e.outcome
            elif e.test[0] == "cmp" and e.test[1] in ("IsNot", "NotEq") and ("const", False) in (e.test[2], e.test[3]):
                fresh = not e.outcome
            elif e.test[0] == "cmp" and e.test[1] in ("Is", "Eq") and ("const", True) in (e.test[2], e.test[3]):
                fresh = not e.outcome
            elif e.test == rd[0].result:
                fresh = not e.outcome
        ok = fresh is not None
        if ok and fresh:
            ok = len(it) == 1 and it[0].eff.arg == EV and len(wr) == 1 and wr[0].extra[0] == ("const", True) and wr[0].key == EVKEY
        elif ok:
            ok = not it and all(w.extra[0] == ("const", True) for w in wr)
        r.ob(ok, fail(spec, kind, cfg, p, "first: an item is emitted iff none was emitted for the key yet, and then the flag is set; "
                                          "this path (first=%s) does: %s, writes %s" % (fresh, summary(p), [w.brief() for w in wr]), "first"))
    # ---- take ------------------------------------------------------------
    site, spec = _spec(ctx, "rxsci/operators/take.py", "take_mux._take.on_subscribe")
    r.instances += 1
    dflt = _probe_default(ctx, spec).get("default_value")
    r.ob(dflt is not None and dflt[0] == "param" and dflt[1] == "count", lambda: Finding(
        "FW-2", spec.qualname + "{default}", spec.module.where(spec.fn), "take: the countdown must start at count; it starts at %s" % (show(dflt) if dflt else None)))
    for kind, cfg, p in each(spec, ("Next",)):
        rd, wr, it = _reads(p), _writes(p), _items(p)
        if not rd:
            r.ob(False, fail(spec, kind, cfg, p, "take: the countdown is not read", "take-read"))
            continue
        v = rd[0].result
        remaining = None
        for e in p.trace:
            if e.k == "decision":
                nf = normalise_cmp(e.test, e.outcome)
                if nf is not None and dict(nf[1]).keys() == {v}:
                    op, co, c = nf
                    s = 1 if dict(co)[v] > 0 else -1
                    c2 = c * s
                    op2 = op if s == 1 else {"GtE": "LtE", "LtE": "GtE", "Gt": "Lt", "Lt": "Gt"}.get(op, op)
                    # v + c2 op2 0
                    if (op2 == "Gt" and c2 == 0) or (op2 == "GtE" and c2 == -1) or (op2 == "NotEq" and c2 == 0):
                        remaining = True
                    elif (op2 == "LtE" and c2 == 0) or (op2 == "Lt" and c2 == -1) or (op2 == "Eq" and c2 == 0):
                        remaining = False
                    else:
                        remaining = "bad:%s %s %s" % (op2, c2, "")
        if remaining is True:
            f = linform(wr[0].extra[0]) if len(wr) == 1 else None
            ok = len(it) == 1 and it[0].eff.arg == EV and f is not None and dict(f[0]) == {v: 1} and f[1] == -1 and wr[0].key == EVKEY
        elif remaining is False:
            ok = not it and not wr
        else:
            ok = False
        r.ob(ok, fail(spec, kind, cfg, p, "take: an item is forwarded iff the countdown is > 0, and then the countdown decreases by exactly 1; "
                                          "this path (remaining=%s) does: %s, writes %s" % (remaining, summary(p), [w.brief() for w in wr]), "take"))
    # ---- last / pad_end --------------------------------------------------
    for rel, suffix, fwd in (("rxsci/operators/last.py", "last_mux._last.on_subscribe", False),
                             ("rxsci/data/pad.py", "pad_end_mux._pad_end_mux.on_subscribe", True)):
        site, spec = _spec(ctx, rel, suffix)
        r.instances += 1
        for kind, cfg, p in each(spec, ("Next",)):
            wr, it = _writes(p), _items(p)
            ok = len(wr) == 1 and wr[0].extra[0] == EVITEM and wr[0].key == EVKEY
            ok = ok and ((len(it) == 1 and it[0].eff.arg == EV) if fwd else not it)
            r.ob(ok, fail(spec, kind, cfg, p, "%s: every item must be recorded as the key's last item%s; this path does: %s, writes %s" % (
                suffix.split(".")[0], " and forwarded once" if fwd else " and not emitted", summary(p), [w.brief() for w in wr]), "record"))
        for kind, cfg, p in each(spec, ("Completed",)):
            rd, it = _reads(p), _items(p)
            ns = _notset_outcome(p, rd[0].result) if rd else None
            if any(e.k == "loopexit" and e.n == 0 for e in p.trace):
                continue
            if ns is None:
                r.ob(False, fail(spec, kind, cfg, p, "the completion does not test whether the key received an item", "empty-test"))
            elif ns:
                r.ob(not it, fail(spec, kind, cfg, p, "a key that received no item must emit nothing at completion; it emits %s" % summary(p), "empty"))
            elif not fwd:
                ok = len(it) == 1 and it[0].event.keyclass == SAME and it[0].event.payload == rd[0].result
                r.ob(ok, fail(spec, kind, cfg, p, "last: exactly the stored last item must be emitted before the completion; this path: %s" % summary(p), "emit-last"))
            else:
                val = cfg.get("value")
                want = ("param",) if val == "Obj" else rd[0].result
                ok = bool(it) and all(m.event.keyclass == SAME for m in it)
                for m in it:
                    pay = m.event.payload
                    ok = ok and ((pay[0] == "param" and pay[1] == "value") if val == "Obj" else pay == rd[0].result)
                loops = [e for e in p.trace if e.k == "loopiter"]
                ok = ok and bool(loops) and _loop_runs_param_times(p, loops[0], "size")
                r.ob(ok, fail(spec, kind, cfg, p, "pad_end: 'size' copies of the padding value (explicit value, else the last item) must be emitted "
                                                  "before the completion; this path: %s" % summary(p), "pad"))
    # ---- pad_start / start_with -------------------------------------------
    for rel, suffix, what in (("rxsci/data/pad.py", "pad_start_mux._pad_start_mux.on_subscribe", "pad_start"),
                              ("rxsci/operators/start_with.py", "start_with._start_with.on_subscribe", "start_with")):
        site, spec = _spec(ctx, rel, suffix)
        r.instances += 1
        for kind, cfg, p in each(spec, ("Next",)):
            rd, wr, it = _reads(p), _writes(p), _items(p)
            ns = _notset_outcome(p, rd[0].result) if rd else None
            skipped = any(e.k == "loopexit" and e.n == 0 for e in p.trace)
            if ns is None:
                r.ob(False, fail(spec, kind, cfg, p, "%s: no test whether the key has started" % what, "started-test"))
                continue
            last_ok = bool(it) and it[-1].eff.arg == EV
            if ns:
                pads = it[:-1]
                ok = last_ok and len(wr) == 1 and wr[0].key == EVKEY and (skipped or bool(pads))
                for m in pads:
                    ok = ok and m.event.keyclass == SAME and m.event.kind == "Next" and m.event.store == EVSTORE   # i._replace(item=) or OnNextMux(key, item, store) written out
                    pay = m.event.payload
                    if what == "pad_start":
                        v = cfg.get("value")
                        ok = ok and ((pay[0] == "param" and pay[1] == "value") if v == "Obj" else pay == EVITEM)
                    else:
                        ok = ok and pay[0] == "loopvar"
                if what == "pad_start" and pads:
                    # one padding item per element of range(size): the bounded loop enumeration cannot count, the loop header can
                    loops = [e for e in p.trace if e.k == "loopiter"]
                    ok = ok and bool(loops) and _loop_runs_param_times(p, loops[0], "size")
            else:
                ok = last_ok and len(it) == 1 and not wr
            r.ob(ok, fail(spec, kind, cfg, p, "%s: padding must be emitted only before the first item of a key, then the item exactly once, and the key "
                                              "marked as started; this path (first=%s): %s, writes %s" % (what, ns, summary(p), [w.brief() for w in wr]), "pad"))
    # ---- pad_start / pad_end: the sizes refused at construction ----------------------------
    # n = 0 is a size (the identity): the factories refuse negative sizes only
    for fname in ("pad_start", "pad_end"):
        pm, pfn = ctx.function("rxsci/data/pad.py", fname)
        SZ = ("arg", pm.scopes[pfn].params[0])
        r.instances += 1
        for p in ctx.fn_paths(pm, pfn, bind_own_ext=True):
            if p.outcome != "raise":
                continue
            r.paths += 1
            decs = [e for e in p.trace if e.k == "decision"]
            on_size = [e for e in decs if any(x == SZ for x in subterms(e.test))]

            def plain(x):
                # int(size) is size for the integer sizes the operator is specified on
                if isinstance(x, tuple) and x and x[0] == "call" and x[1] == ("builtin", "int") and len(x[2]) == 1 and x[2][0] == SZ:
                    return SZ
                return tuple(plain(y) for y in x) if isinstance(x, tuple) else x
            forms = [normalise_cmp(plain(e.test), e.outcome) for e in on_size]
            if not on_size or any(f is None or dict(f[1]).keys() != {SZ} for f in forms):
                raise AnalysisError("%s: %s refuses its arguments under a test the size rule cannot read (%s)" % (
                    pm.where(pfn), fname, "; ".join(e.brief() for e in decs)[:120]))
            neg_only = False
            for op, co, c in forms:
                k = dict(co)[SZ]
                op2, c2 = (op, c / k) if k > 0 else (FLIP_[op], c / k)
                # size + c2  op2  0
                if (op2 == "Lt" and c2 >= 0) or (op2 == "LtE" and c2 >= 1):
                    neg_only = True
            r.ob(neg_only, lambda p=p, fname=fname, on_size=on_size: Finding(
                "FW-2", "rxsci/data/pad.py::%s{refused-size}" % fname, pm.where(pfn),
                "%s refuses a size under '%s': only negative sizes are invalid -- a size of 0 is the identity on every key (and a computed size such as "
                "window - 1 is 0 for window 1)" % (fname, "; ".join(e.brief() for e in on_size)), trace_of(p)))
    # ---- lag ---------------------------------------------------------------
    site, spec = _spec(ctx, "rxsci/data/lag.py", "_lag1.on_subscribe")
    r.instances += 1
    for kind, cfg, p in each(spec, ("Next",)):
        rd, wr, it = _reads(p), _writes(p), _items(p)
        ns = _notset_outcome(p, rd[0].result) if rd else None
        prev = EVITEM if ns else (rd[0].result if rd else None)
        ok = ns is not None and len(it) == 1 and it[0].event.keyclass == SAME and it[0].event.payload == ("tuple", prev, EVITEM) \
            and len(wr) == 1 and wr[0].extra[0] == EVITEM and wr[0].key == EVKEY
        r.ob(ok, fail(spec, kind, cfg, p, "lag(1): exactly one pair (previous item or the item itself, item) per item, and the item recorded; "
                                          "this path: %s" % (show(it[0].event.payload) if it else summary(p)), "lag1"))
    # the single-slot implementation is chosen exactly for size == 1 (it pairs each item with the previous one,
    # which is not what lag(0) or lag(n > 1) mean)
    lm, lfn = ctx.function("rxsci/data/lag.py", "lag")
    SIZE = ("arg", lm.scopes[lfn].params[0])
    def builds_single_slot(f, depth=0):
        """f is the function (returned by lag) that builds the single-slot site -- itself, or by handing its source to the function that does
        (def _lag1(source): return _lag1_named(source, None))"""
        body = [s for s in getattr(f, "body", []) if not (isinstance(s, ast.Expr) and isinstance(s.value, ast.Constant))] if isinstance(f, ast.FunctionDef) else []
        if depth < 3 and len(body) == 1 and isinstance(body[0], ast.Return) and isinstance(body[0].value, ast.Call) and isinstance(body[0].value.func, ast.Name):
            inner = _lookup_def(lm, f, body[0].value.func.id)
            if inner is not None and inner is not f and builds_single_slot(inner, depth + 1):
                return True
        g = site.subscribe_fn
        while g is not None:
            if g is f:
                return True
            g = site.module.enclosing_function(g)
        return bool(site.instance_of) and getattr(f, "name", None) == site.short.split(".")[0]
    for p in ctx.fn_paths(lm, lfn, inline=False, bind_own_ext=True):
        if p.outcome != "return" or p.value is None:
            continue
        decs = [e for e in p.trace if e.k == "decision" and any(x == SIZE for x in subterms(e.test))]
        is_one = p.value[0] == "func" and builds_single_slot(p.value[1])
        rel_ = [normalise_cmp(e.test, e.outcome) for e in decs]
        eq1 = [nf for nf in rel_ if nf is not None and dict(nf[1]) in ({SIZE: 1}, {SIZE: -1}) and nf[0] == "Eq" and nf[2] * (1 if dict(nf[1])[SIZE] == 1 else -1) == -1]
        ne1 = [nf for nf in rel_ if nf is not None and dict(nf[1]) in ({SIZE: 1}, {SIZE: -1}) and nf[0] == "NotEq" and nf[2] * (1 if dict(nf[1])[SIZE] == 1 else -1) == -1]
        ok = (is_one and len(decs) == 1 and len(eq1) == 1) or (not is_one and len(decs) == 1 and len(ne1) == 1)
        r.ob(ok, lambda p=p: Finding("FW-2", "rxsci/data/lag.py::lag{dispatch}", lm.where(lfn),
                                     "lag must use its single-slot implementation exactly when size == 1; this path returns %s under %s" % (
                                         show(p.value), [e.brief() for e in p.trace if e.k == "decision"]), trace_of(p)))
    site, spec = _spec(ctx, "rxsci/data/lag.py", "lag._lag.on_subscribe", pick=lambda s: _creates_deque(ctx, s))
    r.instances += 1
    for kind, cfg, p in each(spec, ("Next",)):
        rd, it = _reads(p), _items(p)
        if not rd:
            r.ob(False, fail(spec, kind, cfg, p, "lag: the key's deque is not read", "lag-read"))
            continue
        q = rd[0].result
        apps = [e for e in p.trace if e.k == "mutate" and e.base == q and e.method == "append"]
        pops = [e for e in p.trace if e.k == "mutate" and e.base == q and e.method == "popleft"]
        ok = len(apps) == 1 and apps[0].args[0] == EVITEM and len(it) == 1 and it[0].event.keyclass == SAME
        if ok:
            pay = it[0].event.payload
            ok = pay[0] == "tuple" and pay[2] == EVITEM and pay[1][0] == "sub" and pay[1][1] == q and pay[1][2] == ("const", 0) \
                and p.trace.index(apps[0]) < it[0].pos
        # popleft iff len(q) > size
        trim = [e for e in p.trace if e.k == "decision" and normalise_cmp(e.test, True) is not None and any(x[0] == "param" and x[1] == "size" for x in subterms(e.test))]
        if ok:
            ok = len(trim) == 1
            if ok:
                op, co, c = normalise_cmp(trim[0].test, trim[0].outcome)
                co = dict(co)
                ln = [k for k in co if k[0] == "call" and k[1] == ("builtin", "len")]
                sz = [k for k in co if k[0] == "param"]
                ok = len(ln) == 1 and len(sz) == 1 and len(co) == 2
                if ok:
                    s = 1 if co[ln[0]] > 0 else -1
                    op2 = op if s == 1 else {"GtE": "LtE", "LtE": "GtE", "Gt": "Lt", "Lt": "Gt"}.get(op, op)
                    c2 = c * s
                    over = (op2 == "Gt" and c2 == 0) or (op2 == "GtE" and c2 == -1)
                    under = (op2 == "LtE" and c2 == 0) or (op2 == "Lt" and c2 == -1)
                    ok = (over and len(pops) == 1) or (under and not pops)
        r.ob(ok, fail(spec, kind, cfg, p, "lag(n): append the item, emit (oldest kept item, item), drop the oldest iff more than n are kept; "
                                          "this path: %s" % summary(p), "lag"))
    # ---- distinct ------------------------------------------------------------
    site, spec = _spec(ctx, "rxsci/operators/distinct.py", "distinct._distinct.on_subscribe")
    r.instances += 1
    for kind, cfg, p in each(spec, ("Next",)):
        rd, it = _reads(p), _items(p)
        if not rd:
            r.ob(False, fail(spec, kind, cfg, p, "distinct: the key's set is not read", "distinct-read"))
            continue
        s = rd[0].result
        mem = [e for e in p.trace if e.k == "decision" and e.test[0] == "cmp" and e.test[1] in ("In", "NotIn") and e.test[3] == s]
        adds = [e for e in p.trace if e.k == "mutate" and e.base == s and e.method == "add"]
        ok = len(mem) == 1
        if ok:
            key = mem[0].test[2]
            km = cfg.get("key_mapper")
            want_key = EVITEM if km != "Obj" else None
            new = mem[0].outcome == (mem[0].test[1] == "NotIn")
            if km == "Obj":
                ok = key[0] == "ucall" and key[1] == "key_mapper" and tuple(key[2]) == (EVITEM,)
            else:
                ok = key == EVITEM
            if new:
                ok = ok and len(adds) == 1 and adds[0].args[0] == key and len(it) == 1 and it[0].eff.arg == EV
            else:
                ok = ok and not adds and not it
        r.ob(ok, fail(spec, kind, cfg, p, "distinct: an item is forwarded iff its key is not yet in the key's set (membership, i.e. hash and ==), "
                                          "and the key is then added; this path: %s" % summary(p), "distinct"))
    for kind, cfg, p in each(spec, ("Create",)):
        wr = _writes(p)
        ok = len(wr) == 1 and wr[0].extra[0][0] == "call" and wr[0].extra[0][1] == ("builtin", "set") and not wr[0].extra[0][2] and wr[0].key == EVKEY
        r.ob(ok, fail(spec, kind, cfg, p, "distinct: each key lifetime must start with a fresh empty set", "fresh-set"))
    site, spec = _spec(ctx, "rxsci/data/lag.py", "lag._lag.on_subscribe", pick=lambda s: _creates_deque(ctx, s))
    for kind, cfg, p in each(spec, ("Create",)):
        wr = _writes(p)
        ok = len(wr) == 1 and wr[0].extra[0][0] == "call" and wr[0].extra[0][1] == ("glob", "collections.deque") and wr[0].key == EVKEY
        r.ob(ok, fail(spec, kind, cfg, p, "lag: each key lifetime must start with a fresh deque", "fresh-deque"))
    r.require_instances(9)
    return r


# ----------------------------------------------------------------------
def _accumulator_of(ctx, rel, op_name):
    """(module, scan call, accumulator def, seed node, terminator def) of the scan inside op_name."""
    m, fn = ctx.function(rel, op_name)
    for mm, call, seed in scan_call_sites(ctx):
        if mm is m and m.enclosing_function(call) is fn:
            acc = call.args[0] if call.args else None
            term = None
            for kw in call.keywords:
                if kw.arg == "accumulator":
                    acc = kw.value
                if kw.arg == "terminator":
                    term = kw.value
            if len(call.args) > 3:
                term = call.args[3]
            accfn = _callable_def(ctx, m, acc, fn)
            termfn = _callable_def(ctx, m, term, fn) if term is not None else None
            return m, call, accfn, seed, termfn
    raise AnalysisError("%s::%s no longer builds on rs.ops.scan" % (rel, op_name))


def rule_dp6(ctx: Ctx) -> RuleResult:
    r = RuleResult("DP-6", "batch: the 'batch complete' flag depends on batch_size on every accumulator path; the terminator's flag depends on the pending batch")
    rel = "rxsci/data/batch.py"
    m, call, accfn, seed, termfn = _accumulator_of(ctx, rel, "batch")
    if accfn is None or termfn is None:
        raise AnalysisError("batch: accumulator / terminator are not local functions")
    r.instances += 2
    params = m.scopes[accfn].params
    ACC, ITEM = ("arg", params[0]), ("arg", params[1])
    for p in ctx.fn_paths(m, accfn):
        r.paths += 1
        if p.outcome != "return":
            r.ob(False, lambda: Finding("DP-6", "%s::batch._batch{return}" % rel, m.where(accfn), "an accumulator path returns no (batch, flag) pair", trace_of(p)))
            continue
        v = p.value
        if v[0] != "tuple" or len(v) != 3:
            r.ob(False, lambda: Finding("DP-6", "%s::batch._batch{shape}" % rel, m.where(accfn), "the accumulator must return (batch, flag); it returns %s" % show(v), trace_of(p)))
            continue
        flag = v[2]
        dep_term = any(x[0] == "param" and x[1] == "batch_size" for x in subterms(flag))
        dep_path = any(e.k == "decision" and any(x[0] == "param" and x[1] == "batch_size" for x in subterms(e.test)) for e in p.trace)
        r.groups.add(("batch._batch", len(r.groups)))
        r.ob(dep_term or dep_path, lambda: Finding(
            "DP-6", "%s::batch._batch{flag}" % rel, m.where(accfn),
            "on the path [%s] the accumulator returns the flag %s without consulting batch_size: a batch that this very item completes "
            "(batch_size == 1, or the item right after an emitted batch) is not flagged and is emitted one item late" % (
                "; ".join(e.brief() for e in p.trace if e.k == "decision"), show(flag)), trace_of(p)))
        # exact form: the flag is  len(batch) == batch_size  (or a decision of that form selecting a constant flag)
        tests = []
        if flag[0] == "cmp":
            tests.append((flag, True, None))
        for e in p.trace:
            if e.k == "decision" and any(x[0] == "param" and x[1] == "batch_size" for x in subterms(e.test)):
                tests.append((e.test, e.outcome, flag))
        for t, outcome, const_flag in tests:
            nf = normalise_cmp(t, True)
            good = False
            why = "not an arithmetic comparison"
            if nf is not None:
                op, co, c = nf
                co = dict(co)
                ln = [k for k in co if k[0] == "call" and k[1] == ("builtin", "len")]
                bs = [k for k in co if k[0] == "param" and k[1] == "batch_size"]
                if len(co) == 2 and len(ln) == 1 and len(bs) == 1:
                    sgn = 1 if co[ln[0]] > 0 else -1
                    op2 = op if sgn == 1 else {"GtE": "LtE", "LtE": "GtE", "Gt": "Lt", "Lt": "Gt"}.get(op, op)
                    good = co[ln[0]] * sgn == 1 and co[bs[0]] * sgn == -1 and c == 0 and op2 in ("Eq", "GtE")
                    why = "it tests len(batch) %+d %s batch_size" % (c * sgn, op2)
                    if good and const_flag is not None:
                        good = const_flag == ("const", bool(outcome))
                        why = "the flag returned under this test is %s" % show(const_flag)
                else:
                    why = "operands are not len(batch) and batch_size"
            r.ob(good, lambda t=t, why=why: Finding(
                "DP-6", "%s::batch._batch{flag-form}" % rel, m.where(accfn),
                "a batch is complete exactly when len(batch) == batch_size; the flag is decided by '%s': %s" % (show(t), why), trace_of(p)))
        # the item must be in the returned batch
        batch = v[1]
        has_item = any(x == ITEM for x in subterms(batch)) or any(
            e.k == "mutate" and e.method == "append" and e.args and e.args[0] == ITEM and (e.base == batch or batch == e.base) for e in p.trace)
        r.ob(has_item, lambda: Finding("DP-6", "%s::batch._batch{item}" % rel, m.where(accfn),
                                       "the item is not part of the batch returned on this path: %s" % show(batch), trace_of(p)))
        # a new batch is started exactly when the previous item completed one
        def is_acc(x, k):
            return x[0] == "sub" and x[1] == ACC and x[2] == ("const", k)
        prev = None
        for e in p.trace:
            if e.k != "decision":
                continue
            tt, pol = _no_epoch(e.test), e.outcome
            while tt[0] == "not":
                tt, pol = tt[1], not pol
            if tt[0] == "call" and tt[1] == ("builtin", "bool") and len(tt[2]) == 1:
                tt = tt[2][0]
            if is_acc(tt, 1):
                prev = pol
            elif tt[0] == "cmp" and tt[1] in ("Is", "Eq", "IsNot", "NotEq") and (is_acc(tt[2], 1) or is_acc(tt[3], 1)):
                other = tt[3] if is_acc(tt[2], 1) else tt[2]
                if other[0] == "const" and isinstance(other[1], bool):
                    prev = ((tt[1] in ("Is", "Eq")) == pol) == other[1]
        appended = [e for e in p.trace if e.k == "mutate" and e.method == "append" and e.base == batch]
        if prev is None:
            r.ob(False, lambda: Finding("DP-6", "%s::batch._batch{restart}" % rel, m.where(accfn),
                                        "the accumulator does not consult the 'batch complete' flag of the previous item: it cannot start a new batch "
                                        "after an emitted one (returned batch: %s)" % show(batch), trace_of(p)))
        elif prev:
            def parts(x):
                """elements of a list expression built from list displays and +; None for anything else"""
                if x[0] == "list":
                    return list(x[1:])
                if x[0] == "binop" and x[1] == "Add":
                    a, b = parts(x[2]), parts(x[3])
                    return None if a is None or b is None else a + b
                return None
            el = parts(batch)
            fresh = el is not None and ((el == [] and batch[0] == "list" and len(appended) == 1 and appended[0].args[0] == ITEM) or (el == [ITEM] and not appended))
            r.ob(fresh, lambda: Finding("DP-6", "%s::batch._batch{restart}" % rel, m.where(accfn),
                                        "after a complete (emitted) batch the next batch must be a new list holding only the item; this path returns %s "
                                        "(appends: %s): the emitted batch keeps growing / items are emitted twice" % (show(batch), [e.brief() for e in appended]), trace_of(p)))
        else:
            cont = any(is_acc(x, 0) for x in subterms(batch)) and (any(x == ITEM for x in subterms(batch)) or (len(appended) == 1 and appended[0].args[0] == ITEM))
            r.ob(cont, lambda: Finding("DP-6", "%s::batch._batch{restart}" % rel, m.where(accfn),
                                       "while the pending batch is incomplete the item must be added to it (once); this path returns %s (appends: %s): "
                                       "pending items are lost" % (show(batch), [e.brief() for e in appended]), trace_of(p)))
    tparams = m.scopes[termfn].params
    TACC = ("arg", tparams[0])
    A0, A1 = ("sub", TACC, ("const", 0)), ("sub", TACC, ("const", 1))

    def atom_kind(t, pol):
        """'not-emitted' (the pending list was not flagged complete by the last item) / 'nonempty' (it holds
        an item) / None, for the atom t holding with polarity pol"""
        t = _no_epoch(t)
        if t[0] == "not":
            return atom_kind(t[1], not pol)
        if t[0] == "call" and t[1] == ("builtin", "bool") and len(t[2]) == 1:
            return atom_kind(t[2][0], pol)
        if t == A1:
            return "not-emitted" if not pol else None
        if t[0] == "cmp" and t[1] in ("Is", "Eq", "IsNot", "NotEq") and A1 in (t[2], t[3]):
            other = t[3] if t[2] == A1 else t[2]
            if other[0] == "const" and other[1] in (True, False) and isinstance(other[1], bool):
                same = t[1] in ("Is", "Eq")
                holds_false = (other[1] is False) == same        # the atom, when true, says acc[1] is False
                return "not-emitted" if holds_false == pol else None
            return None
        if t == A0 or t == ("call", ("builtin", "len"), (A0,)):
            return "nonempty" if pol else None
        nf = normalise_cmp(t, pol)
        if nf is not None:
            op, co, c = nf
            co = dict(co)
            ln = [k for k in co if k == ("call", ("builtin", "len"), (A0,))]
            if len(co) == 1 and len(ln) == 1:
                sgn = 1 if co[ln[0]] > 0 else -1
                op2 = op if sgn == 1 else {"GtE": "LtE", "LtE": "GtE", "Gt": "Lt", "Lt": "Gt"}.get(op, op)
                c2, k2 = c * sgn, co[ln[0]] * sgn
                if k2 == 1 and ((op2 == "Gt" and c2 == 0) or (op2 == "GtE" and c2 == -1) or (op2 == "NotEq" and c2 == 0)):
                    return "nonempty"
        return None

    def conj(flag):
        """atoms [(term, polarity)] whose conjunction the flag value is, or None"""
        if flag[0] == "boolop" and flag[1] == "and":
            out = []
            for x in flag[2:]:
                sub = conj(x)
                if sub is None:
                    return None
                out += sub
            return out
        if flag[0] == "boolop":
            return None
        return [(flag, True)]
    true_paths = []
    for p in ctx.fn_paths(m, termfn):
        r.paths += 1
        v = p.value
        ok = v is not None and v[0] == "tuple" and len(v) == 3
        flag = v[2] if ok else None
        dep = ok and (any(x == TACC for x in subterms(flag)) or any(e.k == "decision" and any(x == TACC for x in subterms(e.test)) for e in p.trace))
        r.ob(bool(dep), lambda: Finding(
            "DP-6", "%s::batch._terminate{flag}" % rel, m.where(termfn),
            "the terminator flags the pending batch with %s whatever the accumulator holds: an already emitted full batch is emitted "
            "again when the length is a multiple of batch_size, and an empty batch is emitted for an empty source" % (show(flag) if flag else None), trace_of(p)))
        if not ok:
            continue
        r.ob(v[1][0] == "sub" and v[1][1] == TACC and v[1][2] == ("const", 0), lambda: Finding("DP-6", "%s::batch._terminate{batch}" % rel, m.where(termfn),
                                         "the terminator must hand over the pending list itself; it returns %s" % show(v[1]), trace_of(p)))
        decs = [(e.test, e.outcome) for e in p.trace if e.k == "decision"]
        if flag == ("const", False):
            continue
        atoms = decs + ([] if flag == ("const", True) else (conj(flag) or [(flag, None)]))
        true_paths.append((p, atoms))
    # exactly: flagged iff the pending list was not already emitted and is not empty
    exact = len(true_paths) == 1
    if exact:
        kinds = sorted(str(atom_kind(t, pol)) if pol is not None else "None" for t, pol in true_paths[0][1])
        exact = kinds == ["nonempty", "not-emitted"]
    r.ob(exact, lambda: Finding(
        "DP-6", "%s::batch._terminate{flag-form}" % rel, m.where(termfn),
        "at completion the pending list must be flagged exactly when it was not already emitted as a full batch and holds at least one item "
        "(flag = acc[1] is False and len(acc[0]) > 0); the flag is true under: %s" % (
            [[("%s%s" % ("" if pol else "not ", show(t))) for t, pol in atoms] for _, atoms in true_paths] or "no condition")))
    # downstream selection by the flag (component 1) and projection of the batch (component 0)
    fn = m.enclosing_function(call)
    par = m.parent.get(call)
    sel = proj = False
    seq_ = None
    if isinstance(par, ast.Call) and call in par.args:
        seq_ = par.args
    elif isinstance(par, (ast.List, ast.Tuple)) and call in par.elts:
        seq_ = par.elts          # stages = [scan(...), filter(...), map(...)]; rx.pipe(*stages)
    if seq_ is not None:
        k = seq_.index(call)
        rest = seq_[k + 1:]
        cbs = []
        for a in rest:
            if isinstance(a, ast.Call) and a.args:
                dn = dotted_name(a.func) or ""
                ref = ctx.program.resolve_dotted(m, dn) if dn else ("unknown", "")
                name = "%s.%s" % (ref[1].name, ref[2].name) if ref[0] == "def" else dn
                cbs.append((name, _callable_def(ctx, m, a.args[0], fn)))
        if len(cbs) == 2 and cbs[0][0] == "rxsci.operators.filter.filter" and cbs[1][0] == "rxsci.operators.map.map" and cbs[0][1] is not None and cbs[1][1] is not None:
            from .poly import strip_uid
            f1, f2 = cbs[0][1], cbs[1][1]
            A1 = ("arg", m.scopes[f1].params[0])
            A2 = ("arg", m.scopes[f2].params[0])
            vals = [strip_uid(p.value) for p in ctx.fn_paths(m, f1) if p.value is not None]
            flag = ("sub", A1, ("const", 1))
            sel = bool(vals) and all(v == flag or (v[0] == "cmp" and v[1] in ("Eq", "Is") and {v[2], v[3]} == {flag, ("const", True)}) for v in vals)
            vals2 = [strip_uid(p.value) for p in ctx.fn_paths(m, f2) if p.value is not None]
            proj = bool(vals2) and all(v == ("sub", A2, ("const", 0)) for v in vals2)
    r.ob(sel and proj, lambda: Finding("DP-6", "%s::batch{select}" % rel, m.where(call),
                                       "after the scan, batches must be selected by the flag (component 1 is True) and projected to the list (component 0)"))
    r.require_instances(2)
    return r


def _no_epoch(t):
    """the term without the read epochs of subscripts / len() (reads of the same unmodified value)"""
    if not isinstance(t, tuple) or not t:
        return t
    if t[0] == "sub" and len(t) == 4:
        return ("sub", _no_epoch(t[1]), _no_epoch(t[2]))
    if t[0] == "call" and len(t) == 4 and t[1] == ("builtin", "len"):
        return ("call", t[1], tuple(_no_epoch(x) for x in t[2]))
    return tuple(_no_epoch(x) if isinstance(x, tuple) else x for x in t)


def _term_of_literal(node):
    if isinstance(node, ast.Constant):
        return ("const", node.value)
    if isinstance(node, ast.Tuple):
        return ("tuple",) + tuple(_term_of_literal(e) for e in node.elts)
    if isinstance(node, ast.List):
        return ("list",) + tuple(_term_of_literal(e) for e in node.elts)
    if isinstance(node, ast.Name):
        return ("name", node.id)
    return ("opaque", ast.unparse(node), ())


def rule_dp8(ctx: Ctx) -> RuleResult:
    r = RuleResult("DP-8", "a seed slot that is compared by value with user data must be a private marker (first-item None must not be dropped)")
    rel = "rxsci/operators/distinct_until_changed.py"
    m, call, accfn, seed, termfn = _accumulator_of(ctx, rel, "distinct_until_changed")
    if accfn is None or seed is None:
        raise AnalysisError("distinct_until_changed: accumulator / seed not found")
    r.instances += 1
    params = m.scopes[accfn].params
    seed_t = _term_of_literal(seed)
    # sentinel names: module-level NAME = NotSet()
    sentinels = set()
    for name, b in m.bindings.items():
        if b[0] == "assign" and isinstance(b[1], ast.Call):
            cn = dotted_name(b[1].func)
            if cn and cn.split(".")[-1] in ("NotSet", "object"):
                sentinels.add(name)
    ITEM = ("arg", params[1])
    for cfg in ({"key_mapper": "None"}, {"key_mapper": "Obj"}):
        for p in ctx.fn_paths(m, accfn, cfg=cfg, extra_env={params[0]: seed_t}):
            r.paths += 1
            r.groups.add(("distinct_until_changed", cfg_str(cfg), len(r.groups)))
            class _V:       # a comparison computed as a value (the flag returned is the comparison itself)
                def __init__(self, test, node):
                    self.test, self.node = test, node
            tests = [e for e in p.trace if e.k == "decision"]
            if p.value is not None:
                tests += [_V(x, accfn) for x in subterms(p.value) if x[0] == "cmp"]
            for e in tests:
                if e.test[0] != "cmp" or e.test[1] not in ("Eq", "NotEq"):
                    continue
                a, b = e.test[2], e.test[3]
                for user, slot in ((a, b), (b, a)):
                    user_dep = any(x == ITEM for x in subterms(user)) or user[0] == "ucall"
                    if not user_dep:
                        continue
                    if slot[0] == "const":
                        r.ob(False, lambda e=e, slot=slot: Finding(
                            "DP-8", "%s::distinct_until_changed._distinct{seed-slot}" % rel, m.where(e.node),
                            "on the first item of a key the test '%s' compares user data with the seed value %r: a first item (or key) equal "
                            "to %r is treated as a repetition and dropped" % (show(e.test), slot[1], slot[1]), trace_of(p)))
                    elif slot[0] == "name" and slot[1] in sentinels:
                        r.ob(True)
                    elif slot[0] == "name":
                        r.ob(False, lambda e=e, slot=slot: Finding(
                            "DP-8", "%s::distinct_until_changed._distinct{seed-slot}" % rel, m.where(e.node),
                            "the seed slot compared with user data is '%s', which is not a private sentinel instance" % slot[1], trace_of(p)))
    r.ob(r.obligations > 0, lambda: Finding("DP-8", "%s::distinct_until_changed{no-compare}" % rel, m.where(accfn),
                                            "no value comparison between the item key and the previous key was found"))
    # run detection: emitted flag True iff key != previous key; previous key recorded
    for cfg in ({"key_mapper": "None"}, {"key_mapper": "Obj"}):
        for p in ctx.fn_paths(m, accfn, cfg=cfg):
            v = p.value
            ok = v is not None and v[0] == "tuple" and len(v) == 4
            if ok:
                key = v[3]
                want_key = ITEM if cfg["key_mapper"] == "None" else None
                ok = v[2] == ITEM and (key == ITEM if want_key is not None else (key[0] == "ucall" and tuple(key[2]) == (ITEM,)))
                d = [e for e in p.trace if e.k == "decision" and e.test[0] == "cmp" and e.test[1] in ("Eq", "NotEq") and key in (e.test[2], e.test[3])]
                flag = v[1]
                if flag[0] == "call" and flag[1] == ("builtin", "bool") and len(flag[2]) == 1:
                    flag = flag[2][0]
                if not d and flag[0] == "cmp" and flag[1] in ("Eq", "NotEq") and key in (flag[2], flag[3]):
                    # the flag is the comparison itself: (key != previous key, item, key)
                    prev = flag[3] if flag[2] == key else flag[2]
                    ok = ok and flag[1] == "NotEq" and prev[0] == "sub" and prev[1] == ("arg", params[0]) and prev[2] == ("const", 2)
                else:
                    ok = ok and len(d) == 1
                    if ok:
                        changed = d[0].outcome == (d[0].test[1] == "NotEq")
                        prev = d[0].test[3] if d[0].test[2] == key else d[0].test[2]
                        ok = v[1] == ("const", changed) and prev[0] == "sub" and prev[1] == ("arg", params[0]) and prev[2] == ("const", 2)
            r.ob(ok, lambda: Finding("DP-8", "%s::distinct_until_changed._distinct{run}" % rel, m.where(accfn),
                                     "the accumulator must return (key != previous key, item, key) with the previous key read from slot 2; it returns %s" % (show(v) if v else None), trace_of(p)))
    r.require_instances(1)
    return r


def rule_so1(ctx: Ctx) -> RuleResult:
    """sort: to_list -> sorted(items, key=key, reverse=reverse) -> to_deque(extend=True)."""
    r = RuleResult("SO-1", "sort delegates to one stable sorted(items, key=key, reverse=reverse) between to_list and to_deque(extend=True)")
    rel = "rxsci/data/sort.py"
    m, fn = ctx.function(rel, "sort")
    r.instances += 1
    pipes = [n for n in ast.walk(fn) if isinstance(n, ast.Call) and isinstance(n.func, ast.Attribute) and n.func.attr == "pipe"]
    if len(pipes) != 1:
        raise AnalysisError("sort: expected one source.pipe(...)")
    stages = pipes[0].args
    names = []
    for a in stages:
        dn = dotted_name(a.func) if isinstance(a, ast.Call) else None
        ref = ctx.program.resolve_dotted(m, dn) if dn else ("unknown", "?")
        names.append("%s.%s" % (ref[1].name, ref[2].name) if ref[0] == "def" else ast.unparse(a))
    ok = names == ["rxsci.data.to_list.to_list", "rxsci.operators.map.map", "rxsci.data.to_deque.to_deque"]
    r.ob(ok, lambda: Finding("SO-1", "%s::sort{stages}" % rel, m.where(fn), "sort must be to_list -> map(sorted) -> to_deque; stages are %s" % names))
    if ok:
        dq = stages[2]
        kws = {k.arg: ast.unparse(k.value) for k in dq.keywords}
        r.ob(kws.get("extend") == "True", lambda: Finding("SO-1", "%s::sort{extend}" % rel, m.where(dq), "to_deque must be called with extend=True so that the sorted list is flattened in order"))
        cb = stages[1].args[0] if stages[1].args else None
        cbfn = _callable_def(ctx, m, cb, fn) if cb is not None else None
        if cbfn is None and cb is not None:
            # functools.partial(sorted, key=key, reverse=reverse): sorted itself, with the two parameters bound
            tt = ctx.ex.eval_in_scope(m, fn, cb)
            if tt is not None and tt[0] == "partial" and tt[1] == ("builtin", "sorted"):
                kws = {a[1]: a[2] for a in tt[2] if a[0] == "kw"}
                pos = [a for a in tt[2] if a[0] != "kw"]
                good = not pos and set(kws) == {"key", "reverse"} and kws["key"][0] == "param" and kws["key"][1] == "key" \
                    and kws["reverse"][0] == "param" and kws["reverse"][1] == "reverse"
                r.paths += 1
                r.groups.add(("sort", "partial"))
                r.ob(good, lambda: Finding("SO-1", "%s::sort{sorted}" % rel, m.where(cb),
                                           "the items must be ordered by sorted(items, key=key, reverse=reverse); the mapped function is %s" % show(tt)))
                r.require_instances(1)
                return r
        if cbfn is None:
            raise AnalysisError("sort: the mapped sorting function is not a local function or lambda")
        params = m.scopes[cbfn].params
        for p in ctx.fn_paths(m, cbfn):
            r.paths += 1
            r.groups.add(("sort", len(r.groups)))
            v = p.value
            calls = [x for x in subterms(v)] if v is not None else []
            srt = [x for x in calls if x[0] == "call" and x[1] == ("builtin", "sorted")]
            inplace = [e for e in p.trace if e.k == "mutate" and e.method in ("sort", "reverse")]
            rev_ops = [x for x in calls if (x[0] == "call" and x[1] == ("builtin", "reversed")) or
                       (x[0] == "sub" and x[2][0] == "slice" and len(x[2]) > 3 and x[2][3] == ("const", -1))] + \
                      [e for e in inplace if e.method == "reverse"]
            good = False
            why = "no call of sorted() on the item"
            if len(srt) == 1 and not inplace:
                args = srt[0][2]
                kws = {a[1]: a[2] for a in args if a[0] == "kw"}
                pos = [a for a in args if a[0] != "kw"]
                good = len(pos) == 1 and pos[0] == ("arg", params[0]) and kws.get("key", ("",))[0] == "param" and kws["key"][1] == "key" \
                    and kws.get("reverse", ("",))[0] == "param" and kws["reverse"][1] == "reverse"
                why = "sorted is called as %s" % show(srt[0])
            elif inplace:
                why = "the list is sorted in place (%s)" % "; ".join(e.brief() for e in inplace)
            if rev_ops:
                good = False
                why += "; the order is reversed after sorting, which reverses equal-key items (not a stable descending sort)"
            r.ob(good, lambda why=why: Finding("SO-1", "%s::sort{sorted}" % rel, m.where(cbfn),
                                               "the items must be ordered by sorted(items, key=key, reverse=reverse) (stable for both directions): %s" % why, trace_of(p)))
    r.require_instances(1)
    return r


def _bound_method_under(ctx, site, in_fn, node, config, depth=0):
    """term of the handler expression under a configuration: a local alias is followed to its single assignment, a conditional
    expression is decided by the configuration"""
    from ..executor import St
    ex = ctx.ex
    m = site.module
    if isinstance(node, ast.Name) and depth < 4:
        sc = m.scopes.get(in_fn)
        a = ex._single_assignment(sc, node.id) if sc is not None else None
        if a is not None:
            return _bound_method_under(ctx, site, in_fn, a.value, config, depth + 1)
    if isinstance(node, ast.IfExp):
        tt = ex.eval_in_scope(m, in_fn, node.test, ctx=site.ctx, roles=site.roles, config=config)
        if tt is None:
            return None
        st = St.__new__(St)
        st.config, st.kind = config, None
        b = ex.const_truth(tt, st)
        if b is None:
            return None
        return _bound_method_under(ctx, site, in_fn, node.body if b else node.orelse, config, depth + 1)
    if isinstance(node, ast.Attribute):
        return ("attr", ("node", ast.unparse(node.value)), node.attr)
    return ex.eval_in_scope(m, in_fn, node, ctx=site.ctx, roles=site.roles, config=config)


def rule_so2(ctx: Ctx) -> RuleResult:
    """to_deque, the last stage of sort: items (the elements of each item when extend=True) are queued at the right end while the
    source runs, nothing is emitted before completion, and completion emits the queue from its left end until it is empty, then
    completes once."""
    r = RuleResult("SO-2", "to_deque queues at the right end (extend(item) iff extend=True), emits nothing before completion, then emits from the left end "
                           "until empty and completes once")
    rel = "rxsci/data/to_deque.py"
    site = ctx.site(rel, "to_deque._to_deque.on_subscribe", kind="create")
    r.instances += 1
    specs = site.handler_specs("on_next")
    if specs:
        spec = specs[0]
        for kind, cfg, paths in ctx.all_paths(spec, kinds=(None,)):
            for p in paths:
                r.paths += 1
                if not _normal(p):
                    continue
                r.groups.add(("on_next", cfg_str(cfg), len(r.groups)))
                mode = {"True": True, "False": False}.get(cfg.get("extend"))
                if mode is None:
                    # the flag reaches the handler as an argument: the path's own test of it tells the mode
                    for e in p.trace:
                        if e.k != "decision":
                            continue
                        tt, pol = e.test, e.outcome
                        while tt[0] == "not":
                            tt, pol = tt[1], not pol
                        if tt[0] == "cmp" and tt[1] in ("Is", "Eq", "IsNot", "NotEq") and ("const", True) in (tt[2], tt[3]):
                            mode = pol == (tt[1] in ("Is", "Eq"))
                        elif tt[0] == "cmp" and tt[1] in ("Is", "Eq", "IsNot", "NotEq") and ("const", False) in (tt[2], tt[3]):
                            mode = pol != (tt[1] in ("Is", "Eq"))
                        elif tt[0] in ("arg", "param", "free", "bound"):
                            mode = pol
                if mode is None:
                    raise AnalysisError("to_deque: cannot tell on which value of 'extend' the path [%s] is taken" % "; ".join(e.brief() for e in p.trace))
                muts = [e for e in p.trace if e.k == "mutate"]
                ems = list(emissions(p))
                want = "extend" if mode else "append"
                ok = not ems and len(muts) == 1 and muts[0].method == want and tuple(muts[0].args) == (EV,) and not any(x == EV for x in subterms(muts[0].base))
                r.ob(ok, lambda cfg=cfg, p=p, want=want, muts=muts: mk_finding(
                    "SO-2", spec, None, cfg, p, "to_deque must only queue the item with %s(item) and emit nothing before completion; it does: %s / %s" % (
                        want, [e.brief() for e in muts], summary(p)), extra="queue"))
    else:
        # the handler is a bound method of the queue chosen when the subscription is made (queue.extend if extend is True else queue.append)
        sub = site.subscriptions[0]
        h = sub.handlers.get("on_next")
        if h is None or h.how != "method":
            raise AnalysisError("to_deque: the on_next handler is neither a function nor a bound method of the queue")
        hnode = h.node
        if isinstance(hnode, ast.Call) and isinstance(hnode.func, ast.Attribute) and hnode.func.attr in ("subscribe", "subscribe_"):
            kw = [k.value for k in hnode.keywords if k.arg == "on_next"]
            hnode = kw[0] if kw else (hnode.args[0] if hnode.args else None)
        if hnode is None:
            raise AnalysisError("to_deque: the on_next handler expression was not found")
        for val, want in (("True", "extend"), ("False", "append")):
            tt = _bound_method_under(ctx, site, sub.in_fn, hnode, {"extend": val})
            r.paths += 1
            r.groups.add(("on_next", val))
            ok = tt is not None and tt[0] == "attr" and tt[2] == want
            r.ob(ok, lambda val=val, want=want, tt=tt: Finding(
                "SO-2", "%s::to_deque{queue}" % rel, site.module.where(hnode), "with extend=%s every item must be queued with %s; the handler is %s" % (
                    val, want, show(tt) if tt is not None else "undetermined")))
    cs = site.handler_specs("on_completed")
    if not cs:
        r.ob(False, lambda: Finding("SO-2", "%s::to_deque{on_completed}" % rel, site.where(), "to_deque has no completion handler: the queued items are never emitted"))
        return r
    cspec = cs[0]
    saw_item = saw_empty = False
    for p in ctx.paths(cspec, None, {}):
        r.paths += 1
        if p.outcome == "raise":
            continue       # an exception of the downstream observer
        r.groups.add(("on_completed", len(r.groups)))
        ems = list(emissions(p))
        items = [m for m in ems if m.method == "on_next" and not m.raised]
        done = [m for m in ems if m.method == "on_completed"]
        pops = [e for e in p.trace if e.k == "mutate" and not any(x == EV for x in subterms(e.base))]
        queue = pops[0].base if pops else None
        items = [m for m in items if not any(e.k == "except" for e in p.trace[p.trace.index(m.eff):p.trace.index(m.eff) + 2])]
        ok = all(e.method == "popleft" and not e.args and e.base == queue for e in pops)
        r.ob(ok, lambda p=p, pops=pops: mk_finding("SO-2", cspec, None, {}, p, "the queue must be emptied from its left end (popleft): the items were queued at the "
                                                   "right end and must leave in arrival order; it does %s" % [e.brief() for e in pops], extra="fifo"))
        ok = all(m.eff.arg[0] == "mcall" and m.eff.arg[1] == queue and m.eff.arg[2] == "popleft" for m in items)
        r.ob(ok, lambda p=p, items=items: mk_finding("SO-2", cspec, None, {}, p, "every emitted item must be the element just taken from the queue; emitted: %s" % [
            show(m.eff.arg) for m in items], extra="item"))
        if items:
            saw_item = True
        if any(e.k == "except" for e in p.trace):
            saw_empty = True
        ok = len(done) == 1 and ems and ems[-1] is done[0]
        if not p.truncated or done:
            r.ob(ok, lambda p=p: mk_finding("SO-2", cspec, None, {}, p, "after the queue is empty the completion must be forwarded, once and last; this path: %s" % summary(p),
                                            extra="completed"))
    r.ob(saw_item and saw_empty, lambda: Finding("SO-2", "%s::to_deque{flush}" % rel, site.where(),
                                                 "the completion handler must emit the queued items in a loop that ends when the queue is empty"))
    r.require_instances(1)
    return r


def _opt1_site(ctx, r, spec, label, kinds, value_role):
    """re-run the handler with each optional value parameter bound to an explicit falsy value; every path must do what it does for an
    ordinary explicit value.  value_role(name, data, called) selects the optional parameters that are values (not callables)."""
    from ..model import valuations
    space = ctx.space(spec)
    data, called = set(), set()
    for kind in kinds:
        for cfg in valuations(space):
            for p in ctx.paths(spec, kind, cfg):
                for e in p.trace:
                    if e.k == "ucall":
                        called.add(e.name)
                    if e.k == "emit" and e.arg is not None:
                        data |= {x[1] for x in subterms(e.arg) if x[0] == "param"}
    params = sorted(k for k, v in space.items() if "None" in v and "Obj" in v and k not in called and value_role(k, data))
    for prm in params:
        for kind in kinds:
            for cfg in valuations(space):
                if cfg.get(prm) != "Obj":
                    continue
                falsy = dict(cfg)
                falsy[prm] = "Falsy"
                want = sorted("\n".join(p.render()) for p in ctx.paths(spec, kind, cfg))
                got_paths = ctx.paths(spec, kind, falsy)
                got = sorted("\n".join(p.render()) for p in got_paths)
                r.paths += len(got_paths)
                r.groups.add((label, prm, kind, cfg_str(cfg)))
                ok = want == got

                def f(kind=kind, cfg=falsy, got_paths=got_paths, want=want, prm=prm):
                    bad = [p for p in got_paths if "\n".join(p.render()) not in want] or got_paths
                    return mk_finding("OPT-1", spec, kind, cfg, bad[0],
                                      "%s: with %s bound to an explicit falsy value (0, '', False, timedelta(0)) the handler does not do what it does for another "
                                      "explicit value: the parameter is tested for truth (or equality) where only 'is None' tells 'not given'; "
                                      "falsy: %s / explicit: %s" % (label, prm, summary(bad[0]), want[0].splitlines()[-3:] if want else "-"),
                                      extra="falsy-" + prm)
                r.ob(ok, f)
    return params


def rule_opt1(ctx: Ctx) -> RuleResult:
    """An optional padding value is told from 'not given' by identity with None only: an explicit falsy value (0, '', False, 0.0)
    pads like any other explicit value.  The handlers are re-run with the parameter bound to an abstract value that is not None,
    not True / False and whose truth value is False; every path must do what it does for an ordinary explicit value."""
    r = RuleResult("OPT-1", "pad_start / pad_end: an explicit falsy padding value (0, '', False) pads exactly like any other explicit value")
    for rel, suffix in (("rxsci/data/pad.py", "pad_start_mux._pad_start_mux.on_subscribe"),
                        ("rxsci/data/pad.py", "pad_end_mux._pad_end_mux.on_subscribe")):
        site, spec = _spec(ctx, rel, suffix)
        r.instances += 1
        # the value parameters: optional ones that reach an emitted payload and are never called
        params = _opt1_site(ctx, r, spec, suffix.split(".")[0], ("Next", "Completed"), lambda k, data: k in data)
        if not params:
            raise AnalysisError("OPT-1: %s: no optional value parameter reaches an emission (the padding value was found there by reading)" % spec.qualname)
    r.require_instances(2)
    return r


def rule_opt1_time_split(ctx: Ctx) -> RuleResult:
    """time_split: a timeout of zero (timedelta(0), 0) is a timeout, not 'no timeout': only None disables a timeout."""
    r = RuleResult("OPT-1", "time_split: an explicit zero timeout (timedelta(0), 0) is handled like any other explicit timeout; only None means 'no timeout'")
    site = ctx.site("rxsci/data/time_split.py", "time_split_mux._time_split.on_subscribe", kind="mux")
    spec = site.handler_specs("on_next")[0]
    r.instances += 1
    # the optional parameters that are not called (the two timeouts; the closing mapper is a function)
    params = _opt1_site(ctx, r, spec, "time_split", ("Next",), lambda k, data: True)
    if len(params) < 2:
        raise AnalysisError("OPT-1: time_split: expected the two optional timeouts among the configuration parameters, found %s" % params)
    r.require_instances(1)
    return r


RULES = [rule_fw2, rule_dp6, rule_dp8, rule_so1, rule_so2, rule_opt1]
