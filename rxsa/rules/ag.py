"""C01 / C12 -- agreement rules: AG-1 (dual-capability closure), AG-2 (arm
agreement at dispatch sites), AG-3 (sibling skeletons), AG-3b (unset markers of
siblings), AG-4 (math operators forward reduce unchanged)."""
from __future__ import annotations

import ast

from ..classify import SAME
from ..engine import Ctx, Finding, RuleResult, cfg_str, trace_of
from ..loader import AnalysisError, dotted_name
from ..terms import EV, EVERROR, EVITEM, EVKEY, show, subterms
from .common import Emission, emissions, mk_finding, mux_emissions, summary
from .lv import _is_notset

DUAL_DOC = "The source can be an Observable or a MuxObservable"
PLAIN_DOC = "The source must be an Observable"
MUX_DOC = "The source must be a MuxObservable"
# operators named by the property that lack the docstring sentence
EXTRA_DUAL = [("rxsci/data/batch.py", "batch")]


def _doc(fn):
    return ast.get_docstring(fn) or ""


def _single_assignments(m, node):
    """{name: value expression} for the names assigned exactly once (by a plain  name = expr) in the functions enclosing node -- the
    locals a clean-up introduces for an isinstance test or for a prebuilt implementation"""
    out = {}
    f = node if isinstance(node, (ast.FunctionDef, ast.Lambda)) else m.enclosing_function(node)
    cache = m.__dict__.setdefault("_single_assign_cache", {})
    if id(f) in cache:
        return cache[id(f)]
    key = id(f)
    while f is not None:
        count, val = {}, {}
        for s in ast.walk(f):
            if m.enclosing_function(s) is not f:
                continue
            tgts = []
            if isinstance(s, ast.Assign):
                tgts = [x for tg in s.targets for x in ast.walk(tg) if isinstance(x, ast.Name)]
                if len(s.targets) == 1 and isinstance(s.targets[0], ast.Name):
                    val[s.targets[0].id] = s.value
            elif isinstance(s, (ast.AugAssign, ast.AnnAssign, ast.For, ast.NamedExpr)):
                tgts = [x for x in ast.walk(s.target) if isinstance(x, ast.Name)]
            elif isinstance(s, (ast.With,)):
                tgts = [x for it in s.items if it.optional_vars is not None for x in ast.walk(it.optional_vars) if isinstance(x, ast.Name)]
            for x in tgts:
                count[x.id] = count.get(x.id, 0) + 1
        sc = m.scopes.get(f)
        params = set(sc.params) if sc is not None else set()
        for name, v in val.items():
            if count.get(name) == 1 and name not in params and name not in out:
                out[name] = v
        f = m.enclosing_function(f)
    cache[key] = out
    return out


def _dispatches(prog, m, fn):
    """If-statements  isinstance(<x>, rs.MuxObservable)  inside fn."""
    out = []
    for n in ast.walk(fn):
        t = _dispatch_test(n, _single_assignments(m, n)) if isinstance(n, ast.If) else None
        if t is not None:
            dn = dotted_name(t.args[1])
            if dn is None:
                continue
            ref = prog.resolve_dotted(m, dn)
            if ref[0] == "class" and ref[2].name == "MuxObservable":
                out.append(n)
    return out


def _dispatch_test(n, env=None):
    """the isinstance(...) call of ``if isinstance(x, T)`` / ``if not isinstance(x, T)`` (also through a local:
    ``is_mux = isinstance(x, T)`` ... ``if is_mux``)"""
    t = n.test
    if isinstance(t, ast.UnaryOp) and isinstance(t.op, ast.Not):
        t = t.operand
    if isinstance(t, ast.Name) and env and t.id in env:
        t = env[t.id]
    if isinstance(t, ast.Call) and dotted_name(t.func) == "isinstance" and len(t.args) == 2:
        return t
    return None


def _negated(d):
    return isinstance(d.test, ast.UnaryOp) and isinstance(d.test.op, ast.Not)


def mux_arm(m, d):
    return plain_arm_raw(m, d) if _negated(d) else list(d.body)


def plain_arm(m, d):
    """Statements executed for a plain Observable (the else block of ``if isinstance(..)``, the body of ``if not isinstance(..)``)"""
    return list(d.body) if _negated(d) else plain_arm_raw(m, d)


def plain_arm_raw(m, d):
    """Statements executed when the ``if`` test is false: the else block, or - when the body always
    returns - the statements that follow the ``if`` in its block (``if c: return A`` / ``return B``)."""
    if d.orelse:
        return d.orelse
    if d.body and isinstance(d.body[-1], (ast.Return, ast.Raise)):
        parent = m.parent.get(d)
        for field in ("body", "orelse", "finalbody"):
            blk = getattr(parent, field, None)
            if isinstance(blk, list) and d in blk:
                return blk[blk.index(d) + 1:]
    return []


class Dispatch:
    """One mux/plain dispatch: an ``if isinstance(source, MuxObservable)`` statement, or a call of a dispatch helper
    (a repository function whose operator applies its first function to MuxObservables and its second one to
    Observables: select_by_source(mux=A(...), obs=B(...)))."""

    def __init__(self, node, mux_nodes, plain_nodes, mux_call, plain_call, form):
        self.node = node
        self.mux_nodes = mux_nodes
        self.plain_nodes = plain_nodes
        self.mux_call = mux_call
        self.plain_call = plain_call
        self.form = form


def _call_triple(v):
    # lambda source: F(args)(source)  -- the operator built when it is applied -- reads as F(args)
    if isinstance(v, ast.Lambda) and len(v.args.args) == 1 and not v.args.defaults and isinstance(v.body, ast.Call) and len(v.body.args) == 1 \
            and not v.body.keywords and isinstance(v.body.args[0], ast.Name) and v.body.args[0].id == v.args.args[0].arg and isinstance(v.body.func, ast.Call):
        v = v.body
    if isinstance(v, ast.Call) and isinstance(v.func, ast.Call):
        inner = v.func
        return ast.unparse(inner.func), [ast.unparse(a) for a in inner.args] + [ast.unparse(k.value) for k in inner.keywords], inner
    if isinstance(v, ast.Call):
        return ast.unparse(v.func), [ast.unparse(a) for a in v.args] + [ast.unparse(k.value) for k in v.keywords], v
    return None


def _dispatch_helpers(prog):
    """{FunctionDef: (mux parameter, plain parameter)} of the repository's dispatch helpers."""
    cache = prog.__dict__.setdefault("_dispatch_helpers", None)
    if cache is not None:
        return cache
    out = {}
    for rel, m in sorted(prog.by_relpath.items()):
        for name, b in m.bindings.items():
            if b[0] != "def":
                continue
            H = b[1]
            params = [a.arg for a in H.args.args + H.args.kwonlyargs]
            for d in _dispatches(prog, m, H):
                def applied(stmts):
                    rets = [x for x in stmts if isinstance(x, ast.Return)]
                    if len(rets) == 1 and isinstance(rets[0].value, ast.Call) and isinstance(rets[0].value.func, ast.Name) \
                            and rets[0].value.func.id in params and len(rets[0].value.args) == 1:
                        return rets[0].value.func.id
                    return None
                a, c = applied(mux_arm(m, d)), applied(plain_arm(m, d))
                if a is not None and c is not None and a != c:
                    out[H] = (a, c)
    prog.__dict__["_dispatch_helpers"] = out
    return out


def dispatch_sites(prog, m, fn, own_only=False):
    out = []
    for d in _dispatches(prog, m, fn):
        if own_only and m.enclosing_function(d) is not fn:
            continue
        pa = plain_arm(m, d)
        ma = mux_arm(m, d)
        env = _single_assignments(m, d)
        out.append(Dispatch(d, list(ma), list(pa), _arm_call(ma, env), _arm_call(pa, env), "if"))
    # op = A(...) if isinstance(source, MuxObservable) else B(...)
    for n in ast.walk(fn):
        if isinstance(n, ast.IfExp) and (not own_only or m.enclosing_function(n) is fn):
            t = _dispatch_test(n, _single_assignments(m, n))
            if t is None:
                continue
            dn = dotted_name(t.args[1])
            ref = prog.resolve_dotted(m, dn) if dn else None
            if ref is None or ref[0] != "class" or ref[2].name != "MuxObservable":
                continue
            a, b = (n.orelse, n.body) if _negated(n) else (n.body, n.orelse)
            out.append(Dispatch(n, [a], [b], _call_triple(a), _call_triple(b), "ifexp"))
    helpers = _dispatch_helpers(prog)
    if helpers and fn not in helpers:
        for n in ast.walk(fn):
            if not isinstance(n, ast.Call):
                continue
            if own_only and m.enclosing_function(n) is not fn:
                continue
            dn = dotted_name(n.func)
            if dn is None:
                continue
            ref = prog.resolve_dotted(m, dn)
            if ref[0] != "def" or ref[2] not in helpers:
                continue
            H = ref[2]
            mp, pp = helpers[H]
            pos = [a.arg for a in H.args.args]
            given = {}
            for k, a in enumerate(n.args):
                if k < len(pos):
                    given[pos[k]] = a
            for kw in n.keywords:
                if kw.arg:
                    given[kw.arg] = kw.value
            if mp in given and pp in given:
                out.append(Dispatch(n, [given[mp]], [given[pp]], _call_triple(given[mp]), _call_triple(given[pp]), "helper"))
    return out


def _dual_operators(ctx):
    prog = ctx.program
    out = []
    for rel, m in sorted(prog.by_relpath.items()):
        for name, b in m.bindings.items():
            if b[0] == "def" and DUAL_DOC in _doc(b[1]):
                out.append((m, b[1]))
    for rel, name in EXTRA_DUAL:
        m, fn = ctx.function(rel, name)
        if (m, fn) not in out:
            out.append((m, fn))
    return out


def rule_ag1(ctx: Ctx) -> RuleResult:
    r = RuleResult("AG-1", "every operator documented as dual-mode has a mux arm or is composed only of dual-mode rxsci operators (RxPY operators only in plain arms)")
    prog = ctx.program
    duals = _dual_operators(ctx)
    memo = {}

    def in_plain_arm(m, fn, node):
        plain = [x for d in dispatch_sites(prog, m, fn) for s in d.plain_nodes for x in ast.walk(s)]
        if any(x is node for x in plain):
            return True
        # built ahead of the dispatch:  impl = ops.take(count)  ...  and every use of impl is inside a plain arm
        env = _single_assignments(m, node)
        for name, v in env.items():
            if any(x is node for x in ast.walk(v)):
                loads = [x for x in ast.walk(fn) if isinstance(x, ast.Name) and x.id == name and isinstance(x.ctx, ast.Load)]
                # names of enclosing functions are visible in fn only; a use outside fn is outside every arm
                owner = next((s for s in ast.walk(m.tree) if isinstance(s, ast.Assign) and s.value is v), None)
                scope_fn = m.enclosing_function(owner) if owner is not None else None
                all_loads = [x for x in ast.walk(scope_fn if scope_fn is not None else m.tree)
                             if isinstance(x, ast.Name) and x.id == name and isinstance(x.ctx, ast.Load)]
                if loads and len(all_loads) == len(loads) and all(any(x is y for y in plain) for x in loads):
                    return True
        return False

    def check(m, fn, depth=0):
        """list of (node, message) problems making fn not dual-capable"""
        key = (m.relpath, id(fn))
        if key in memo:
            return memo[key]
        memo[key] = []
        probs = []
        has_dispatch = bool(dispatch_sites(prog, m, fn))
        for n in ast.walk(fn):
            if not isinstance(n, ast.Call):
                continue
            dn = dotted_name(n.func)
            if dn is None:
                continue
            ref = prog.resolve_dotted(m, dn)
            if ref[0] in ("ext", "unknown") and ref[1].startswith("rx.operators."):
                if ref[1] == "rx.operators.publish":
                    continue      # tee_map shares its source through publish() in both modes (TM-3 checks the mux cast)
                if not in_plain_arm(m, fn, n):
                    probs.append((m, n, "%s is an RxPY operator (plain observables only) used outside the plain arm of a dual-mode operator" % ref[1]))
            elif ref[0] == "def" and ref[1].name.startswith("rxsci.") and not ref[1].name.startswith("rxsci.internal"):
                callee_m, callee = ref[1], ref[2]
                if callee is fn:
                    continue
                doc = _doc(callee)
                if in_plain_arm(m, fn, n):
                    continue
                if PLAIN_DOC in doc:
                    probs.append((m, n, "%s is documented as plain-only ('%s') but is used by a dual-mode operator" % (callee.name, PLAIN_DOC)))
                elif MUX_DOC in doc and not has_dispatch:
                    probs.append((m, n, "%s is documented as mux-only but is used by a dual-mode operator without dispatch" % callee.name))
                elif DUAL_DOC not in doc and depth < 4 and _is_operator_like(callee):
                    for p in check(callee_m, callee, depth + 1):
                        probs.append(p)
        memo[key] = probs
        return probs

    for m, fn in duals:
        r.instances += 1
        probs = check(m, fn)
        r.groups.add((m.relpath, fn.name))
        if probs:
            pm, node, msg = probs[0]
            r.ob(False, lambda: Finding("AG-1", "%s::%s{dual}" % (m.relpath, fn.name), pm.where(node),
                                        "%s is documented as accepting both an Observable and a MuxObservable, but %s" % (fn.name, msg)))
        else:
            r.ob(True)
        # both arms of a dispatch on  isinstance(source, MuxObservable)  work on that source
        for d in dispatch_sites(prog, m, fn):
            if d.form not in ("if", "ifexp"):
                continue
            tst = _dispatch_test(d.node, _single_assignments(m, d.node))
            subj = tst.args[0] if tst is not None else None
            if not isinstance(subj, ast.Name):
                continue
            for which, nodes in (("mux", d.mux_nodes), ("plain", d.plain_nodes)):
                stmts = [s for s in nodes if isinstance(s, ast.AST)]
                if d.form == "if" and not any(isinstance(x, ast.Return) for s in stmts for x in ast.walk(s)):
                    continue          # the arm only selects an implementation; the application is elsewhere
                if d.form == "ifexp":
                    # op = A() if isinstance(source, Mux) else B(): the application follows the selection
                    continue
                names = {subj.id}
                # a subscribe function defined next to the dispatch that closes over the source stands for it: rx.create(on_subscribe)
                encl = m.enclosing_function(d.node)
                if encl is not None:
                    for g in ast.walk(encl):
                        if isinstance(g, ast.FunctionDef) and g is not encl and any(
                                isinstance(y, ast.Name) and y.id == subj.id and isinstance(y.ctx, ast.Load) for y in ast.walk(g)):
                            names.add(g.name)
                for s in stmts:
                    for x in ast.walk(s):
                        if isinstance(x, ast.Assign) and any(isinstance(y, ast.Name) and y.id in names for y in ast.walk(x.value)):
                            names |= {tg.id for tg in x.targets if isinstance(tg, ast.Name)}
                rets = [x for s in stmts for x in ast.walk(s) if isinstance(x, ast.Return) and m.enclosing_function(x) is encl]
                for rt in rets:
                    uses = rt.value is not None and any(isinstance(y, ast.Name) and y.id in names for y in ast.walk(rt.value))
                    r.ob(uses, lambda rt=rt, which=which, subj=subj: Finding(
                        "AG-1", "%s::%s{%s-arm-source}" % (m.relpath, fn.name, which), m.where(rt),
                        "the %s arm of %s returns '%s', which does not mention %s: the arm was selected for this source and must apply its "
                        "implementation to it" % (which, fn.name, ast.unparse(rt.value)[:60] if rt.value is not None else None, subj.id)))
        # an operator that neither dispatches nor delegates is not dual
        has_dispatch = bool(dispatch_sites(prog, m, fn))
        delegates = any(isinstance(n, ast.Call) and _resolves_to_rxsci_operator(prog, m, n) for n in ast.walk(fn))
        r.ob(has_dispatch or delegates, lambda: Finding(
            "AG-1", "%s::%s{no-mux-arm}" % (m.relpath, fn.name), m.where(fn),
            "%s is documented as dual-mode but has no isinstance(source, MuxObservable) dispatch and does not delegate to a dual-mode operator" % fn.name))
    r.notes.append("%d dual-mode operators (docstring or property list)" % len(duals))
    r.require_instances(36)
    return r


def _is_operator_like(fn):
    return any(isinstance(n, (ast.FunctionDef, ast.Return)) for n in fn.body)


def _resolves_to_rxsci_operator(prog, m, call):
    dn = dotted_name(call.func)
    if dn is None:
        return False
    ref = prog.resolve_dotted(m, dn)
    return ref[0] == "def" and ref[1].name.startswith("rxsci.") and (ref[1].name.split(".")[1] in ("operators", "data", "math", "error"))


# ----------------------------------------------------------------------
def _arm_call(stmts, env=None):
    """(callee text, [arg texts], node) of ``return F(args)(source)`` / ``return F(args)``; a callee that is a local bound once to
    ``F(args)`` (an implementation built ahead of the dispatch) stands for that expression"""
    rets = [s for s in stmts if isinstance(s, ast.Return)]
    if len(rets) != 1 or rets[0].value is None:
        return None
    v = rets[0].value
    if env and isinstance(v, ast.Call) and isinstance(v.func, ast.Name) and isinstance(env.get(v.func.id), ast.Call):
        v = ast.Call(func=env[v.func.id], args=v.args, keywords=v.keywords)
    # argument *values* in call order (whether they are passed by position or by keyword)
    if isinstance(v, ast.Call) and isinstance(v.func, ast.Call):
        inner = v.func
        return ast.unparse(inner.func), [ast.unparse(a) for a in inner.args] + [ast.unparse(k.value) for k in inner.keywords], inner
    if isinstance(v, ast.Call):
        return ast.unparse(v.func), [ast.unparse(a) for a in v.args] + [ast.unparse(k.value) for k in v.keywords], v
    return None


def rule_ag2(ctx: Ctx) -> RuleResult:
    r = RuleResult("AG-2", "at every mux/plain dispatch the user parameters reaching the plain arm are a prefix of those reaching the mux arm")
    prog = ctx.program
    n = 0
    for rel, m in sorted(prog.by_relpath.items()):
        for fn in [f for f in m.scopes if isinstance(f, ast.FunctionDef)]:
            for ds in dispatch_sites(prog, m, fn, own_only=True):
                d = ds.node
                n += 1
                r.instances += 1
                a, b = ds.mux_call, ds.plain_call
                if a is None or b is None:
                    # tee_map: the arms build the connectable (checked by TM-3); assert_1: arms return closures
                    ta = ast.unparse(ds.mux_nodes[0])[:60] if ds.mux_nodes else ""
                    r.notes.append("%s: arms are not calls of sibling operators (%s ...); covered by TM-3 / AG-3" % (m.where(d), ta))
                    continue
                fa, aa, na = a
                fb, ab, nb = b
                r.groups.add((rel, m.scopes[fn].qualname))
                if fa.endswith("MuxObservable") and fb in ("rx.create",):
                    r.notes.append("%s: arms construct sibling subscribe functions (%s / %s); compared by AG-3" % (m.where(d), aa[0], ab[0]))
                    continue
                # with_store: the plain arm multiplexes and re-enters with the same arguments
                if len(ab) == 1 and isinstance(nb.args[0] if nb.args else None, ast.Call) and dotted_name(nb.args[0].func) == fn.name.lstrip("_") :
                    pass
                if len(ab) == 1 and nb.args and isinstance(nb.args[0], ast.Call):
                    inner = nb.args[0]
                    inner_args = [ast.unparse(x) for x in inner.args]
                    first = na.args[0] if na.args and isinstance(na.args[0], ast.Call) else None
                    if first is not None:
                        ok = inner_args == [ast.unparse(x) for x in first.args]
                        r.ob(ok, lambda: Finding("AG-2", "%s::%s{arms}" % (rel, m.scopes[fn].qualname), m.where(d),
                                                 "the plain arm re-enters with (%s) while the mux arm is configured with (%s)" % (
                                                     ", ".join(inner_args), ", ".join(ast.unparse(x) for x in first.args))))
                        continue
                # the plain arm multiplexes the source and re-enters this very function: the mux arm then runs with the
                # same closure, there is nothing to compare
                if len(ab) == 1 and ab[0] == fn.name:
                    r.ob(True)
                    r.notes.append("%s: the plain arm re-enters %s on the multiplexed source" % (m.where(d), fn.name)) if \
                        ("%s: the plain arm re-enters %s on the multiplexed source" % (m.where(d), fn.name)) not in r.notes else None
                    continue
                # closure arm: ops.map(_local) -> compare captured factory parameters
                cap = None
                if len(ab) == 1 and ab[0].isidentifier():
                    from ..model import _lookup_def
                    loc = _lookup_def(m, fn, ab[0])
                    if loc is not None:
                        cap = sorted({x.id for x in ast.walk(loc) if isinstance(x, ast.Name) and isinstance(x.ctx, ast.Load)} & set(_factory_params(m, fn)))
                if cap is not None:
                    ok = cap == sorted(set(aa) & set(_factory_params(m, fn)))
                    r.ob(ok, lambda: Finding("AG-2", "%s::%s{arms}" % (rel, m.scopes[fn].qualname), m.where(d),
                                             "the plain arm (closure %s) uses the factory parameters %s, the mux arm receives %s" % (ab[0], cap, aa)))
                else:
                    ok = ab == aa[:len(ab)]
                    r.ob(ok, lambda: Finding("AG-2", "%s::%s{arms}" % (rel, m.scopes[fn].qualname), m.where(d),
                                             "the plain arm calls %s(%s) while the mux arm calls %s(%s): the two modes are configured differently" % (
                                                 fb, ", ".join(ab), fa, ", ".join(aa))))
    if n < 8:
        raise AnalysisError("AG-2: only %d mux/plain dispatch sites found (13 confirmed by reading)" % n)
    r.require_instances(8)
    return r


def _factory_params(m, fn):
    out = []
    sc = m.scopes.get(fn)
    while sc is not None:
        out += sc.params
        sc = sc.parent
    return out


# ----------------------------------------------------------------------
def _normal(p):
    return not any(e.d.get("raised") for e in p.trace) and p.outcome != "raise"


def rule_ag3_small(ctx: Ctx):
    r = RuleResult("AG-3", "flat_map and assert_1: the multiplexed and the plain implementation have the same per-item skeleton")
    rb = RuleResult("AG-3b", "a plain sibling must recognise 'no previous value' by a private marker or flag, as its mux sibling does")
    # ---- flat_map ----------------------------------------------------------
    mux = ctx.site("rxsci/operators/flat_map.py", "flat_map_mux._flat_map.on_subscribe").handler_specs("on_next")[0]
    obs = ctx.site("rxsci/operators/flat_map.py", "flat_map_obs._flat_map.on_subscribe").handler_specs("on_next")[0]
    r.instances += 1

    def fm_skel(spec, kind):
        out = set()
        for p in ctx.paths(spec, kind, {}, max_iter=1):
            r.paths += 1
            if not _normal(p):
                continue
            loops = [e for e in p.trace if e.k == "loopiter"]
            over = None
            elem_terms = set()
            if loops:
                it_ = loops[0].iter
                lv = loops[0].var
                if it_ in (EVITEM, EV):
                    over = "item"
                    elem_terms = {lv}
                elif it_[0] == "call" and it_[1] == ("builtin", "enumerate") and len(it_[2]) == 1 and it_[2][0] in (EVITEM, EV):
                    over = "item"                       # for _, x in enumerate(item)
                    elem_terms = {("sub", lv, ("const", 1))}
                else:
                    over = show(it_)
            ems = [m for m in emissions(p) if m.method == "on_next"]
            elems = []
            for m in ems:
                if m.event is not None and (m.event.how == "replace" or (kind is not None and m.event.kind == "Next")):
                    # i._replace(item=elem)  /  OnNextMux(key=i.key, item=elem, store=i.store)
                    elems.append("elem" if m.event.payload in elem_terms and m.event.keyclass == SAME else "other")
                else:
                    elems.append("elem" if m.eff.arg in elem_terms else "other")
            if any(e.k == "loopexit" and e.d.get("broke") for e in p.trace) or (p.outcome == "return" and loops):
                elems.append("loop-left-early")
            out.add((over, tuple(elems)))
        return out
    a, b = fm_skel(mux, "Next"), fm_skel(obs, None)
    r.groups.add(("flat_map",))
    r.ob(a == b and (("item", ("elem",)) in a), lambda: Finding(
        "AG-3", "flat_map mux/plain", mux.module.where(mux.fn),
        "flat_map must emit every element of the item once, in both modes; mux paths %s, plain paths %s" % (sorted(a, key=str), sorted(b, key=str))))
    # ---- assert_1 ------------------------------------------------------------
    site_m = ctx.site("rxsci/operators/assert_.py", "assert_1._assert_1.on_subscribe_mux", kind="mux")
    site_p = ctx.site("rxsci/operators/assert_.py", "assert_1._assert_1.on_subscribe", kind="create")
    smux = site_m.handler_specs("on_next")[0]
    sobs = site_p.handler_specs("on_next")[0]
    r.instances += 1
    rb.instances += 1

    def a1_skel(spec, kind, prev_of):
        out = set()
        for p in ctx.paths(spec, kind, {}):
            r.paths += 1
            if not _normal(p):
                continue
            prev, has_prev, test = prev_of(p)
            uc = [e for e in p.trace if e.k == "ucall" and e.name == "predicate"]
            ems = emissions(p)
            item = EVITEM if kind == "Next" else EV
            args_ok = all(tuple(e.args) == (prev, item) for e in uc)
            stored = [e for e in p.trace if (e.k == "store" and e.op == "set_state") or (e.k == "nonlocal")]
            st_ok = len(stored) == 1 and (stored[0].extra[0] if stored[0].k == "store" else stored[0].value) == item
            verdict = None
            for e in p.trace:
                if e.k == "decision" and uc and any(x == uc[0].result for x in subterms(e.test)):
                    verdict = e.outcome
            out.add((has_prev, len(uc), args_ok, verdict, tuple("emit" if m.method == "on_next" else m.method for m in ems), st_ok))
        return out

    def prev_mux(p):
        rd = [e for e in p.trace if e.k == "store" and e.op == "get_state"]
        if not rd:
            return None, None, None
        for e in p.trace:
            if e.k == "decision" and e.test[0] == "cmp" and rd[0].result in (e.test[2], e.test[3]):
                other = e.test[3] if e.test[2] == rd[0].result else e.test[2]
                has = e.outcome == (e.test[1] in ("IsNot", "NotEq"))
                return rd[0].result, has, e
        return rd[0].result, None, None

    # the closure variable that remembers the previous item: the one the plain handler rebinds
    prev_names = set()
    for p in ctx.paths(sobs, None, {}):
        prev_names |= {e.name for e in p.trace if e.k == "nonlocal"}
    if len(prev_names) != 1:
        raise AnalysisError("assert_1 plain arm: expected one closure variable holding the previous item, found %s" % sorted(prev_names))
    prev_name = next(iter(prev_names))

    def prev_obs(p):
        last = ("free", prev_name)
        for e in p.trace:
            if e.k == "decision" and e.test[0] == "cmp" and any(x[:2] == last for x in (e.test[2], e.test[3]) if len(x) >= 2):
                prev = e.test[2] if e.test[2][:2] == last else e.test[3]
                has = e.outcome == (e.test[1] in ("IsNot", "NotEq"))
                return prev, has, e
            if e.k == "decision" and e.test[0] == "param":
                continue
        return None, None, None
    a, b = a1_skel(smux, "Next", prev_mux), a1_skel(sobs, None, prev_obs)
    r.groups.add(("assert_1",))
    r.ob(a == b and len(a) >= 3, lambda: Finding(
        "AG-3", "assert_1 mux/plain", sobs.module.where(sobs.fn),
        "assert_1: per-item behaviour (has previous?, predicate(previous, item), verdict, emissions, item recorded) differs: mux %s vs plain %s" % (
            sorted(a, key=str), sorted(b, key=str))))
    # ---- AG-3b ---------------------------------------------------------------
    for p in ctx.paths(sobs, None, {}):
        rb.paths += 1
        prev, has, dec = prev_obs(p)
        if dec is None:
            continue
        other = dec.test[3] if dec.test[2] == prev else dec.test[2]
        rb.groups.add(("assert_1 plain", dec.outcome))
        private = other[0] == "modvar" or (other[0] == "free") or (other[0] == "const" and isinstance(other[1], bool) and False)
        if other[0] == "modvar":
            private = _is_private_marker(ctx, sobs.module, other)
        rb.ob(private and dec.test[1] in ("Is", "IsNot"), lambda: Finding(
            "AG-3b", "rxsci/operators/assert_.py::assert_1 plain{unset-marker}", sobs.module.where(dec.node),
            "the plain arm decides 'there is a previous item' by '%s': %s is a value users can emit, so for such an item the pair "
            "(previous, item) is never checked, while the multiplexed arm (private marker STATE_NOTSET) checks it" % (show(dec.test), show(other))))
    # the mux sibling uses the store marker
    for p in ctx.paths(smux, "Next", {}):
        prev, has, dec = prev_mux(p)
        if dec is not None:
            other = dec.test[3] if dec.test[2] == prev else dec.test[2]
            rb.ob(_is_notset(other), lambda: mk_finding("AG-3b", smux, "Next", {}, p, "the mux arm no longer tests the store marker STATE_NOTSET", extra="mux-marker"))
    if rb.obligations == 0:
        raise AnalysisError("AG-3b: the 'has previous item' test of assert_1 was not found")
    return [r, rb]


def _is_private_marker(ctx, m, t):
    """modvar bound at module level to NotSet() / object() / a marker class instance"""
    node = t[2] if len(t) > 2 else None
    if isinstance(node, ast.Call):
        cn = dotted_name(node.func)
        return bool(cn) and cn.split(".")[-1] in ("NotSet", "object", "StateNotSet")
    return False


# ----------------------------------------------------------------------
def rule_ag3_map_filter(ctx: Ctx) -> RuleResult:
    """The multiplexed map / filter do with the user function what rx.operators.map / filter (the plain arms) do:
    apply it to the item; map emits its result in place of the item, filter keeps the item iff the result is truthy."""
    r = RuleResult("AG-3m", "map / filter on a MuxObservable use the user function as rx.operators.map / filter do (applied to the item; filter keeps truthy results)")
    for rel, suffix, what in (("rxsci/operators/map.py", "map_mux._map.on_subscribe", "map"),
                              ("rxsci/operators/filter.py", "filter_mux._filter.on_subscribe", "filter")):
        site = ctx.site(rel, suffix, kind="mux")
        spec = site.handler_specs("on_next")[0]
        r.instances += 1
        for kind, cfg, paths in ctx.all_paths(spec, kinds=("Next",)):
            for p in paths:
                r.paths += 1
                if not _normal(p):
                    continue
                r.groups.add((what, len(r.groups)))
                uc = [e for e in p.trace if e.k == "ucall"]
                ok = len(uc) == 1 and tuple(uc[0].args) == (EVITEM,)
                r.ob(ok, lambda: mk_finding("AG-3m", spec, kind, cfg, p,
                                            "%s must apply the user function exactly once to the item (as rx.operators.%s does); calls: %s" % (
                                                what, what, [e.brief() for e in uc]), extra="argument"))
                if not ok:
                    continue
                res = uc[0].result
                ems = [m for m in mux_emissions(p)]
                if what == "map":
                    ok = len(ems) == 1 and ems[0].event is not None and ems[0].event.kind == "Next" and ems[0].event.keyclass == SAME \
                        and ems[0].event.payload == res
                    r.ob(ok, lambda: mk_finding("AG-3m", spec, kind, cfg, p, "map must emit the mapper's result in place of the item, once, for the same key; "
                                                                              "it does: %s" % summary(p), extra="result"))
                    continue
                decs = [e for e in p.trace if e.k == "decision" and any(x == res for x in [e.test] + list(subterms(e.test)))]
                ok = len(decs) == 1
                kept = None
                if ok:
                    t = decs[0].test
                    if t == res:
                        kept = decs[0].outcome
                    elif t[0] == "call" and t[1] == ("builtin", "bool") and tuple(t[2]) == (res,):
                        kept = decs[0].outcome
                    else:
                        ok = False
                r.ob(ok, lambda: mk_finding(
                    "AG-3m", spec, kind, cfg, p,
                    "filter must keep an item iff the predicate's result is truthy, as rx.operators.filter does on a plain Observable; here the item is "
                    "kept under the test %s: a predicate that returns a truthy value other than True (1, a non-empty string, a numpy bool) keeps the item on "
                    "an Observable and drops it on a MuxObservable" % ([show(d.test) for d in decs] or "(no test of the result)"),
                    node=decs[0].node if decs else None, extra="truthiness"))
                if ok:
                    fw = [m for m in ems if m.event is not None and m.event.how == "same"]
                    good = (len(ems) == 1 and len(fw) == 1) if kept else (not ems)
                    r.ob(good, lambda: mk_finding("AG-3m", spec, kind, cfg, p, "filter must forward the item unchanged when kept and emit nothing otherwise; "
                                                                                "it does: %s" % summary(p), extra="forward"))
    r.require_instances(2)
    return r


def _do_action_roles(ctx, rel="rxsci/operators/do_action.py", public="do_action"):
    """{parameter of the multiplexed implementation: role}, read from the dispatch of the public operator: the role of
    a user callback is the position / keyword under which the plain arm hands it to rx.operators.do_action
    (on_next, on_error, on_completed); a callback the plain arm does not use is 'create' (it has no RxPY counterpart)."""
    prog = ctx.program
    m = prog.module(rel)
    b = m.bindings.get(public)
    if b is None or b[0] != "def":
        raise AnalysisError("AG-3d: %s has no function %s" % (rel, public))
    fn = b[1]
    ds = [d for d in dispatch_sites(prog, m, fn) if d.mux_call is not None and d.plain_call is not None]
    if len(ds) != 1:
        raise AnalysisError("AG-3d: %s::%s: expected one mux/plain dispatch between sibling operator calls, found %d" % (rel, public, len(ds)))
    d = ds[0]
    _, _, nb = d.plain_call
    _, _, na = d.mux_call
    rx_order = ["next", "error", "completed"]
    role_of_public = {}
    for k, a in enumerate(nb.args):
        if isinstance(a, ast.Name) and k < 3:
            role_of_public[a.id] = rx_order[k]
    for kw in nb.keywords:
        if kw.arg in ("on_next", "on_error", "on_completed") and isinstance(kw.value, ast.Name):
            role_of_public[kw.value.id] = kw.arg[3:]
    dn = dotted_name(na.func)
    ref = prog.resolve_dotted(m, dn) if dn else None
    if ref is None or ref[0] != "def":
        raise AnalysisError("AG-3d: %s: cannot resolve the multiplexed implementation %s" % (m.where(na), ast.unparse(na.func)))
    callee = ref[2]
    pos = [a.arg for a in callee.args.args]
    given = {}
    for k, a in enumerate(na.args):
        if k < len(pos):
            given[pos[k]] = a
    for kw in na.keywords:
        if kw.arg:
            given[kw.arg] = kw.value
    roles = {}
    for prm, a in given.items():
        if isinstance(a, ast.Name):
            roles[prm] = role_of_public.get(a.id, "create")
    if sorted(set(roles.values()) & set(rx_order)) != sorted(rx_order):
        raise AnalysisError("AG-3d: %s: the three callbacks of rx.operators.do_action do not all reach the multiplexed implementation (%s)" % (
            m.where(d.node), roles))
    return roles, ref[1], callee


def rule_ag3_do_action(ctx: Ctx) -> RuleResult:
    """do_action on a MuxObservable runs the user callbacks as rx.operators.do_action does on each key's sequence:
    on_next(item) for every item, on_error(error) / on_completed for the end of a key, each exactly once, before the event
    is forwarded unchanged; a callback is never run for an event of another kind."""
    r = RuleResult("AG-3d", "do_action on a MuxObservable runs each callback exactly once for the events of its kind (on_next on the item, on_error on "
                            "the error), before forwarding the event unchanged, as rx.operators.do_action does per sequence")
    roles, cm, callee = _do_action_roles(ctx)
    site = ctx.site(cm.relpath, callee.name + "._do_action_mux.on_subscribe", kind="mux")
    spec = site.handler_specs("on_next")[0]
    r.instances += 1
    want = {"Next": "next", "Error": "error", "Completed": "completed", "Create": "create"}
    argspec = {"next": EVITEM, "error": EVERROR}
    prm_of = {}
    for prm, role in roles.items():
        prm_of.setdefault(role, prm)
    for kind, cfg, paths in ctx.all_paths(spec, kinds=("Create", "Next", "Completed", "Error")):
        for p in paths:
            r.paths += 1
            if not _normal(p):
                continue
            role = want[kind]
            prm = prm_of.get(role)
            # a callback the handler never tests is taken as given (a handler that does not mention it never runs it)
            configured = prm is not None and cfg.get(prm, "Obj") == "Obj"
            uc = [e for e in p.trace if e.k == "ucall"]
            mine = [e for e in uc if roles.get(e.name) == role]
            other = [e for e in uc if roles.get(e.name) != role]
            r.groups.add((kind, role))
            r.ob(not other, lambda: mk_finding("AG-3d", spec, kind, cfg, p, "a callback of another event kind runs on a %s event: %s" % (
                kind, [e.brief() for e in other]), extra="foreign"))
            ok = len(mine) == (1 if configured else 0)
            r.ob(ok, lambda: mk_finding("AG-3d", spec, kind, cfg, p, "the %s callback must run exactly once per %s event when it is given (and only then); "
                                                                      "calls: %s" % (role, kind, [e.brief() for e in mine] or "none"), extra="once"))
            if ok and mine and role in argspec:
                good = tuple(mine[0].args) == (argspec[role],)
                r.ob(good, lambda: mk_finding("AG-3d", spec, kind, cfg, p, "the %s callback must receive the %s of the event (rx.operators.do_action "
                                                                            "passes it the %s); it receives %s" % (
                                                                                role, "item" if role == "next" else "error", "item" if role == "next" else "error",
                                                                                [show(a) for a in mine[0].args]), extra="argument"))
            if ok and mine and role in ("completed", "create"):
                good = EV not in tuple(mine[0].args)
                r.ob(good, lambda: mk_finding("AG-3d", spec, kind, cfg, p, "the %s callback receives the mux event itself" % role, extra="argument"))
            ems = [m for m in mux_emissions(p)]
            fw = [m for m in ems if m.event is not None and m.event.how == "same"]
            good = len(ems) == 1 and len(fw) == 1
            r.ob(good, lambda: mk_finding("AG-3d", spec, kind, cfg, p, "do_action must forward every event unchanged, once; it does: %s" % summary(p),
                                          extra="forward"))
            if good and mine:
                order = [e for e in p.trace if e is mine[0] or e is fw[0].eff]
                r.ob(order and order[0] is mine[0], lambda: mk_finding(
                    "AG-3d", spec, kind, cfg, p, "the callback must run before the event is forwarded (rx.operators.do_action runs the action first)",
                    extra="order"))
    # end of the whole multiplexed stream (not part of any key's sequence): no callback of another kind, none twice
    for which, role, term in (("on_completed", "completed", "on_completed"), ("on_error", "error", "on_error")):
        specs = site.handler_specs(which)
        if not specs:
            continue      # the terminal is the downstream observer's own method: nothing added (MX-8 / MX-2)
        hs = specs[0]
        prm = prm_of.get(role)
        for cfg in _vals(ctx, hs):
            for p in ctx.paths(hs, None, cfg):
                r.paths += 1
                if not _normal(p):
                    continue
                uc = [e for e in p.trace if e.k == "ucall"]
                mine = [e for e in uc if roles.get(e.name) == role]
                other = [e for e in uc if roles.get(e.name) != role]
                configured = prm is not None and cfg.get(prm, "Obj") == "Obj"
                r.groups.add((which, role))
                r.ob(not other and len(mine) <= (1 if configured else 0), lambda: mk_finding(
                    "AG-3d", hs, None, cfg, p, "at the end of the stream only the %s callback may run, at most once and only when it is given; calls: %s" % (
                        role, [e.brief() for e in uc] or "none"), extra="stream-" + role))
    r.require_instances(1)
    return r


def _vals(ctx, spec):
    from ..model import valuations
    return list(valuations(ctx.space(spec)))


MATH_OPS = [
    ("rxsci/math/sum.py", "sum", "scan"), ("rxsci/math/mean.py", "mean", "scan"), ("rxsci/math/min.py", "min", "scan"),
    ("rxsci/math/max.py", "max", "scan"), ("rxsci/math/variance.py", "variance", "scan"),
    ("rxsci/math/stddev.py", "stddev", "variance"), ("rxsci/math/formal/variance.py", "variance", "scan"),
    ("rxsci/math/formal/stddev.py", "stddev", "variance"), ("rxsci/operators/count.py", "count", "scan"),
]


def _inner_calls(ctx, m, fn, inner):
    """[(module, function, call node, bindings)] -- calls of the aggregate named *inner* made by fn itself, or by a
    repository function fn calls (whose parameters are then bound by that call)."""
    from ..model import _bind_call
    prog = ctx.program
    out = []

    def is_inner(mod, n):
        dn = dotted_name(n.func)
        return dn is not None and dn.split(".")[-1] == inner
    for n in ast.walk(fn):
        if isinstance(n, ast.Call) and is_inner(m, n):
            out.append((m, fn, n, {}))
    if out:
        return out
    for n in ast.walk(fn):
        if not isinstance(n, ast.Call):
            continue
        dn = dotted_name(n.func)
        ref = prog.resolve_dotted(m, dn) if dn else None
        if ref is None or ref[0] != "def" or ref[2] is fn:
            continue
        hm, H = ref[1], ref[2]
        for x in ast.walk(H):
            if isinstance(x, ast.Call) and is_inner(hm, x):
                b = _bind_call(ctx.ex, m, n, hm, H, {}, {})
                if b is not None:
                    out.append((hm, H, x, b))
    return out


def rule_ag4(ctx: Ctx) -> RuleResult:
    r = RuleResult("AG-4", "math aggregates have one code path: 'reduce' and 'key_mapper' are forwarded unchanged to scan / to the inner aggregate")
    for rel, name, inner in MATH_OPS:
        m, fn = ctx.function(rel, name)
        r.instances += 1
        r.groups.add((rel, name))
        params = m.scopes[fn].params
        r.ob("reduce" in params, lambda: Finding("AG-4", "%s::%s{param}" % (rel, name), m.where(fn), "%s has no reduce parameter" % name))
        # the single call of the inner aggregate, in the operator itself or in a shared builder it delegates to
        # (extremum(operator.lt, key_mapper, reduce)); its reduce argument must be the operator's reduce parameter
        reached = _inner_calls(ctx, m, fn, inner)
        ok = len(reached) == 1
        if ok:
            cm, cfn, call, bind = reached[0]
            kw = [k.value for k in call.keywords if k.arg == "reduce"]
            t = ctx.ex.eval_in_scope(cm, cfn, kw[0], ctx=bind) if kw else None
            ok = t == ("param", "reduce", m.scopes[fn].qualname)
        helper_fns = [x[1] for x in reached if x[1] is not fn]
        r.ob(ok, lambda: Finding("AG-4", "%s::%s{reduce}" % (rel, name), m.where(fn),
                                 "%s must pass reduce=reduce to its single %s(...) call so that the streaming and the reduced variant share one fold" % (name, inner)))
        # tests on reduce inside the operator would create a second code path
        tests = [n for f_ in [fn] + helper_fns for n in ast.walk(f_)
                 if isinstance(n, (ast.If, ast.IfExp)) and any(isinstance(x, ast.Name) and x.id == "reduce" for x in ast.walk(n.test))]
        r.ob(not tests, lambda: Finding("AG-4", "%s::%s{branch-on-reduce}" % (rel, name), m.where(tests[0]),
                                        "%s branches on reduce: the streaming value after the last item may differ from the reduced value" % name))
        if "key_mapper" in params:
            used = [n for n in ast.walk(fn) if isinstance(n, ast.Call) and isinstance(n.func, ast.Name) and n.func.id == "key_mapper"]
            fwd = [n for n in ast.walk(fn) if isinstance(n, ast.Call) and any(isinstance(a, ast.Name) and a.id == "key_mapper" for a in list(n.args) + [k.value for k in n.keywords])]
            r.ob(bool(used) or bool(fwd), lambda: Finding("AG-4", "%s::%s{key_mapper}" % (rel, name), m.where(fn), "%s ignores its key_mapper" % name))
    r.require_instances(9)
    return r

# what the plain arm of each dual-mode operator is on the pinned tree (confirmed by reading; the sequence and promptness rules rely on the
# behaviour of exactly these: RxPY's take completes with its last item, RxPY's flat_map schedules, the repository's twins do not)
PLAIN_ARMS = {
    ("rxsci/data/to_list.py", "to_list"): "rx.operators.to_list",
    ("rxsci/operators/do_action.py", "do_action"): "rx.operators.do_action",
    ("rxsci/operators/filter.py", "filter"): "rx.operators.filter",
    ("rxsci/operators/first.py", "first"): "rx.operators.first",
    ("rxsci/operators/flat_map.py", "flat_map"): "rxsci.operators.flat_map.flat_map_obs",
    ("rxsci/operators/last.py", "last"): "rx.operators.last",
    ("rxsci/operators/map.py", "map"): "rx.operators.map",
    ("rxsci/operators/scan.py", "scan"): "rxsci.operators.scan.scan_obs",
    ("rxsci/operators/take.py", "take"): "rx.operators.take",
}


def rule_ag8(ctx: Ctx) -> RuleResult:
    """AG-8: the plain arm of a dual-mode operator is the implementation the rules know.  What an RxPY operator does (when it completes,
    whether it schedules) is library behaviour the rules take from reading RxPY, per operator; a plain arm that is some other
    implementation is not covered by that reading: the run cannot decide (ANALYSIS-ERROR), it is not a finding."""
    r = RuleResult("AG-8", "the plain arm of each dual-mode operator is the implementation confirmed on the pinned tree (else the run cannot decide)")
    prog = ctx.program
    for (rel, name), want in sorted(PLAIN_ARMS.items()):
        if ctx.scope is not None and rel not in ctx.scope:
            continue
        m, fn = ctx.function(rel, name)
        r.instances += 1
        for d in dispatch_sites(prog, m, fn):
            pc = d.plain_call
            if pc is None:
                r.ob(True)        # the arm selects or applies its implementation in a form AG-1 / AG-2 read; nothing to compare here
                continue
            ref = prog.resolve_dotted(m, pc[0])
            got = ref[1] if ref and isinstance(ref[1], str) else ("%s.%s" % (ref[1].name, pc[0].split(".")[-1]) if ref and len(ref) > 1 and hasattr(ref[1], "name") else pc[0])
            if got != want:
                raise AnalysisError("%s: the plain arm of %s is %s; the rules know the behaviour of %s (when it emits and completes), not of this one" % (
                    m.where(d.node), name, got, want))
            r.ob(True)
    r.require_instances(1)
    return r
