"""C13 -- item-level errors: ER-1 (capture), ER-2 (handlers), ER-3 (fatal at demux)."""
from __future__ import annotations

import ast

from ..classify import SAME
from ..engine import Ctx, Finding, RuleResult, cfg_str, trace_of
from ..loader import AnalysisError
from ..terms import EV, EVITEM, EVKEY, EVSTORE, show, subterms
from .common import Emission, emissions, mk_finding, mux_emissions, summary

CAPTURE_SITES = [
    ("rxsci/operators/map.py", "map_mux._map.on_subscribe", ("mapper",)),
    ("rxsci/operators/filter.py", "filter_mux._filter.on_subscribe", ("predicate",)),
    ("rxsci/operators/scan.py", "scan_mux._scan.on_subscribe", ("accumulator", "seed")),
]
EVERROR = ("attr", EV, "error")


def rule_er1(ctx: Ctx) -> RuleResult:
    r = RuleResult("ER-1", "map/filter/scan: a raising user function yields exactly one mux error of the same key and leaves no state write")
    for rel, suffix, users in CAPTURE_SITES:
        site = ctx.site(rel, suffix)
        spec = site.handler_specs("on_next")[0]
        r.instances += 1
        for kind, cfg, paths in ctx.all_paths(spec, kinds=("Next",)):
            ucall_nodes = {}
            raised_nodes = set()
            for p in paths:
                for e in p.trace:
                    if e.k == "ucall" and e.name in users:
                        ucall_nodes[id(e.node)] = e
                        if e.d.get("raised"):
                            raised_nodes.add(id(e.node))
            r.groups.add((spec.qualname, cfg_str(cfg)))
            if not ucall_nodes:
                r.ob(False, lambda: Finding("ER-1", "%s[Next]{no-user-call}" % spec.qualname, spec.module.where(spec.fn),
                                            "the user function is never applied to the item"))
            for nid, e in ucall_nodes.items():
                r.ob(nid in raised_nodes, lambda e=e: Finding(
                    "ER-1", "%s[Next]{uncaught-%s}" % (spec.qualname, e.name), e.where(),
                    "the call of the user function '%s' is not protected by a try/except: an exception raised for one item escapes the "
                    "operator and terminates the whole stream instead of becoming a mux error of that key" % e.name))
            for p in paths:
                r.paths += 1
                raised = [e for e in p.trace if e.d.get("raised")]
                if not raised:
                    continue
                first = raised[0]
                pos = p.trace.index(first)
                if p.outcome == "raise":
                    r.ob(False, lambda: mk_finding("ER-1", spec, kind, cfg, p,
                                                   "an exception raised by '%s' may escape the handler (the except clause does not catch Exception)" % first.brief(),
                                                   node=first.node, extra="escape"))
                    continue
                exc = [e for e in p.trace[pos:] if e.k == "except"]
                after = [Emission(e, kind, 0) for e in p.trace[pos + 1:] if e.k == "emit"]
                ok = bool(exc) and len(after) == 1 and after[0].event is not None and after[0].event.kind == "Error" \
                    and after[0].event.keyclass == SAME and after[0].event.how == "new" and after[0].role == "down" \
                    and after[0].event.payload == exc[0].exc
                r.ob(ok, lambda: mk_finding("ER-1", spec, kind, cfg, p,
                                            "after '%s' raises, exactly one OnErrorMux(key, the exception) must be emitted; this path emits: %s" % (
                                                first.brief(), "; ".join(m.brief() for m in after) or "nothing"), node=first.node, extra="one-error"))
                if ok:
                    r.ob(after[0].event.store == EVSTORE, lambda: mk_finding(
                        "ER-1", spec, kind, cfg, p, "the mux error does not carry the store of the event", node=after[0].eff.node, extra="store"))
                after_w = [e for e in p.trace[pos + 1:] if e.k == "store" and e.op in ("set_state", "add_key", "del_key", "add_map", "del_map")]
                r.ob(not after_w, lambda: mk_finding(
                    "ER-1", spec, kind, cfg, p,
                    "while turning the exception into a mux error the handler also changes the key's state (%s): the later items of the key no longer "
                    "continue 'as if the failing item were absent'" % "; ".join(e.brief() for e in after_w), node=after_w[0].node, extra="state-change-on-error"))
                if first.k == "ucall":
                    writes = [e for e in p.trace[:pos] if e.k == "store" and e.op in ("set_state", "add_key", "del_key")]
                    ems_before = [e for e in p.trace[:pos] if e.k == "emit"]
                    r.ob(not writes and not ems_before, lambda: mk_finding(
                        "ER-1", spec, kind, cfg, p,
                        "state is written / an item is emitted before the user function '%s' raises: the failing item is not 'as if absent'" % first.name,
                        node=first.node, extra="write-before-raise"))
    r.require_instances(3)
    return r


def rule_er2(ctx: Ctx) -> RuleResult:
    r = RuleResult("ER-2", "error handlers: ignore drops, error.map replaces in place, the router delivers to the dead letter and completes it")
    # ---- ignore ----------------------------------------------------------
    site = ctx.site("rxsci/error/ignore.py", "ignore._ignore.on_subscribe")
    spec = site.handler_specs("on_next")[0]
    r.instances += 1
    for kind, cfg, paths in ctx.all_paths(spec):
        for p in paths:
            r.paths += 1
            r.groups.add((spec.qualname, kind))
            ems = emissions(p)
            if kind == "Error":
                r.ob(not ems, lambda: mk_finding("ER-2", spec, kind, cfg, p, "ignore must drop a mux error; it does: %s" % summary(p)))
            else:
                ok = len(ems) == 1 and ems[0].method == "on_next" and ems[0].eff.arg == EV and ems[0].role == "down"
                r.ob(ok, lambda: mk_finding("ER-2", spec, kind, cfg, p, "ignore must forward every other event unchanged; it does: %s" % summary(p)))
    # ---- error.map -------------------------------------------------------
    site = ctx.site("rxsci/error/map.py", "map._map.on_subscribe")
    spec = site.handler_specs("on_next")[0]
    r.instances += 1
    for kind, cfg, paths in ctx.all_paths(spec):
        for p in paths:
            r.paths += 1
            r.groups.add((spec.qualname, kind))
            ems = emissions(p)
            if kind == "Error":
                raised = [e for e in p.trace if e.d.get("raised")]
                ucalls = [e for e in p.trace if e.k == "ucall"]
                if raised:
                    ok = len([m for m in ems if not m.raised]) == 1 and ems[-1].method == "on_error" and ems[-1].role == "down"
                    r.ob(ok, lambda: mk_finding("ER-2", spec, kind, cfg, p, "when the error mapper itself fails the stream must fail once; it does: %s" % summary(p), extra="mapper-raises"))
                else:
                    ok = len(ucalls) == 1 and tuple(ucalls[0].args) == (EVERROR,) and len(ems) == 1 and ems[0].event is not None \
                        and ems[0].event.kind == "Next" and ems[0].event.keyclass == SAME and ems[0].event.payload == ucalls[0].result \
                        and ems[0].event.store == EVSTORE and ems[0].role == "down"
                    r.ob(ok, lambda: mk_finding("ER-2", spec, kind, cfg, p,
                                                "error.map must replace a mux error by exactly one item mapper(error) of the same key; it does: %s" % summary(p)))
            else:
                ok = len(ems) == 1 and ems[0].method == "on_next" and ems[0].eff.arg == EV and ems[0].role == "down"
                r.ob(ok, lambda: mk_finding("ER-2", spec, kind, cfg, p, "error.map must forward every other event unchanged; it does: %s" % summary(p)))
    # ---- router ------------------------------------------------------------
    site = ctx.site("rxsci/error/router.py", "create_error_router._route_to_dead_letter.route_to_dead_letter.on_subscribe", kind="mux")
    r.instances += 1

    # the dead-letter observer: the closure variable in which the subscribe function of the errors observable
    # (the rx.create site of the module) keeps its observer
    dl_names = set()
    for s_ in ctx.all_sites:
        if s_.anchor_rel == "rxsci/error/router.py" and s_.ctor == "create" and not s_.error:
            for p_ in ctx.fn_paths(s_.module, s_.subscribe_fn, roles=s_.roles):
                for e_ in p_.trace:
                    if e_.k == "nonlocal" and e_.value == ("obs", "down"):
                        dl_names.add(e_.name)
    if len(dl_names) != 1:
        raise AnalysisError("rxsci/error/router.py: the errors observable must keep its observer in one closure variable; found %s" % sorted(dl_names))
    DL = next(iter(dl_names))

    def is_dl(m):
        return m.target[0] == "free" and m.target[1] == DL

    def dl_present(p):
        for e in p.trace:
            if e.k == "decision" and any(x[0] == "free" and x[1] == DL for x in subterms(e.test)):
                t = e.test
                if t[0] == "cmp" and t[1] in ("IsNot", "NotEq") and ("const", None) in (t[2], t[3]):
                    return e.outcome
                if t[0] == "cmp" and t[1] in ("Is", "Eq") and ("const", None) in (t[2], t[3]):
                    return not e.outcome
                return e.outcome
        return None
    spec = site.handler_specs("on_next")[0]
    for kind, cfg, paths in ctx.all_paths(spec):
        for p in paths:
            r.paths += 1
            r.groups.add((spec.qualname, kind))
            ems = emissions(p)
            present = dl_present(p)
            if kind == "Error" and present:
                ok = len(ems) == 1 and is_dl(ems[0]) and ems[0].method == "on_next" and ems[0].eff.arg == EVERROR
                r.ob(ok, lambda: mk_finding("ER-2", spec, kind, cfg, p,
                                            "with a dead-letter subscriber a mux error must be delivered to it (the exception, once) and not forwarded; "
                                            "the router does: %s" % summary(p), extra="route"))
            else:
                ok = len(ems) == 1 and ems[0].method == "on_next" and ems[0].eff.arg == EV and ems[0].role == "down"
                r.ob(ok, lambda: mk_finding("ER-2", spec, kind, cfg, p, "the router must forward the event unchanged; it does: %s" % summary(p), extra="forward"))
            if kind == "Error":
                r.ob(present is not None, lambda: mk_finding("ER-2", spec, kind, cfg, p, "routing does not depend on the presence of a dead-letter subscriber", extra="no-test"))
    for which, want_down in (("on_completed", "on_completed"), ("on_error", "on_error")):
        for spec in site.handler_specs(which):
            for p in ctx.paths(spec, None, {}):
                r.paths += 1
                ems = emissions(p)
                present = dl_present(p)
                down = [m for m in ems if m.role == "down"]
                dl = [m for m in ems if is_dl(m)]
                ok = len(down) == 1 and down[0].method == want_down and ems[-1] is down[0]
                if present:
                    want = ["on_completed"] if which == "on_completed" else ["on_next", "on_completed"]
                    ok = ok and [m.method for m in dl] == want
                    if which == "on_error" and ok:
                        ok = dl[0].eff.arg == EV and down[0].eff.arg == EV
                else:
                    ok = ok and not dl
                r.ob(ok and present is not None, lambda: mk_finding(
                    "ER-2", spec, None, {}, p,
                    "when the stream ends with %s the dead letter must %s and complete before the downstream %s; the router does: %s" % (
                        which, "receive the error" if which == "on_error" else "be completed", want_down, summary(p)), extra=which))
    r.require_instances(3)
    return r


def rule_er3(ctx: Ctx) -> RuleResult:
    r = RuleResult("ER-3", "an unhandled mux error surfaces as on_error at demultiplexing")
    site = ctx.site("rxsci/operators/multiplex.py", "demux_observable._flatten.on_subscribe")
    spec = site.handler_specs("on_next")[0]
    r.instances += 1
    # demux_observable receives mux events although it is built with rx.create
    from ..terms import KINDS
    for kind in KINDS:
        for p in ctx.paths(spec, kind, {}):
            r.paths += 1
            r.groups.add((spec.qualname, kind))
            ems = emissions(p)
            if kind == "Next":
                ok = len(ems) == 1 and ems[0].method == "on_next" and ems[0].eff.arg == EVITEM and ems[0].role == "down"
                msg = "an item must be unwrapped and delivered once"
            elif kind == "Error":
                ok = len(ems) == 1 and ems[0].method == "on_error" and ems[0].eff.arg == EVERROR and ems[0].role == "down"
                msg = "an unhandled mux error must become on_error(error)"
            else:
                ok = not ems
                msg = "lifecycle events must not reach the plain subscriber"
            r.ob(ok, lambda msg=msg: mk_finding("ER-3", spec, kind, {}, p, "%s; demux_observable does: %s" % (msg, summary(p))))
    for sub in site.subscriptions:
        for which in ("on_error", "on_completed"):
            h = sub.handlers.get(which)
            ok = h is not None and h.how == "forward" and h.target == ("obs", "down") and h.method == which
            r.ob(ok, lambda which=which: Finding("ER-3", "demux_observable{%s}" % which, site.where(), "%s is not forwarded to the subscriber" % which))
    dm = ctx.site("rxsci/operators/multiplex.py", "demux_mux_observable._demux.on_subscribe")
    for sub in dm.subscriptions:
        if sub.source_text != "source":
            continue
        spec2 = sub.handlers["on_next"].spec
        r.instances += 1
        for p in ctx.paths(spec2, "Error", {}):
            r.paths += 1
            ems = emissions(p)
            ok = len(ems) == 1 and ems[0].method == "on_error" and ems[0].eff.arg == EVERROR and ems[0].role == "down"
            r.ob(ok, lambda: mk_finding("ER-3", spec2, "Error", {}, p, "an unhandled inner mux error must become on_error(error); demux does: %s" % summary(p)))
    r.require_instances(2)
    return r


def rule_er4(ctx: Ctx) -> RuleResult:
    """ER-4: starmap is map over a wrapper that calls the user function exactly once with the unpacked item and returns its result;
    the wrapper handles no exception itself, so that whatever the user function raises reaches map's guard unchanged (and exactly one
    mux error is produced for the item, carrying that exception)."""
    import ast as _ast
    from .scan import _callable_def
    r = RuleResult("ER-4", "starmap hands the unpacked item to the user function once, inside map's guard, and catches nothing itself")
    rel = "rxsci/operators/starmap.py"
    m, fn = ctx.function(rel, "starmap")
    r.instances += 1
    calls = [n for n in _ast.walk(fn) if isinstance(n, _ast.Call) and m.enclosing_function(n) is fn]
    maps = []
    for c in calls:
        from ..loader import dotted_name
        dn = dotted_name(c.func)
        ref = ctx.program.resolve_dotted(m, dn) if dn else None
        if ref is not None and ref[0] == "def" and ref[2].name == "map" and ref[1].relpath == "rxsci/operators/map.py":
            maps.append(c)
    if len(maps) != 1 or not maps[0].args:
        r.ob(False, lambda: Finding("ER-4", "%s::starmap{map}" % rel, m.where(fn), "starmap must be rs.ops.map over one wrapper of the user function"))
        return r
    wfn = _callable_def(ctx, m, maps[0].args[0], fn)
    if wfn is None:
        raise AnalysisError("starmap: the function mapped over the items is not a local function or lambda")
    A = ("arg", m.scopes[wfn].params[0])
    for p in ctx.fn_paths(m, wfn):
        r.paths += 1
        if p.outcome == "raise" and not any(e.k == "except" for e in p.trace):
            continue       # the user function raised: the exception leaves the wrapper, as it must
        ucs = [e for e in p.trace if e.k == "ucall"]
        handled = [e for e in p.trace if e.k == "except"]
        ok = not handled and len(ucs) == 1 and tuple(ucs[0].args) == (("star", A),) and p.outcome == "return" and p.value == ucs[0].result
        r.groups.add(("starmap", len(r.groups)))
        r.ob(ok, lambda p=p, ucs=ucs, handled=handled: Finding(
            "ER-4", "%s::starmap{wrapper}" % rel, m.where(wfn),
            "the wrapper mapped by starmap must call mapper(*item) once and return its result, without handling exceptions itself; this path %s and "
            "calls %s: an exception of the user function that is caught here never becomes the item's mux error" % (
                "catches an exception" if handled else "catches nothing", [e.brief() for e in ucs]), trace_of(p)))
    r.require_instances(1)
    return r


RULES = [rule_er1, rule_er2, rule_er3, rule_er4]
