"""Helpers shared by the rule modules."""
from __future__ import annotations

from ..classify import MuxEvent, mux_event
from ..engine import Finding, cfg_str, trace_of
from ..terms import show, subterms


class Emission:
    __slots__ = ("eff", "target", "method", "event", "raised", "pos")

    def __init__(self, eff, kind, pos):
        self.eff = eff
        self.target = eff.target
        self.method = eff.method
        self.raised = bool(eff.d.get("raised"))
        self.event = mux_event(eff.arg, kind) if eff.method == "on_next" else None
        self.pos = pos

    @property
    def role(self):
        """'down' | 'outer' | other description of the observer written to."""
        t = self.target
        if t[0] == "obs":
            return t[1]
        # with_store_mux_on_sources keeps each subscriber's observer in a Source record
        # that is bound to the handler with functools.partial
        if t[0] == "attr" and t[2] == "observer" and t[1][0] in ("bound", "loopvar", "compvar"):
            return "down"
        return show(t)

    def brief(self):
        if self.method != "on_next":
            return "%s.%s" % (self.role, self.method)
        if self.event is not None:
            return "%s<-%s" % (self.role, self.event.brief())
        return "%s<-value" % self.role


def emissions(path, kind=None):
    """All observer calls of a path, in order."""
    k = path.kind if kind is None else kind
    out = []
    for pos, e in enumerate(path.trace):
        if e.k == "emit":
            out.append(Emission(e, k, pos))
    return out


def mux_emissions(path, roles=("down", "outer")):
    return [m for m in emissions(path) if m.method == "on_next" and m.role in roles]


def terminals(path):
    return [m for m in emissions(path) if m.method in ("on_error", "on_completed")]


def summary(path):
    return " ; ".join(m.brief() for m in emissions(path)) or "(no emission)"


def construct_id(spec, kind=None, cfg=None, extra=None):
    s = spec.qualname
    if kind is not None:
        s += "[%s]" % kind
    if extra:
        s += "{%s}" % extra
    return s


def mk_finding(rule, spec, kind, cfg, path, message, node=None, extra=None):
    where = spec.module.where(node if node is not None else spec.fn)
    tr = ["handler %s kind=%s config=%s" % (spec.qualname, kind, cfg_str(cfg or {}))] + (trace_of(path) if path is not None else [])
    detail = {"kind": kind, "config": cfg or {}}
    if path is not None:
        un = [e for e in path.trace if e.k == "call" and e.d.get("unresolved")]
        if un:
            detail["unresolved"] = "%s calls %s, a function value the analysis could not resolve" % (un[0].where(), show(un[0].func))
    return Finding(rule, construct_id(spec, kind, cfg, extra), where, message, tr, detail)


def is_grouping(site):
    return any(v == ("obs", "outer") for v in site.roles.values())


def decisions_on(path, pred):
    return [e for e in path.trace if e.k == "decision" and any(pred(x) for x in subterms(e.test))]


def reached_by_site(ctx, mux_only=False):
    """{site: functions the path enumeration enters from the subscribe function or a handler of the site}: the
    handlers themselves, helpers they call, per-event functions chosen through a dispatch table, and handlers handed to
    a shared operator template by its callers."""
    key = ("reached", mux_only, tuple(sorted(ctx.scope)) if ctx.scope else None)
    if key in ctx._cache:
        return ctx._cache[key]
    from ..model import valuations
    from ..terms import KINDS
    res = {}
    for site in (ctx.mux_sites() if mux_only else ctx.sites):
        out = res.setdefault(site, set())
        out.add(site.subscribe_fn)
        for sub in site.subscriptions:
            for which, h in sub.handlers.items():
                if h.how != "fn":
                    continue
                spec = h.spec
                out.add(spec.fn)
                if mux_only and which != "on_next":
                    continue
                kinds = KINDS if (site.ctor != "create" and which == "on_next") else (None,)
                for kind in kinds:
                    for cfg in valuations(ctx.space(spec)):
                        for p in ctx.paths(spec, kind, cfg):
                            for e in p.trace:
                                if e.k == "inline":
                                    out.add(e.fn)
    ctx._cache[key] = res
    return res


def reached_functions(ctx, mux_only=False):
    out = set()
    for fns in reached_by_site(ctx, mux_only).values():
        out |= fns
    return out


def settled_params(ctx, rel, qualname):
    """{parameter: literal value} for the parameters of the function rel::qualname that have a literal default (or a module constant
    bound once to a literal) which every call of that function inside rxsci leaves alone or repeats literally.  Such a parameter is a
    named constant as far as the repository is concerned: a rule may read it as its value.  A parameter some caller sets to anything
    else stays symbolic (the rule then sees the handler's own tests on it)."""
    import ast as _ast
    from ..loader import dotted_name
    m, fn = ctx.function(rel, qualname)

    def literal(mod, node):
        try:
            return True, _ast.literal_eval(node)
        except Exception:
            pass
        dn = dotted_name(node) if isinstance(node, (_ast.Name, _ast.Attribute)) else None
        if dn:
            ref = ctx.program.resolve_dotted(mod, dn)
            if ref and ref[0] == "assign" and ref[1].bind_count.get(dn.split(".")[-1], 0) == 1:
                try:
                    return True, _ast.literal_eval(ref[2])
                except Exception:
                    return False, None
        return False, None
    a = fn.args
    pos = [x.arg for x in a.posonlyargs + a.args]
    cand = {}
    for arg, d in list(zip(a.args[len(a.args) - len(a.defaults):], a.defaults)) + [(x, d) for x, d in zip(a.kwonlyargs, a.kw_defaults) if d is not None]:
        ok, v = literal(m, d)
        if ok:
            cand[arg.arg] = v
    if not cand:
        return {}
    target = "%s.%s" % (m.name, qualname)
    for rel2, m2 in ctx.program.by_relpath.items():
        for n in _ast.walk(m2.tree):
            if not isinstance(n, _ast.Call):
                continue
            dn = dotted_name(n.func)
            if dn is None or dn.split(".")[-1] != qualname.split(".")[-1]:
                continue
            ref = ctx.program.resolve_dotted(m2, dn)
            if not ref or ref[0] != "def" or ref[2] is not fn:
                continue
            given = {}
            for k, x in enumerate(n.args):
                if isinstance(x, _ast.Starred):
                    return {}
                if k < len(pos):
                    given[pos[k]] = x
            for kw in n.keywords:
                if kw.arg is None:
                    return {}
                given[kw.arg] = kw.value
            for name in list(cand):
                if name in given:
                    ok, v = literal(m2, given[name])
                    if not ok or v != cand[name]:
                        del cand[name]
    return cand


def with_settled(term, consts):
    """the term with the settled parameters replaced by their literal value"""
    if not consts or not isinstance(term, tuple):
        return term
    if term and term[0] in ("param", "free", "arg") and len(term) > 1 and term[1] in consts:
        return ("const", consts[term[1]])
    return tuple(with_settled(x, consts) if isinstance(x, tuple) else x for x in term)


def subscribe_inits(site):
    """{closure variable name: AST node of its initial value} for the state a subscribe function creates for its handlers: plain
    `x = expr` statements of its body, and the slots of a state holder created there -- `h = types.SimpleNamespace(a=expr)` gives
    'h.a', `h = [expr]` gives 'h[0]', `h = Record()` (a plain local / module class with class-level defaults or an __init__ assigning to
    self) gives 'h.attr', and a following `h.attr = expr` statement (the executor names holder slots the same way)."""
    import ast as _ast
    m, fn = site.module, site.subscribe_fn
    out = {}
    if fn is None:
        return out
    for s in fn.body:
        if isinstance(s, _ast.Assign) and len(s.targets) == 1 and isinstance(s.targets[0], _ast.Name):
            name, v = s.targets[0].id, s.value
            out[name] = v
            if isinstance(v, _ast.Call) and not v.args and _ast.unparse(v.func) in ("types.SimpleNamespace", "SimpleNamespace"):
                for k in v.keywords:
                    if k.arg:
                        out["%s.%s" % (name, k.arg)] = k.value
            elif isinstance(v, _ast.List) and len(v.elts) == 1:
                out["%s[0]" % name] = v.elts[0]
            elif isinstance(v, _ast.Call) and isinstance(v.func, _ast.Name) and not v.args and not v.keywords:
                cls = [c for c in _ast.walk(fn) if isinstance(c, _ast.ClassDef) and c.name == v.func.id] or \
                      [c for c in m.tree.body if isinstance(c, _ast.ClassDef) and c.name == v.func.id]
                if len(cls) == 1:
                    for b in cls[0].body:
                        if isinstance(b, _ast.Assign) and len(b.targets) == 1 and isinstance(b.targets[0], _ast.Name) and b.targets[0].id != "__slots__":
                            out["%s.%s" % (name, b.targets[0].id)] = b.value
                        elif isinstance(b, _ast.FunctionDef) and b.name == "__init__" and b.args.args:
                            me = b.args.args[0].arg
                            for x in b.body:
                                if isinstance(x, _ast.Assign) and len(x.targets) == 1 and isinstance(x.targets[0], _ast.Attribute) \
                                        and isinstance(x.targets[0].value, _ast.Name) and x.targets[0].value.id == me:
                                    out["%s.%s" % (name, x.targets[0].attr)] = x.value
        elif isinstance(s, _ast.Assign) and len(s.targets) == 1 and isinstance(s.targets[0], _ast.Attribute) and isinstance(s.targets[0].value, _ast.Name):
            out["%s.%s" % (s.targets[0].value.id, s.targets[0].attr)] = s.value
    return out
