"""C08 -- tee_map: TM-1..TM-4 and the sibling agreement of the two joins."""
from __future__ import annotations

import ast

from ..classify import KEYIDX, SAME, linear_index
from ..engine import Ctx, Finding, RuleResult, cfg_str, trace_of
from ..loader import AnalysisError
from ..model import valuations
from ..terms import EV, EVITEM, EVKEY, show, subterms
from .common import Emission, emissions, mk_finding, mux_emissions, summary

REL = "rxsci/operators/tee_map.py"


def _normal(p):
    return not any(e.d.get("raised") for e in p.trace) and p.outcome != "raise"


def rule_tm123(ctx: Ctx) -> RuleResult:
    r = RuleResult("TM-1..3", "tee_map: one published source shared by all branches, connected after every branch is subscribed")
    # TM-1 in both subscribe functions
    for suffix, knd in (("_process_many.subscribe_mux", "mux"), ("_process_many.subscribe", "create")):
        site = ctx.site(REL, suffix, kind=knd)
        r.instances += 1
        m = site.module
        for p in ctx.fn_paths(m, site.subscribe_fn, roles=site.roles, max_iter=2):
            r.paths += 1
            seq = [e for e in p.trace if e.k == "call" and e.d.get("method") in ("subscribe", "subscribe_", "connect")]
            subs = [k for k, e in enumerate(seq) if e.method in ("subscribe", "subscribe_")]
            conns = [k for k, e in enumerate(seq) if e.method == "connect"]
            ok = len(conns) == 1 and all(k < conns[0] for k in subs)
            r.ob(ok, lambda: Finding("TM-1", "%s{connect-last}" % site.name, m.where(site.subscribe_fn),
                                     "the shared source must be connected exactly once, after all branches are subscribed "
                                     "(a branch subscribed after connect() misses the first events); order on this path: %s" % [e.method for e in seq], trace_of(p)))
            if conns:
                c = seq[conns[0]]
                r.ob(c.base[0] == "param" and c.base[1] == "connectable", lambda: Finding(
                    "TM-1", "%s{connect-target}" % site.name, c.where(), "connect() is called on %s instead of the shared connectable" % show(c.base)))
            # every branch subscribed: loop over range(n), n = len(sources), subscribing sources[i]
            loops = [e for e in p.trace if e.k == "loopiter"]
            for e in seq:
                if e.method in ("subscribe", "subscribe_"):
                    b = e.base
                    loops_ = {x.loop: x.iter for x in p.trace if x.k == "loopiter"}
                    ok = b[0] == "sub" and b[1][0] == "free" and b[1][1] == "sources" and b[2][0] == "loopvar"
                    # for i, source in enumerate(sources) / for source in sources
                    if not ok and b[0] == "sub" and b[1][0] == "loopvar" and b[2] == ("const", 1):
                        it_ = loops_.get(b[1][1])
                        ok = it_ is not None and it_[0] == "call" and it_[1] == ("builtin", "enumerate") and it_[2] and it_[2][0][0] == "free" and it_[2][0][1] == "sources"
                    if not ok and b[0] == "loopvar":
                        it_ = loops_.get(b[1])
                        ok = it_ is not None and it_[0] == "free" and it_[1] == "sources"
                    r.ob(ok, lambda e=e: Finding("TM-1", "%s{branch-subscription}" % site.name, e.where(),
                                                 "a subscription is made on %s instead of sources[<branch index>]" % show(e.base)))
            for e in loops:
                it = e.iter
                ok = it is not None and it[0] == "call" and it[1] == ("builtin", "range") and len(it[2]) == 1 and \
                    it[2][0][0] == "call" and it[2][0][1] == ("builtin", "len") and it[2][0][2][0][0] == "free" and it[2][0][2][0][1] == "sources"
                ok = ok or (it is not None and it[0] == "call" and it[1] == ("builtin", "enumerate") and it[2] and it[2][0][0] == "free" and it[2][0][1] == "sources")
                ok = ok or (it is not None and it[0] == "free" and it[1] == "sources")
                r.ob(ok, lambda e=e: Finding("TM-1", "%s{all-branches}" % site.name, e.where(),
                                             "the subscription loop runs over %s instead of all len(sources) branches" % show(e.iter)))
    # TM-2 / TM-3 in tee_map._tee_map
    m, fn = ctx.function(REL, "tee_map._tee_map")
    r.instances += 1
    paths = ctx.fn_paths(m, fn, inline=False)
    arms = {}
    for p in paths:
        r.paths += 1
        d = [e for e in p.trace if e.k == "decision"]
        if len(d) != 1 or d[0].test[0] != "call" or d[0].test[1] != ("builtin", "isinstance"):
            raise AnalysisError("tee_map._tee_map: expected the single dispatch isinstance(source, rs.MuxObservable)")
        arm = "mux" if d[0].outcome else "plain"
        conn = [e for e in p.trace if e.k == "assign" and e.name == "connectable"]
        if len(conn) != 1:
            raise AnalysisError("tee_map._tee_map: connectable is not assigned exactly once per arm")
        c = conn[0].value
        ok = c[0] == "mcall" and c[1] == ("arg", "source") and c[2] == "pipe" and len(c[3]) >= 1 and \
            c[3][0][0] == "call" and c[3][0][1] == ("glob", "rx.operators.publish")
        if arm == "mux":
            ok = ok and len(c[3]) == 2 and c[3][1][0] == "call" and c[3][1][1][0] == "func" and c[3][1][1][1].name == "cast_as_mux_connectable"
        else:
            ok = ok and len(c[3]) == 1
        r.ob(ok, lambda arm=arm, c=c: Finding("TM-3", "%s::tee_map._tee_map{publish-%s}" % (REL, arm), m.where(conn[0].node),
                                              "the shared source of the %s arm must be source.pipe(ops.publish()%s); it is %s" % (
                                                  arm, ", rs.cast_as_mux_connectable()" if arm == "mux" else "", show(c))))
        v = p.value
        ok = v is not None and v[0] == "call" and v[1][0] == "func" and v[1][1].name == "_process_many"
        if ok:
            kws = {a[1]: a[2] for a in v[2] if a[0] == "kw"}
            ok = kws.get("connectable") == c
            stars = [a for a in v[2] if a[0] == "star"]
            ok = ok and len(stars) == 1 and stars[0][1][0] == "comp" and c in stars[0][1][2]
        r.ob(ok, lambda: Finding("TM-2", "%s::tee_map._tee_map{same-connectable}" % REL, m.where(fn),
                                 "every branch must be built on the very connectable that _process_many connects; the call is %s" % (show(v) if v else None)))
        arms[arm] = True
    # the comprehension applies each branch operator to the connectable
    comps = [n for n in ast.walk(fn) if isinstance(n, ast.ListComp)]
    ok = len(comps) == 1 and isinstance(comps[0].elt, ast.Call) and isinstance(comps[0].elt.func, ast.Name) and \
        isinstance(comps[0].generators[0].target, ast.Name) and comps[0].elt.func.id == comps[0].generators[0].target.id and \
        [ast.unparse(a) for a in comps[0].elt.args] == ["connectable"] and ast.unparse(comps[0].generators[0].iter) == "args" and \
        not comps[0].generators[0].ifs
    r.ob(ok, lambda: Finding("TM-2", "%s::tee_map._tee_map{branches}" % REL, m.where(fn),
                             "the branch list must be [arg(connectable) for arg in args] (every branch, each applied to the shared source)"))
    r.ob(set(arms) == {"mux", "plain"}, lambda: Finding("TM-3", "%s::tee_map._tee_map{arms}" % REL, m.where(fn), "one of the two arms vanished"))
    r.require_instances(3)
    return r


# ----------------------------------------------------------------------
def _slice_of_key(t, n_name="n"):
    """Is t == <table>[key[0]*n : key[0]*n + n] ?  returns table name"""
    if t[0] != "sub" or t[1][0] != "free" or t[2][0] != "slice":
        return None
    lo, hi = t[2][1], t[2][2]
    li = linear_index(lo) if lo is not None else None
    if li is None or li[0] != "scaled" or li[2] != ("const", 0):
        return None
    D = li[1]
    if D[0] != "free" or D[1] != n_name:
        return None
    if hi != ("binop", "Add", lo, D):
        return None
    return t[1][1]


def rule_tm4(ctx: Ctx):
    r = RuleResult("TM-4", "tee_map join skeleton (mux): zip emits the key's full slice once all n branches produced and clears the n flags; "
                           "combine emits on every branch item; merge forwards")
    ra = RuleResult("AG-3", "tee_map: multiplexed and plain joins agree per join mode")
    site = ctx.site(REL, "_process_many.subscribe_mux", kind="mux")
    spec = site.handler_specs("on_next")[0]
    psite = ctx.site(REL, "_process_many.subscribe", kind="create")
    pspec = psite.handler_specs("on_next")[0]
    branch = next(iter(spec.bound.values()))
    pbranch = next(iter(pspec.bound.values()))
    r.instances += 1
    ra.instances += 1
    space = ctx.space(spec)
    for cfg in valuations(space):
        zip_, comb = cfg.get("zip") == "True", cfg.get("combine") == "True"
        if zip_ and comb:
            continue       # excluded by tee_map(): join is one of zip / merge / combine_latest
        mode = "zip" if zip_ else ("combine" if comb else "merge")
        mux_sk = set()
        for p in ctx.paths(spec, "Next", cfg, max_iter=1):
            r.paths += 1
            r.groups.add((spec.qualname, mode))
            if not _normal(p):
                continue
            if any(e.k == "loopexit" and e.n == 0 for e in p.trace):
                continue
            ems = mux_emissions(p)
            data_writes = [e for e in p.trace if e.k == "substore" and e.base[0] == "free" and not (e.value[0] == "const" and e.value[1] in (None, False))]
            clears = [e for e in p.trace if e.k == "substore" and e.base[0] == "free" and e.value[0] == "const" and e.value[1] in (None, False)]
            if mode == "merge":
                ok = len(ems) == 1 and ems[0].eff.arg == EV and not data_writes
                r.ob(ok, lambda: mk_finding("TM-4", spec, "Next", cfg, p, "merge must forward each branch item unchanged; it does: %s" % summary(p), extra="merge"))
                mux_sk.add(("forward",))
                continue
            # slot writes: the value table receives the item, the flag table True (names are discovered, not assumed)
            wq = [e for e in data_writes if e.value == EVITEM]
            wf = [e for e in data_writes if e.value == ("const", True)]
            QN = wq[0].base[1] if wq else None
            FN = wf[0].base[1] if wf else None
            def own_slot(e):
                li = linear_index(e.index)
                return li is not None and li[0] == "scaled" and li[1][0] == "free" and li[1][1] == "n" and li[2] == branch
            ok = len(wq) == 1 and own_slot(wq[0]) and wq[0].value == EVITEM and len(wf) == 1 and own_slot(wf[0]) and wf[0].value == ("const", True)
            r.ob(ok, lambda: mk_finding("TM-4", spec, "Next", cfg, p,
                                        "a branch item must be stored in the branch's own slot key[0]*n + branch (value and has_next flag); writes: %s" % [e.brief() for e in data_writes], extra="slot"))
            fired = bool(ems)
            if mode == "zip":
                gate = [e for e in p.trace if e.k == "decision" and e.test[0] == "call" and e.test[1] == ("builtin", "all")]
                ok = len(gate) == 1 and FN is not None and _slice_of_key(gate[0].test[2][0]) == FN
                r.ob(ok, lambda: mk_finding("TM-4", spec, "Next", cfg, p, "zip must fire on all(has_next[key slice of n flags]); gate: %s" % [show(e.test) for e in gate], extra="zip-gate"))
                if ok:
                    r.ob(gate[0].outcome == fired, lambda: mk_finding("TM-4", spec, "Next", cfg, p, "zip emission does not follow its gate: %s" % summary(p), extra="zip-fire"))
            else:
                r.ob(fired, lambda: mk_finding("TM-4", spec, "Next", cfg, p, "combine_latest must emit on every branch item", extra="combine-fire"))
            if fired:
                ok = len(ems) == 1 and ems[0].event is not None and ems[0].event.kind == "Next" and ems[0].event.keyclass == SAME
                pay = ems[0].event.payload if ok else None
                ok = ok and pay[0] == "call" and pay[1] == ("builtin", "tuple") and QN is not None and _slice_of_key(pay[2][0]) == QN
                r.ob(ok, lambda: mk_finding("TM-4", spec, "Next", cfg, p,
                                            "the joined item must be tuple(queue[key slice of n values]) for the event's key; emitted: %s" % (show(pay) if pay else summary(p)), extra="tuple"))
                if mode == "zip":
                    cf = [e for e in clears if e.base[1] == FN]
                    loops = {e.loop: e.iter for e in p.trace if e.k == "loopiter"}
                    def all_slots(e):
                        li = linear_index(e.index, loops)
                        if li is None or li[0] != "scaled" or not (li[1][0] == "free" and li[1][1] == "n"):
                            return False
                        if li[2] == ("fullrange", li[1]):
                            return True
                        return li[2][0] == "loopvar" and loops.get(li[2][1]) == ("call", ("builtin", "range"), (li[1],))
                    r.ob(bool(cf) and all(all_slots(e) for e in cf), lambda: mk_finding(
                        "TM-4", spec, "Next", cfg, p, "after a zip emission the has_next flags of all n branches must be cleared; clears: %s" % [e.brief() for e in cf], extra="zip-clear"))
            mux_sk.add((mode, "fire" if fired else "wait"))
        # plain sibling
        plain_sk = set()
        pcfgs = [c for c in valuations(ctx.space(pspec)) if c.get("zip") == cfg.get("zip") and c.get("combine", cfg.get("combine")) == cfg.get("combine")]
        for pcfg in pcfgs:
            for p in ctx.paths(pspec, None, pcfg, max_iter=1):
                ra.paths += 1
                if not _normal(p) or any(e.k == "loopexit" and e.n == 0 for e in p.trace):
                    continue
                ems = [m for m in emissions(p) if m.method == "on_next"]
                if mode == "merge":
                    ok = len(ems) == 1 and ems[0].eff.arg == EV
                    ra.ob(ok, lambda: mk_finding("AG-3", pspec, None, pcfg, p, "plain merge must forward the branch item; it does: %s" % summary(p), extra="merge"))
                    plain_sk.add(("forward",))
                    continue
                w = [e for e in p.trace if e.k == "substore" and e.base[0] == "free" and e.value == EV]
                PQN = w[0].base[1] if w else None
                pf = [e for e in p.trace if e.k == "substore" and e.base[0] == "free" and e.value == ("const", True)]
                PFN = pf[0].base[1] if pf else None
                ok = len(w) == 1 and w[0].index == pbranch and w[0].value == EV
                ra.ob(ok, lambda: mk_finding("AG-3", pspec, None, pcfg, p, "plain %s must store the item in queue[branch]; writes: %s" % (mode, [e.brief() for e in w]), extra="slot"))
                fired = bool(ems)
                if fired:
                    pay = ems[0].eff.arg
                    ok = len(ems) == 1 and pay[0] == "call" and pay[1] == ("builtin", "tuple") and pay[2][0][0] == "free" and pay[2][0][1] == PQN
                    ra.ob(ok, lambda: mk_finding("AG-3", pspec, None, pcfg, p, "plain %s must emit tuple(queue); it emits %s" % (mode, show(pay)), extra="tuple"))
                if mode == "zip":
                    gate = [e for e in p.trace if e.k == "decision" and e.test[0] == "call" and e.test[1] == ("builtin", "all")]
                    ok = len(gate) == 1 and gate[0].test[2][0][0] == "free" and gate[0].test[2][0][1] == PFN and gate[0].outcome == fired
                    ra.ob(ok, lambda: mk_finding("AG-3", pspec, None, pcfg, p, "plain zip must fire exactly when all(has_next)", extra="zip-gate"))
                    if fired:
                        cf = [e for e in p.trace if e.k == "substore" and e.base[0] == "free" and e.base[1] == PFN and e.value == ("const", False)]
                        ra.ob(bool(cf) and all(e.index[0] == "loopvar" for e in cf), lambda: mk_finding(
                            "AG-3", pspec, None, pcfg, p, "plain zip must clear all has_next flags after firing", extra="zip-clear"))
                plain_sk.add((mode, "fire" if fired else "wait"))
        ra.groups.add(("tee_map siblings", mode))
        ra.ob(mux_sk == plain_sk, lambda: Finding("AG-3", "tee_map mux/plain{%s}" % mode, pspec.module.where(pspec.fn),
                                                  "join mode %s: the multiplexed join behaves as %s, the plain join as %s" % (mode, sorted(mux_sk), sorted(plain_sk))))
    # plain completion: on_completed once every branch is done
    for spec_d in psite.handler_specs("on_completed"):
        for p in ctx.paths(spec_d, None, {}):
            ra.paths += 1
            ems = emissions(p)
            gate = [e for e in p.trace if e.k == "decision" and e.test[0] == "call" and e.test[1] == ("builtin", "all")]
            w = [e for e in p.trace if e.k == "substore" and e.base[0] == "free" and e.value == ("const", True)]
            ok = len(gate) == 1 and bool(w) and (len(ems) == 1 and ems[0].method == "on_completed") == bool(gate[0].outcome) and (gate[0].outcome or not ems)
            ra.ob(ok, lambda: mk_finding("AG-3", spec_d, None, {}, p, "the plain tee_map must complete exactly when all branches are done; it does: %s" % summary(p), extra="done"))
    r.require_instances(1)
    return [r, ra]


def rule_tm5(ctx: Ctx) -> RuleResult:
    """TM-5: the join table grows to (key[0] + 1) * n slots before a key is used."""
    from .poly import RF, Poly, rf, strip_uid
    r = RuleResult("TM-5", "tee_map join table: at key creation the tables are grown, in lock-step, to (key[0] + 1) * n slots")
    site = ctx.site(REL, "_process_many.subscribe_mux", kind="mux")
    spec = site.handler_specs("on_next")[0]
    branch = next(iter(spec.bound.values()))
    r.instances += 1
    grew = False
    for cfg in valuations(ctx.space(spec)):
        zip_, comb = cfg.get("zip") == "True", cfg.get("combine") == "True"
        if not (zip_ or comb) or (zip_ and comb):
            continue
        for p in ctx.paths(spec, "Create", cfg, max_iter=1):
            r.paths += 1
            its = [e for e in p.trace if e.k == "loopiter"]
            fw = [m for m in mux_emissions(p) if m.event is not None and m.event.kind == "Create"]
            if not fw:
                continue
            r.groups.add((spec.qualname, cfg_str(cfg), len(its)))
            if not its:
                continue
            grew = True
            it = its[0]
            rng = it.iter
            ok = rng is not None and rng[0] == "call" and rng[1] == ("builtin", "range") and len(rng[2]) == 1
            cnt = rng[2][0] if ok else None
            good = False
            if cnt is not None:
                q = rf(strip_uid(cnt))
                n = RF(Poly.atom(("free", "n", site.short)))
                n_atoms = [x for x in subterms(cnt) if x[0] == "free" and x[1] == "n"]
                from .st import join_tables
                tables = join_tables(ctx, spec)
                lens = [x for x in subterms(strip_uid(cnt)) if x[0] == "call" and x[1] == ("builtin", "len") and x[2][0][0] == "free" and x[2][0][1] in tables]
                if q is not None and n_atoms and len(lens) == 1:
                    N = RF(Poly.atom(strip_uid(n_atoms[0])))
                    K = RF(Poly.atom(strip_uid(KEYIDX)))
                    want = K.add(RF(Poly.const(1))).mul(N).add(RF(Poly.atom(lens[0])), -1)
                    good = q.equals(want)
            r.ob(good, lambda: mk_finding("TM-5", spec, "Create", cfg, p,
                                          "the join tables must grow by (key[0] + 1) * n - len(table) slots so that the n slots of the new key exist; "
                                          "the loop runs over %s" % (show(rng) if rng else None), node=it.node, extra="growth"))
            pos = p.trace.index(it)
            end = next((k for k in range(pos + 1, len(p.trace)) if p.trace[k].k in ("loopiter", "loopexit")), len(p.trace))
            apps = {}
            for e in p.trace[pos:end]:
                if e.k == "mutate" and e.method == "append" and e.base[0] == "free":
                    apps.setdefault(e.base[1], []).append(e)
            from .st import join_tables
            r.ob(set(apps) == join_tables(ctx, spec) and len(apps) == 2 and all(len(v) == 1 for v in apps.values()), lambda: mk_finding(
                "TM-5", spec, "Create", cfg, p, "each growth step must append exactly one slot to queue and one to has_next; it appends %s" % {k: len(v) for k, v in apps.items()},
                node=it.node, extra="lock-step"))
            guard = [e for e in p.trace if e.k == "decision" and any(x == branch for x in subterms(e.test))]
            r.ob(bool(guard), lambda: mk_finding("TM-5", spec, "Create", cfg, p, "growth is not tied to the single branch that forwards the creation", extra="guard"))
    r.ob(grew, lambda: Finding("TM-5", "%s{growth}" % spec.qualname, spec.module.where(spec.fn), "the join tables are never grown when a key is created"))
    r.require_instances(1)
    return r
