"""C08 -- tee_map: TM-1..TM-4 and the sibling agreement of the two joins."""
from __future__ import annotations

import ast

from ..classify import KEYIDX, SAME, linear_index
from ..engine import Ctx, Finding, RuleResult, cfg_str, trace_of
from ..loader import AnalysisError
from ..model import valuations
from ..terms import EV, EVITEM, EVKEY, show, subterms
from .common import Emission, emissions, mk_finding, mux_emissions, summary

REL = "rxsci/operators/tee_map.py"


def _normal(p):
    return not any(e.d.get("raised") for e in p.trace) and p.outcome != "raise"


def _pipe_chain(t):
    """(root, [stage terms]) of  root.pipe(a).pipe(b, c)"""
    stages = []
    while t[0] == "mcall" and t[2] == "pipe":
        stages = [a for a in t[3] if a[0] != "kw"] + stages
        t = t[1]
    return t, stages


def _stage_name(t):
    if t[0] == "call" and t[1][0] == "glob":
        return t[1][1]
    if t[0] == "call" and t[1][0] == "func":
        return "%s.%s" % (t[1][2].name, t[1][1].name)
    return show(t)[:40]


def rule_tm123(ctx: Ctx) -> RuleResult:
    from .tee import tee_model
    from ..loader import dotted_name
    r = RuleResult("TM-1..3", "tee_map: one published source shared by all branches, connected after every branch is subscribed")
    factories = set()
    connect_params = set()
    # TM-1 in both subscribe functions
    for suffix, knd in (("_process_many.subscribe_mux", "mux"), ("_process_many.subscribe", "create")):
        site = ctx.site(REL, suffix, kind=knd)
        r.instances += 1
        m = site.module
        tm = tee_model(ctx, site)
        top = site.subscribe_fn
        while m.enclosing_function(top) is not None:
            top = m.enclosing_function(top)
        factories.add(top)
        r.ob(tm.problem is None, lambda: Finding("TM-1", "%s{branch-subscription}" % site.name, m.where(site.subscribe_fn),
                                                 "every subscription must be made on one branch of the tee: %s" % tm.problem))
        for p in ctx.fn_paths(m, site.subscribe_fn, roles=site.roles, max_iter=2):
            r.paths += 1
            seq = [e for e in p.trace if e.k == "call" and e.d.get("method") in ("subscribe", "subscribe_", "connect")]
            subs = [k for k, e in enumerate(seq) if e.method in ("subscribe", "subscribe_")]
            conns = [k for k, e in enumerate(seq) if e.method == "connect"]
            ok = len(conns) == 1 and all(k < conns[0] for k in subs)
            r.ob(ok, lambda: Finding("TM-1", "%s{connect-last}" % site.name, m.where(site.subscribe_fn),
                                     "the shared source must be connected exactly once, after all branches are subscribed "
                                     "(a branch subscribed after connect() misses the first events); order on this path: %s" % [e.method for e in seq], trace_of(p)))
            if conns:
                c = seq[conns[0]]
                r.ob(c.base[0] == "param", lambda: Finding(
                    "TM-1", "%s{connect-target}" % site.name, c.where(), "connect() is called on %s instead of the shared connectable handed to the join" % show(c.base)))
                if c.base[0] == "param":
                    connect_params.add(c.base[1])
            if tm.problem is not None:
                continue
            # every branch subscribed: the loop / comprehension that subscribes runs once per branch
            loops = {e.loop: e for e in p.trace if e.k == "loopiter"}
            for e in seq:
                if e.method in ("subscribe", "subscribe_"):
                    ok = tm.element_of(e.base, loops, e.d.get("comp_iters")) == tm.branches
                    r.ob(ok, lambda e=e: Finding("TM-1", "%s{branch-subscription}" % site.name, e.where(),
                                                 "a subscription is made on %s instead of a branch of the loop over all branches" % show(e.base)))
                    for target, it in (e.d.get("comp_iters") or ()):
                        r.ob(tm.over_all_branches(it), lambda e=e, it=it: Finding(
                            "TM-1", "%s{all-branches}" % site.name, e.where(), "the subscriptions run over %s instead of all branches" % show(it)))
            for e in loops.values():
                inner = [x for x in p.trace if x.k == "call" and x.d.get("method") in ("subscribe", "subscribe_") and not x.d.get("in_comp")]
                if not inner:
                    continue
                r.ob(tm.over_all_branches(e.iter), lambda e=e: Finding("TM-1", "%s{all-branches}" % site.name, e.where(),
                                                                       "the subscription loop runs over %s instead of all branches" % show(e.iter)))
    # TM-2 / TM-3 in the function that builds the join: it calls the factory of the two sites
    if len(factories) != 1 or len(connect_params) != 1:
        raise AnalysisError("tee_map: the two joins are not built by one factory connecting one parameter (%d factories, parameters %s)" % (
            len(factories), sorted(connect_params)))
    factory = next(iter(factories))
    cparam = next(iter(connect_params))
    m = ctx.program.module(REL)
    callers = []
    for n in ast.walk(m.tree):
        if isinstance(n, ast.Call) and isinstance(n.func, ast.Name) and n.func.id == factory.name and m.enclosing_function(n) is not None:
            callers.append((m.enclosing_function(n), n))
    if len(callers) != 1:
        raise AnalysisError("tee_map: expected one call of %s, found %d" % (factory.name, len(callers)))
    fn, call_node = callers[0]
    r.instances += 1
    fpos = [a.arg for a in factory.args.posonlyargs + factory.args.args]
    src_param = ("arg", m.scopes[fn].params[0]) if m.scopes[fn].params else None
    arms = {}
    for p in ctx.fn_paths(m, fn, inline=False):
        r.paths += 1
        if p.outcome != "return":
            continue
        d = [e for e in p.trace if e.k == "decision" and e.test[0] == "call" and e.test[1] == ("builtin", "isinstance")
             and len(e.test[2]) == 2 and e.test[2][0] == src_param]
        # the arm of a path: 'mux' when some isinstance(source, <MuxObservable or a class of that module tree>) held, 'plain' when
        # isinstance(source, rs.MuxObservable) was refuted; whatever else the path tested, the connectable obligation below is the same
        def _cls(e):
            return show(e.test[2][1])
        base = [e for e in d if _cls(e).endswith("MuxObservable")]
        if len(base) > 1 or (not base and not [e for e in d if e.outcome]):
            raise AnalysisError("tee_map: cannot tell the arm of a path of %s from its isinstance tests (%s)" % (
                m.scopes[fn].qualname, ", ".join("%s=%s" % (_cls(e), e.outcome) for e in d)))
        arm = "mux" if [e for e in d if e.outcome] else "plain"
        v = p.value
        ok = v is not None and v[0] == "call" and v[1] == ("func", factory, m)
        c = None
        if ok:
            kws = {a[1]: a[2] for a in v[2] if a[0] == "kw"}
            plain = [a for a in v[2] if a[0] not in ("kw", "star")]
            c = kws.get(cparam)
            if c is None and cparam in fpos and fpos.index(cparam) < len(plain) and not [a for a in v[2] if a[0] == "star"]:
                c = plain[fpos.index(cparam)]
        r.ob(c is not None, lambda: Finding("TM-2", "%s::tee_map._tee_map{same-connectable}" % REL, m.where(fn),
                                            "the join must be built by %s(..., %s=<the shared source>); the call is %s" % (factory.name, cparam, show(v) if v else None)))
        if c is None:
            continue
        root, stages = _pipe_chain(c)
        # source.pipe(*stages) with  stages = [...]; stages.append(x): the list as it stands at the call is the display plus the
        # values appended to it on this path (the executor keeps the display term as the name's value and records the appends)
        if len(stages) == 1 and stages[0][0] == "star" and stages[0][1][0] == "list" and not any(x[0] == "star" for x in stages[0][1][1:]):
            lst = stages[0][1]
            muts = [e for e in p.trace if e.k == "mutate" and e.base == lst]
            if all(e.method == "append" and len(e.args) == 1 and not e.d.get("raised") for e in muts):
                stages = list(lst[1:]) + [e.args[0] for e in muts]
        names = [_stage_name(t) for t in stages]
        want = ["rx.operators.publish"] + (["rxsci.mux.muxconnectable.cast_as_mux_connectable"] if arm == "mux" else [])
        r.ob(root == src_param and names == want, lambda arm=arm, c=c: Finding(
            "TM-3", "%s::tee_map._tee_map{publish-%s}" % (REL, arm), m.where(call_node),
            "the shared source of the %s arm must be source.pipe(ops.publish()%s); it is %s" % (
                arm, ", rs.cast_as_mux_connectable()" if arm == "mux" else "", show(c))))
        # every branch operator applied to that very connectable
        stars = [a for a in v[2] if a[0] == "star"]
        ok = len(stars) == 1 and stars[0][1][0] == "comp" and len(stars[0][1]) >= 5
        if ok:
            elt, iters = stars[0][1][3], stars[0][1][4]
            ok = elt[0] == "call" and elt[1][0] == "compvar" and tuple(elt[2]) == (c,) and len(iters) == 1 and _all_operators(ctx, m, fn, iters[0])
        r.ob(ok, lambda: Finding("TM-2", "%s::tee_map._tee_map{same-connectable}" % REL, m.where(fn),
                                 "every branch must be built on the very connectable that %s connects, one branch per operator given to tee_map; the call is %s" % (
                                     factory.name, show(v) if v else None)))
        arms[arm] = True
    r.ob(set(arms) == {"mux", "plain"}, lambda: Finding("TM-3", "%s::tee_map._tee_map{arms}" % REL, m.where(fn), "one of the two arms vanished"))
    r.require_instances(3)
    return r


def _all_operators(ctx, m, fn, it):
    """the iterable is the tuple of all operators given to tee_map: its *args, or a list computed from each of them"""
    def is_varargs(t):
        if t[0] not in ("param", "arg"):
            return False
        f = fn
        while f is not None:
            if isinstance(f, ast.FunctionDef) and f.args.vararg is not None and f.args.vararg.arg == t[1]:
                return True
            f = m.enclosing_function(f)
        return False
    if is_varargs(it):
        return True
    if it[0] == "comp" and len(it) >= 5 and len(it[4]) == 1 and is_varargs(it[4][0]):
        return " if " not in it[1].split(" for ")[-1]
    if it[0] == "free":
        # branches = [normalise(arg) for arg in args] in an enclosing scope
        f = fn
        while f is not None:
            if m.scopes[f].qualname == it[2]:
                vals = [n.value for n in ast.walk(f) if isinstance(n, ast.Assign) and m.enclosing_function(n) is f
                        and any(isinstance(x, ast.Name) and x.id == it[1] for x in n.targets)]
                if len(vals) == 1 and isinstance(vals[0], ast.ListComp) and len(vals[0].generators) == 1 and not vals[0].generators[0].ifs:
                    g = vals[0].generators[0]
                    return isinstance(g.iter, ast.Name) and is_varargs(("param", g.iter.id))
                if len(vals) == 1 and isinstance(vals[0], ast.Call) and isinstance(vals[0].func, ast.Name) and vals[0].func.id in ("list", "tuple") \
                        and len(vals[0].args) == 1 and isinstance(vals[0].args[0], ast.Name):
                    return is_varargs(("param", vals[0].args[0].id))
                # branches = tuple(normalise(arg) for arg in args)
                if len(vals) == 1 and isinstance(vals[0], ast.Call) and isinstance(vals[0].func, ast.Name) and vals[0].func.id in ("list", "tuple") \
                        and len(vals[0].args) == 1 and isinstance(vals[0].args[0], (ast.GeneratorExp, ast.ListComp)) \
                        and len(vals[0].args[0].generators) == 1 and not vals[0].args[0].generators[0].ifs:
                    g = vals[0].args[0].generators[0]
                    return isinstance(g.iter, ast.Name) and is_varargs(("param", g.iter.id))
                return False
            f = m.enclosing_function(f)
    return False


# ----------------------------------------------------------------------
def _slice_of_key(t, is_count):
    """Is t == <table>[key[0]*n : key[0]*n + n] (n the number of branches)?  returns table name"""
    if t[0] != "sub" or t[1][0] != "free" or t[2][0] != "slice":
        return None
    lo, hi = t[2][1], t[2][2]
    li = linear_index(lo) if lo is not None else None
    if li is None or li[0] != "scaled" or li[2] != ("const", 0):
        return None
    D = li[1]
    if not is_count(D):
        return None
    from .linear import diff
    dd = diff(hi, lo) if hi is not None else None
    if dd is None or dict(dd[0]) != {D: 1} or dd[1] != 0:
        return None
    return t[1][1]


def rule_tm4(ctx: Ctx):
    r = RuleResult("TM-4", "tee_map join skeleton (mux): zip emits the key's full slice once all n branches produced and clears the n flags; "
                           "combine emits on every branch item; merge forwards")
    ra = RuleResult("AG-3", "tee_map: multiplexed and plain joins agree per join mode")
    site = ctx.site(REL, "_process_many.subscribe_mux", kind="mux")
    spec = site.handler_specs("on_next")[0]
    psite = ctx.site(REL, "_process_many.subscribe", kind="create")
    pspec = psite.handler_specs("on_next")[0]
    branch = next(iter(spec.bound.values()))
    pbranch = next(iter(pspec.bound.values()))
    from .tee import tee_model
    tm, ptm = tee_model(ctx, site), tee_model(ctx, psite)
    r.instances += 1
    ra.instances += 1
    space = ctx.space(spec)
    for cfg in valuations(space):
        zip_, comb = cfg.get("zip") == "True", cfg.get("combine") == "True"
        if zip_ and comb:
            continue       # excluded by tee_map(): join is one of zip / merge / combine_latest
        mode = "zip" if zip_ else ("combine" if comb else "merge")
        mux_sk = set()
        for p in ctx.paths(spec, "Next", cfg, max_iter=1):
            r.paths += 1
            r.groups.add((spec.qualname, mode))
            if not _normal(p):
                continue
            if any(e.k == "loopexit" and e.n == 0 for e in p.trace):
                continue
            ems = mux_emissions(p)
            data_writes = [e for e in p.trace if e.k == "substore" and e.base[0] == "free" and not (e.value[0] == "const" and e.value[1] in (None, False))]
            clears = [e for e in p.trace if e.k == "substore" and e.base[0] == "free" and e.value[0] == "const" and e.value[1] in (None, False)]
            if mode == "merge":
                ok = len(ems) == 1 and ems[0].eff.arg == EV and not data_writes
                r.ob(ok, lambda: mk_finding("TM-4", spec, "Next", cfg, p, "merge must forward each branch item unchanged; it does: %s" % summary(p), extra="merge"))
                mux_sk.add(("forward",))
                continue
            # the join table is released before the tuple goes out: the subscriber may feed the next source item from inside that call,
            # and the branches' values for it must land in a table that no longer holds this tuple's flags
            first_emit = next((k for k, e in enumerate(p.trace) if e.k == "emit" and e.method == "on_next"), None)
            late = [e for e in clears if first_emit is not None and p.trace.index(e) > first_emit]
            r.ob(not late, lambda late=late: mk_finding(
                "TM-4", spec, "Next", cfg, p, "the join table is cleared (%s) after the tuple was emitted: an item fed back synchronously by the subscriber is joined "
                "with the stale values of the other branches, and the values the branches produce for it are wiped when the outer call returns" % late[0].brief(),
                node=late[0].node, extra="release-before-emit"))
            # slot writes: the value table receives the item, the flag table True (names are discovered, not assumed)
            wq = [e for e in data_writes if e.value == EVITEM]
            wf = [e for e in data_writes if e.value == ("const", True)]
            QN = wq[0].base[1] if wq else None
            FN = wf[0].base[1] if wf else None
            def own_slot(e):
                li = linear_index(e.index)
                return li is not None and li[0] == "scaled" and tm.is_count(li[1]) and li[2] == branch
            ok = len(wq) == 1 and own_slot(wq[0]) and wq[0].value == EVITEM and len(wf) == 1 and own_slot(wf[0]) and wf[0].value == ("const", True)
            r.ob(ok, lambda: mk_finding("TM-4", spec, "Next", cfg, p,
                                        "a branch item must be stored in the branch's own slot key[0]*n + branch (value and has_next flag); writes: %s" % [e.brief() for e in data_writes], extra="slot"))
            fired = bool(ems)
            if mode == "zip":
                gate = [e for e in p.trace if e.k == "decision" and e.test[0] == "call" and e.test[1] == ("builtin", "all")]
                ok = len(gate) == 1 and FN is not None and _slice_of_key(gate[0].test[2][0], tm.is_count) == FN
                r.ob(ok, lambda: mk_finding("TM-4", spec, "Next", cfg, p, "zip must fire on all(has_next[key slice of n flags]); gate: %s" % [show(e.test) for e in gate], extra="zip-gate"))
                if ok:
                    r.ob(gate[0].outcome == fired, lambda: mk_finding("TM-4", spec, "Next", cfg, p, "zip emission does not follow its gate: %s" % summary(p), extra="zip-fire"))
            else:
                r.ob(fired, lambda: mk_finding("TM-4", spec, "Next", cfg, p, "combine_latest must emit on every branch item", extra="combine-fire"))
            if fired:
                ok = len(ems) == 1 and ems[0].event is not None and ems[0].event.kind == "Next" and ems[0].event.keyclass == SAME
                pay = ems[0].event.payload if ok else None
                ok = ok and pay[0] == "call" and pay[1] == ("builtin", "tuple") and QN is not None and _slice_of_key(pay[2][0], tm.is_count) == QN
                r.ob(ok, lambda: mk_finding("TM-4", spec, "Next", cfg, p,
                                            "the joined item must be tuple(queue[key slice of n values]) for the event's key; emitted: %s" % (show(pay) if pay else summary(p)), extra="tuple"))
                if mode == "zip":
                    cf = [e for e in clears if e.base[1] == FN]
                    loops = {e.loop: e.iter for e in p.trace if e.k == "loopiter"}
                    def all_slots(e):
                        li = linear_index(e.index, loops)
                        if li is None or li[0] != "scaled" or not tm.is_count(li[1]):
                            return False
                        if li[2] == ("fullrange", li[1]):
                            return True
                        return li[2][0] == "loopvar" and loops.get(li[2][1]) == ("call", ("builtin", "range"), (li[1],))
                    r.ob(bool(cf) and all(all_slots(e) for e in cf), lambda: mk_finding(
                        "TM-4", spec, "Next", cfg, p, "after a zip emission the has_next flags of all n branches must be cleared; clears: %s" % [e.brief() for e in cf], extra="zip-clear"))
            mux_sk.add((mode, "fire" if fired else "wait"))
        # plain sibling
        plain_sk = set()
        pcfgs = [c for c in valuations(ctx.space(pspec)) if c.get("zip") == cfg.get("zip") and c.get("combine", cfg.get("combine")) == cfg.get("combine")]
        for pcfg in pcfgs:
            for p in ctx.paths(pspec, None, pcfg, max_iter=1):
                ra.paths += 1
                if not _normal(p) or any(e.k == "loopexit" and e.n == 0 for e in p.trace):
                    continue
                ems = [m for m in emissions(p) if m.method == "on_next"]
                if mode == "merge":
                    ok = len(ems) == 1 and ems[0].eff.arg == EV
                    ra.ob(ok, lambda: mk_finding("AG-3", pspec, None, pcfg, p, "plain merge must forward the branch item; it does: %s" % summary(p), extra="merge"))
                    plain_sk.add(("forward",))
                    continue
                w = [e for e in p.trace if e.k == "substore" and e.base[0] == "free" and e.value == EV]
                PQN = w[0].base[1] if w else None
                pf = [e for e in p.trace if e.k == "substore" and e.base[0] == "free" and e.value == ("const", True)]
                PFN = pf[0].base[1] if pf else None
                ok = len(w) == 1 and w[0].index == pbranch and w[0].value == EV
                ra.ob(ok, lambda: mk_finding("AG-3", pspec, None, pcfg, p, "plain %s must store the item in queue[branch]; writes: %s" % (mode, [e.brief() for e in w]), extra="slot"))
                fired = bool(ems)
                if fired:
                    pay = ems[0].eff.arg
                    ok = len(ems) == 1 and pay[0] == "call" and pay[1] == ("builtin", "tuple") and pay[2][0][0] == "free" and pay[2][0][1] == PQN
                    ra.ob(ok, lambda: mk_finding("AG-3", pspec, None, pcfg, p, "plain %s must emit tuple(queue); it emits %s" % (mode, show(pay)), extra="tuple"))
                if mode == "zip":
                    gate = [e for e in p.trace if e.k == "decision" and e.test[0] == "call" and e.test[1] == ("builtin", "all")]
                    ok = len(gate) == 1 and gate[0].test[2][0][0] == "free" and gate[0].test[2][0][1] == PFN and gate[0].outcome == fired
                    ra.ob(ok, lambda: mk_finding("AG-3", pspec, None, pcfg, p, "plain zip must fire exactly when all(has_next)", extra="zip-gate"))
                    if fired:
                        cf = [e for e in p.trace if e.k == "substore" and e.base[0] == "free" and e.base[1] == PFN and e.value == ("const", False)]

                        def whole(e):
                            # flags[:] = [False] * n
                            if e.k != "substore":
                                return False
                            v = e.value
                            return e.base[0] == "free" and e.base[1] == PFN and e.index == ("slice", None, None) \
                                and v[0] == "binop" and v[1] == "Mult" and any(x == ("list", ("const", False)) for x in (v[2], v[3])) \
                                and any(ptm.is_count(x) for x in (v[2], v[3]))
                        cf_all = [e for e in p.trace if whole(e)]
                        ra.ob(bool(cf_all) or (bool(cf) and all(e.index[0] == "loopvar" for e in cf)), lambda: mk_finding(
                            "AG-3", pspec, None, pcfg, p, "plain zip must clear all has_next flags after firing", extra="zip-clear"))
                plain_sk.add((mode, "fire" if fired else "wait"))
        ra.groups.add(("tee_map siblings", mode))
        ra.ob(mux_sk == plain_sk, lambda: Finding("AG-3", "tee_map mux/plain{%s}" % mode, pspec.module.where(pspec.fn),
                                                  "join mode %s: the multiplexed join behaves as %s, the plain join as %s" % (mode, sorted(mux_sk), sorted(plain_sk))))
    # plain completion: on_completed once every branch is done
    for spec_d in psite.handler_specs("on_completed"):
        for p in ctx.paths(spec_d, None, {}):
            ra.paths += 1
            ems = emissions(p)
            gate = [e for e in p.trace if e.k == "decision" and e.test[0] == "call" and e.test[1] == ("builtin", "all")]
            w = [e for e in p.trace if e.k == "substore" and e.base[0] == "free" and e.value == ("const", True)]
            ok = len(gate) == 1 and bool(w) and (len(ems) == 1 and ems[0].method == "on_completed") == bool(gate[0].outcome) and (gate[0].outcome or not ems)
            ra.ob(ok, lambda: mk_finding("AG-3", spec_d, None, {}, p, "the plain tee_map must complete exactly when all branches are done; it does: %s" % summary(p), extra="done"))
    r.require_instances(1)
    return [r, ra]


def rule_tm5(ctx: Ctx) -> RuleResult:
    """TM-5: the join table grows to (key[0] + 1) * n slots before a key is used."""
    from .poly import RF, Poly, rf, strip_uid
    r = RuleResult("TM-5", "tee_map join table: at key creation the tables are grown, in lock-step, to (key[0] + 1) * n slots")
    site = ctx.site(REL, "_process_many.subscribe_mux", kind="mux")
    spec = site.handler_specs("on_next")[0]
    branch = next(iter(spec.bound.values()))
    from .tee import tee_model
    tm = tee_model(ctx, site)
    r.instances += 1
    grew = False
    for cfg in valuations(ctx.space(spec)):
        zip_, comb = cfg.get("zip") == "True", cfg.get("combine") == "True"
        if not (zip_ or comb) or (zip_ and comb):
            continue
        for p in ctx.paths(spec, "Create", cfg, max_iter=1):
            r.paths += 1
            its = [e for e in p.trace if e.k == "loopiter"]
            # a loop that only stores None / False into the key's slots re-initialises them (ST-5); it is not a growth step

            def _resets_only(it):
                pos = p.trace.index(it)
                end = next((k for k in range(pos + 1, len(p.trace)) if p.trace[k].k in ("loopiter", "loopexit")), len(p.trace))
                body = [e for e in p.trace[pos + 1:end] if e.k in ("substore", "mutate", "call", "emit", "nonlocal")]
                return bool(body) and all(e.k == "substore" and e.value[0] == "const" and e.value[1] in (None, False) for e in body)
            its = [it for it in its if not _resets_only(it)]
            fw = [m for m in mux_emissions(p) if m.event is not None and m.event.kind == "Create"]
            if not fw:
                continue
            r.groups.add((spec.qualname, cfg_str(cfg), len(its)))
            # growth, idiom 2: table.extend([filler] * count), once per table, with the same count
            exts = [e for e in p.trace if e.k == "mutate" and e.method == "extend" and e.base[0] == "free" and e.args
                    and e.args[0][0] == "binop" and e.args[0][1] == "Mult"]
            if not its and exts:
                from .st import join_tables
                tables = join_tables(ctx, spec)

                def count_of(a0):
                    for x, y in ((a0[2], a0[3]), (a0[3], a0[2])):
                        if x[0] == "list" and len(x) == 2:
                            return y
                    return None
                cnts = {strip_uid(count_of(e.args[0])) if count_of(e.args[0]) is not None else None for e in exts}
                by = {e.base[1] for e in exts}
                grew = True
                good = False
                if by == tables and len(exts) == 2 and len(cnts) == 1 and None not in cnts:
                    cnt = next(iter(cnts))
                    q = rf(cnt)
                    n_atoms = [x for x in subterms(cnt) if tm.is_count(x)]
                    lens = [x for x in subterms(cnt) if x[0] == "call" and x[1] == ("builtin", "len") and x[2][0][0] == "free" and x[2][0][1] in tables]
                    if q is not None and n_atoms and len(lens) == 1:
                        N = RF(Poly.atom(strip_uid(n_atoms[0])))
                        K = RF(Poly.atom(strip_uid(KEYIDX)))
                        want = K.add(RF(Poly.const(1))).mul(N).add(RF(Poly.atom(lens[0])), -1)
                        good = q.equals(want)
                r.ob(good, lambda exts=exts: mk_finding(
                    "TM-5", spec, "Create", cfg, p, "the join tables must each be extended once by (key[0] + 1) * n - len(table) slots; extensions: %s" % [e.brief() for e in exts],
                    node=exts[0].node, extra="growth"))
                guard = [e for e in p.trace if e.k == "decision" and any(x == branch for x in subterms(e.test))]
                r.ob(bool(guard), lambda: mk_finding("TM-5", spec, "Create", cfg, p, "growth is not tied to the single branch that forwards the creation", extra="guard"))
                continue
            if not its:
                continue
            grew = True
            it = its[0]
            rng = it.iter
            ok = rng is not None and rng[0] == "call" and rng[1] == ("builtin", "range") and len(rng[2]) == 1
            cnt = rng[2][0] if ok else None
            good = False
            if cnt is not None:
                q = rf(strip_uid(cnt))
                n = RF(Poly.atom(("free", "n", site.short)))
                n_atoms = [x for x in subterms(cnt) if tm.is_count(x)]
                from .st import join_tables
                tables = join_tables(ctx, spec)
                lens = [x for x in subterms(strip_uid(cnt)) if x[0] == "call" and x[1] == ("builtin", "len") and x[2][0][0] == "free" and x[2][0][1] in tables]
                if q is not None and n_atoms and len(lens) == 1:
                    N = RF(Poly.atom(strip_uid(n_atoms[0])))
                    K = RF(Poly.atom(strip_uid(KEYIDX)))
                    want = K.add(RF(Poly.const(1))).mul(N).add(RF(Poly.atom(lens[0])), -1)
                    good = q.equals(want)
            r.ob(good, lambda: mk_finding("TM-5", spec, "Create", cfg, p,
                                          "the join tables must grow by (key[0] + 1) * n - len(table) slots so that the n slots of the new key exist; "
                                          "the loop runs over %s" % (show(rng) if rng else None), node=it.node, extra="growth"))
            pos = p.trace.index(it)
            end = next((k for k in range(pos + 1, len(p.trace)) if p.trace[k].k in ("loopiter", "loopexit")), len(p.trace))
            apps = {}
            for e in p.trace[pos:end]:
                if e.k == "mutate" and e.method == "append" and e.base[0] == "free":
                    apps.setdefault(e.base[1], []).append(e)
            from .st import join_tables
            r.ob(set(apps) == join_tables(ctx, spec) and len(apps) == 2 and all(len(v) == 1 for v in apps.values()), lambda: mk_finding(
                "TM-5", spec, "Create", cfg, p, "each growth step must append exactly one slot to queue and one to has_next; it appends %s" % {k: len(v) for k, v in apps.items()},
                node=it.node, extra="lock-step"))
            guard = [e for e in p.trace if e.k == "decision" and any(x == branch for x in subterms(e.test))]
            r.ob(bool(guard), lambda: mk_finding("TM-5", spec, "Create", cfg, p, "growth is not tied to the single branch that forwards the creation", extra="guard"))
    r.ob(grew, lambda: Finding("TM-5", "%s{growth}" % spec.qualname, spec.module.where(spec.fn), "the join tables are never grown when a key is created"))
    r.require_instances(1)
    return r

CONNECT_OWNERS = {
    "rxsci/operators/tee_map.py": "the join connects the published source once, after its last branch has subscribed",
    "rxsci/mux/muxconnectable.py": "the proxy hands connect() through to the connectable it wraps",
    "rxsci/data/train_test_split.py": "connects the connectable it published itself for its two outputs",
}


def rule_tm6(ctx: Ctx) -> RuleResult:
    """TM-6 (who may connect): tee_map shares its source with its branches through a published connectable and connects it once every
    branch has subscribed.  A stage of a branch that calls connect() on the source it is given starts the source while later
    branches are not subscribed yet: they see an empty (already completed) stream, and the join is no longer the join of the
    branches' own outputs."""
    r = RuleResult("TM-6", "connect() is called only by the owners of a connectable (tee_map's join, the mux connectable proxy, train_test_split): no "
                           "operator connects a source it was handed")
    prog = ctx.program
    for rel, m in sorted(prog.by_relpath.items()):
        if not rel.startswith("rxsci/"):
            continue
        for n in ast.walk(m.tree):
            if isinstance(n, ast.Call) and isinstance(n.func, ast.Attribute) and n.func.attr == "connect":
                r.instances += 1
                fn = m.enclosing_function(n)
                qn = m.scopes[fn].qualname if fn in m.scopes else "<module>"
                r.ob(rel in CONNECT_OWNERS, lambda n=n, qn=qn, rel=rel: Finding(
                    "TM-6", "%s::%s{connect}" % (rel, qn), m.where(n),
                    "'%s' connects a connectable in %s, which does not own one: under tee_map the source handed to a branch is the shared published "
                    "source, and connecting it from inside a branch starts it before the later branches have subscribed (they receive nothing)" % (
                        ast.unparse(n)[:60], qn)))
    r.require_instances(3)
    return r
