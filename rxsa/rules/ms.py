"""C14 -- MemoryStore: representation invariant preserved by every method
(MS-1..MS-5) and argument-faithful forwarding through the store layers (MS-6)."""
from __future__ import annotations

import ast

from ..engine import Ctx, Finding, RuleResult, trace_of
from ..loader import AnalysisError
from ..terms import show, subterms
from .linear import linform

REL = "rxsci/state/memory_store.py"
SELF = ("arg", "self")
KEY = ("arg", "key")
KEY0 = ("sub", KEY, ("const", 0), 0)
ARRAYS = ("values", "state", "keys")
MARKERS = {"NOTSET": "rxsci.state.markers.STATE_NOTSET", "SET": "rxsci.state.markers.STATE_SET",
           "CLEARED": "rxsci.state.markers.STATE_CLEARED"}


def _key0(t):
    return t[0] == "sub" and t[1] == KEY and t[2] == ("const", 0)


def _arr(t):
    """name of the array if t is self.<array>, else None"""
    if t[0] == "attr" and t[1] == SELF and t[2] in ARRAYS:
        return t[2]
    return None


def _marker_code(t):
    """NOTSET|SET|CLEARED if t is <marker>.value(), directly or through a module-level constant bound to it"""
    if t[0] == "mcall" and t[2] == "value" and t[1][0] == "modvar":
        for k, v in MARKERS.items():
            if t[1][1] == v:
                return k
    if t[0] == "modvar" and len(t) > 2 and isinstance(t[2], ast.Call) and isinstance(t[2].func, ast.Attribute) \
            and t[2].func.attr == "value" and not t[2].args:
        from ..loader import dotted_name
        dn = dotted_name(t[2].func.value) or ""
        for k, v in MARKERS.items():
            if dn.split(".")[-1] == v.split(".")[-1]:
                return k
    return None


def _class_of(prog, m, call):
    """(module, ClassDef) constructed by the call node, or None"""
    from ..loader import dotted_name
    dn = dotted_name(call.func) if isinstance(call, ast.Call) else None
    if dn is None:
        return None
    ref = prog.resolve_dotted(m, dn)
    return (ref[1], ref[2]) if ref[0] == "class" else None


def _class_attr(prog, m, cls, name, depth=0):
    """(module, node) defining *name* in the class or, failing that, in its bases (single inheritance chain)"""
    for n in cls.body:
        if isinstance(n, ast.FunctionDef) and n.name == name:
            return m, n
        if isinstance(n, ast.Assign) and any(isinstance(t, ast.Name) and t.id == name for t in n.targets):
            return m, n.value
    if depth < 5:
        from ..loader import dotted_name
        for b in cls.bases:
            dn = dotted_name(b)
            if dn is None:
                continue
            ref = prog.resolve_dotted(m, dn)
            if ref[0] == "class":
                hit = _class_attr(prog, ref[1], ref[2], name, depth + 1)
                if hit is not None:
                    return hit
    return None


def _fold_literal(prog, m, node, depth=0):
    if isinstance(node, ast.Constant):
        return node.value
    if isinstance(node, ast.Name) and depth < 4:
        b = m.bindings.get(node.id)
        if b is not None and b[0] == "assign" and m.bind_count.get(node.id, 0) == 1:
            return _fold_literal(prog, m, b[1], depth + 1)
    return None


def marker_codes(prog):
    """{'NOTSET'|'SET'|'CLEARED': code} -- the value() of the three marker instances of rxsci.state.markers, through
    their classes (a constant returned by value(), or a class attribute returned by an inherited value())"""
    mm = prog.module("rxsci/state/markers.py")
    out = {}
    for k, v in MARKERS.items():
        name = v.split(".")[-1]
        b = mm.bindings.get(name)
        if b is None or b[0] != "assign":
            continue
        c = _class_of(prog, mm, b[1])
        if c is None:
            continue
        cm, cls = c
        hit = _class_attr(prog, cm, cls, "value")
        if hit is None or not isinstance(hit[1], ast.FunctionDef):
            continue
        fm, f = hit
        rets = [x.value for x in ast.walk(f) if isinstance(x, ast.Return)]
        if len(rets) != 1 or rets[0] is None:
            continue
        rv = rets[0]
        val = _fold_literal(prog, fm, rv)
        if val is None and isinstance(rv, ast.Attribute) and isinstance(rv.value, ast.Name) and rv.value.id == "self":
            a = _class_attr(prog, cm, cls, rv.attr)
            if a is not None and not isinstance(a[1], ast.FunctionDef):
                val = _fold_literal(prog, a[0], a[1])
        if val is not None:
            out[k] = val
    return out


def _method(ctx, name):
    return ctx.function(REL, "MemoryStore." + name)


def _contract_paths(ctx, mm, fn, **kw):
    """The paths of a store method under its CONTRACT: a parameter that has a default in the signature (one the store API has grown:
    get(key, default=STATE_NOTSET), add_key(key, value=STATE_NOTSET)) is bound to that default.  What the method does when a caller
    passes something else is the caller's business: the executor marks a store call with arguments beyond the modelled ones as
    unresolved, so no operator-level finding on such a path is taken for a verdict."""
    env = dict(kw.pop("extra_env", None) or {})
    a = fn.args
    pairs = list(zip(a.args[len(a.args) - len(a.defaults):], a.defaults)) + [(x, d) for x, d in zip(a.kwonlyargs, a.kw_defaults) if d is not None]
    for arg, d in pairs:
        if arg.arg in env:
            continue
        t = ctx.ex.eval_in_scope(mm, None, d)
        if t is not None:
            env[arg.arg] = t
    return ctx.fn_paths(mm, fn, extra_env=env or None, **kw)


def _f(rule, what, m, node, msg, trace=None):
    return Finding(rule, "%s::MemoryStore.%s" % (REL, what), m.where(node), msg, trace or [])


def rule_ms(ctx: Ctx):
    r1 = RuleResult("MS-1", "values/state/keys grow in lock-step up to index key[0] and are reset together")
    r2 = RuleResult("MS-2", "every array write addresses index key[0] of the method's own key")
    r3 = RuleResult("MS-3", "marker discipline: add_key -> NOTSET (then default), set -> SET, del_key -> CLEARED + value cleared, get honours NOTSET")
    r4 = RuleResult("MS-4", "allocator: a group index is a popped free slot or next_index, which then advances; nothing else frees indices")
    r5 = RuleResult("MS-5", "typecode table: int->'q', 'uint'->'Q', float->'d', bool->'B', anything else a list")
    prog = ctx.program
    m = prog.module(REL)

    # ---------------- MS-1 / MS-2 / MS-3 : add_key -------------------------
    mm, fn = _method(ctx, "add_key")
    paths = _contract_paths(ctx, mm, fn, max_iter=1)
    r1.instances += 1
    r3.instances += 1
    grow_paths = 0
    saw_mapper = False
    growth_loops = {}
    for p in paths:
        r1.paths += 1
        r3.paths += 1
        iters = [e for e in p.trace if e.k == "loopiter"]

        def count_ok(cnt):
            """cnt == key[0] + 1 - len(<one of the arrays>)"""
            f = linform(cnt) if cnt is not None else None
            if f is None or f[1] != 1:
                return False
            atoms = dict(f[0])
            k0 = [a for a in atoms if _key0(a)]
            ln = [a for a in atoms if a[0] == "call" and a[1] == ("builtin", "len") and _arr(a[2][0]) is not None]
            return len(atoms) == 2 and len(k0) == 1 and len(ln) == 1 and atoms[k0[0]] == 1 and atoms[ln[0]] == -1
        # growth, idiom 1: loops appending slots -- one loop for the three arrays, or one loop per array (a helper called three times);
        # collected over all paths and judged per array below (separate loops iterate independently in the path enumeration although
        # their counts are equal under the lock-step invariant)
        for it in iters:
            grow_paths += 1
            rng = it.iter
            ok = rng is not None and rng[0] == "call" and rng[1] == ("builtin", "range") and len(rng[2]) == 1
            cnt = rng[2][0] if ok else None
            if cnt is not None and cnt[0] == "call" and cnt[1] == ("builtin", "max") and len(cnt[2]) == 2 and ("const", 0) in cnt[2]:
                cnt = [x for x in cnt[2] if x != ("const", 0)][0]      # max(n, 0): no growth when the slot exists
            pos = p.trace.index(it)
            end = next((k for k in range(pos + 1, len(p.trace)) if p.trace[k].k in ("loopiter", "loopexit")), len(p.trace))
            apps = {}
            for e in p.trace[pos:end]:
                if e.k == "mutate" and e.method == "append" and _arr(e.base):
                    apps.setdefault(_arr(e.base), []).append(e)
            key_ = (id(it.node), tuple(sorted(apps)))
            if key_ not in growth_loops:
                growth_loops[key_] = (it, rng, cnt, apps, p)
        # growth, idiom 2: array.extend([filler] * count), once per array, under count > 0
        exts = [e for e in p.trace if e.k == "mutate" and e.method == "extend" and _arr(e.base)]
        if exts:
            grow_paths += 1
            by = {}
            for e in exts:
                by.setdefault(_arr(e.base), []).append(e)

            def fill(e):
                a0 = e.args[0] if e.args else None
                if a0 is not None and a0[0] == "binop" and a0[1] == "Mult":
                    for x, y in ((a0[2], a0[3]), (a0[3], a0[2])):
                        if x[0] == "list" and len(x) == 2:
                            return x[1], y
                # itertools.repeat(filler, count)
                if a0 is not None and a0[0] == "call" and a0[1] == ("glob", "itertools.repeat") and len(a0[2]) == 2 and a0[2][0][0] != "kw" and a0[2][1][0] != "kw":
                    return a0[2][0], a0[2][1]
                return None, None
            cnts = {fill(e)[1] for e in exts}
            r1.ob(all(len(by.get(a, [])) == 1 for a in ARRAYS) and len(cnts) == 1, lambda: _f(
                "MS-1", "add_key{lock-step}", mm, exts[0].node,
                "values, state and keys must each be extended once, by the same number of slots; extensions: %s" % [e.brief() for e in exts], trace_of(p)))
            cnt = next(iter(cnts))
            r1.ob(count_ok(cnt), lambda: _f("MS-1", "add_key{growth-count}", mm, exts[0].node,
                                            "the arrays must grow by (key[0] + 1) - len(array) slots so that index key[0] exists afterwards; they grow by %s" % (
                                                show(cnt) if cnt else None), trace_of(p)))
            st_ext = by.get("state", [None])[0]
            r3.ob(st_ext is not None and fill(st_ext)[0] is not None and _marker_code(fill(st_ext)[0]) == "CLEARED", lambda: _f(
                "MS-3", "add_key{fresh-slot-marker}", mm, exts[0].node, "slots created by growth (indices below key[0]) must be marked CLEARED, not readable", trace_of(p)))
        # marker writes for the key itself
        writes = [e for e in p.trace if e.k == "substore" and _arr(e.base) == "state"]
        first = writes[0] if writes else None
        r3.ob(first is not None and _key0(first.index) and _marker_code(first.value) == "NOTSET", lambda: _f(
            "MS-3", "add_key{notset}", mm, fn,
            "add_key must first mark index key[0] as NOTSET (a re-added key reads as fresh); first marker write: %s" % (first.brief() if first else "none"), trace_of(p)))
        # the key itself is recorded with the slot (iterate reports it, also for a slot that was never written)
        kws = [e for e in p.trace if e.k == "substore" and _arr(e.base) == "keys" and _key0(e.index)]
        r3.ob(bool(kws) and all(e.value == KEY for e in kws), lambda: _f(
            "MS-3", "add_key{key}", mm, fn, "add_key must record the key at index key[0] of the key table (iterate reports the keys of the live slots); "
            "it writes %s" % [e.brief() for e in kws], trace_of(p)))
        # default value / mapper dict are written through set() after the NOTSET mark
        later = writes[1:]
        for w in later:
            r3.ob(_marker_code(w.value) == "SET" and _key0(w.index), lambda w=w: _f(
                "MS-3", "add_key{default}", mm, w.node, "after the NOTSET mark only set() (marker SET) may follow in add_key; found %s" % w.brief(), trace_of(p)))
        vals = [e for e in p.trace if e.k == "substore" and _arr(e.base) == "values"]
        dflt = [e for e in p.trace if e.k == "decision" and any(x == ("attr", SELF, "default_value") for x in subterms(e.test))]
        mapper = [e for e in p.trace if e.k == "decision" and any(x == ("attr", SELF, "is_mapper") for x in subterms(e.test))]
        if mapper and mapper[0].outcome:
            saw_mapper = True
            r3.ob(len(vals) == 1 and vals[0].value == ("dict",) and _key0(vals[0].index), lambda: _f(
                "MS-3", "add_key{mapper}", mm, fn, "a mapper slot must start as an empty dict at index key[0]", trace_of(p)))
        elif dflt and any(_dflt_present(d) for d in dflt):
            # some test of the path says a default exists (it is not None): it must be written, whatever its truth value -- a slot that is
            # re-used keeps the last value of its previous owner otherwise (0 and False are defaults too)
            r3.ob(len(vals) == 1 and vals[0].value == ("attr", SELF, "default_value") and _key0(vals[0].index), lambda: _f(
                "MS-3", "add_key{default-value}", mm, fn, "a state with a default (any value but None: 0 and False count) must read as that default after "
                "add_key; on this path [%s] the value array is %s" % ("; ".join(d.brief() for d in dflt), "not written" if not vals else "written with something else"), trace_of(p)))
        else:
            r3.ob(not vals, lambda: _f("MS-3", "add_key{no-default}", mm, fn, "without default the value must stay unwritten (NOTSET)", trace_of(p)))
    if growth_loops:
        per_array = {a: [] for a in ARRAYS}
        for it, rng, cnt, apps, p in growth_loops.values():
            r1.ob(count_ok(cnt), lambda it=it, rng=rng, p=p: _f(
                "MS-1", "add_key{growth-count}", mm, it.node,
                "the arrays must grow by (key[0] + 1) - len(array) slots so that index key[0] exists afterwards; the loop runs over %s" % show(rng), trace_of(p)))
            for a, es in apps.items():
                per_array[a].append((it, es, p))
        lock = all(len(v) == 1 and len(v[0][1]) == 1 for v in per_array.values())
        r1.ob(lock, lambda: _f(
            "MS-1", "add_key{lock-step}", mm, fn,
            "each growth step must append exactly one slot to values, state and keys (in one loop, or in one loop per array); appends per step: %s" % {
                a: [len(es) for _, es, _ in v] for a, v in per_array.items()}))
        st = per_array["state"][0] if per_array["state"] else None
        r3.ob(st is not None and _marker_code(st[1][0].args[0]) == "CLEARED", lambda: _f(
            "MS-3", "add_key{fresh-slot-marker}", mm, fn, "slots created by growth (indices below key[0]) must be marked CLEARED, not readable",
            trace_of(st[2]) if st else None))
    r1.ob(grow_paths > 0, lambda: _f("MS-1", "add_key{growth}", mm, fn, "add_key no longer grows the arrays"))
    r3.ob(saw_mapper, lambda: _f("MS-3", "add_key{mapper}", mm, fn,
                                 "add_key has no path for mapper stores: a mapper slot must start as a dict created by this very call (a dict kept in the store "
                                 "object, e.g. as its default value, is shared by every index and survives del_key / add_key)"))

    # ---------------- MS-2: all writers ------------------------------------
    writers = ["add_key", "del_key", "set", "add_map"]
    for name in writers:
        mm, fn = _method(ctx, name)
        r2.instances += 1
        for p in _contract_paths(ctx, mm, fn, max_iter=1):
            r2.paths += 1
            for e in p.trace:
                if e.k == "substore":
                    base, idx = e.base, e.index
                    # nested: self.values[key[0]][map_key] = ...
                    if base[0] == "sub" and _arr(base[1]) is not None:
                        idx = base[2]
                        base = base[1]
                    a = _arr(base)
                    if a is None:
                        continue
                    r2.ob(_key0(idx), lambda e=e, name=name: _f(
                        "MS-2", "%s{index}" % name, mm, e.node,
                        "%s writes %s: a write that is not at index key[0] of the operation's own key changes what another key reads" % (name, e.brief()), trace_of(p)))
                elif e.k == "mutate" and _arr(e.base) is not None and e.method in ("pop", "clear", "remove", "insert") + (() if name == "add_key" else ("append", "extend")):
                    # the three arrays only ever grow, and only in add_key: a slot that is dropped or shifted is another key's slot -- a key that is
                    # alive and not written yet (NOTSET) reads as cleared (the filler 0) after its slot was popped and grown back
                    r2.ob(False, lambda e=e, name=name: _f(
                        "MS-2", "%s{resize}" % name, mm, e.node,
                        "%s %ss the %s array (%s): the slots of the other keys move or vanish -- a key that was added and not written yet comes back, "
                        "when the array grows again, as a cleared slot holding the filler" % (name, e.method, _arr(e.base), e.brief()), trace_of(p)))
    # no other public method writes the arrays (private helpers are followed from their callers)
    cls = [n for n in m.tree.body if isinstance(n, ast.ClassDef) and n.name == "MemoryStore"]
    if not cls:
        raise AnalysisError("class MemoryStore vanished")
    for meth in cls[0].body:
        if not isinstance(meth, ast.FunctionDef) or meth.name in writers + ["__init__", "clear"] or (meth.name.startswith("_") and not meth.name.startswith("__")):
            continue
        r2.instances += 1
        for p in ctx.fn_paths(m, meth, max_iter=1):
            r2.paths += 1
            for e in p.trace:
                bad = None
                if e.k in ("substore", "subdel"):
                    base = e.base
                    while base[0] == "sub":
                        base = base[1]
                    if _arr(base) is not None or (base[0] == "attr" and base[1] == SELF and base[2] in ("next_index", "free_slots")):
                        bad = "writes"
                elif e.k == "attrstore" and e.base == SELF and e.attr in ARRAYS + ("next_index", "free_slots"):
                    bad = "writes"
                elif e.k == "mutate":
                    base = e.base
                    while base[0] == "sub":
                        base = base[1]
                    if _arr(base) is not None and e.method in ("append", "pop", "clear", "insert", "remove", "extend"):
                        bad = "mutates"
                if bad:
                    r2.ob(False, lambda e=e, meth=meth, bad=bad: _f("MS-2", "%s{%s}" % (meth.name, bad), m, e.node,
                                                                    "reader method %s %s the store: %s" % (meth.name, bad, e.brief()), trace_of(p)))
    # clear() resets the three arrays together
    mm, fn = _method(ctx, "clear")
    r1.instances += 1
    for p in _contract_paths(ctx, mm, fn):
        r1.paths += 1
        reset = set()
        for e in p.trace:
            if e.k == "attrstore" and e.base == SELF and e.attr in ARRAYS:
                reset.add(e.attr)
            if e.k == "mutate" and e.method == "clear" and _arr(e.base):
                reset.add(_arr(e.base))
        r1.ob(reset == set(ARRAYS), lambda: _f("MS-1", "clear{together}", mm, fn, "clear() resets %s only" % sorted(reset), trace_of(p)))

    # ---------------- MS-3: set / del_key / get -----------------------------
    mm, fn = _method(ctx, "set")
    r3.instances += 1
    for p in _contract_paths(ctx, mm, fn):
        r3.paths += 1
        ws = {(_arr(e.base)): e for e in p.trace if e.k == "substore" and _arr(e.base)}
        ok = set(ws) == set(ARRAYS) and _marker_code(ws["state"].value) == "SET" and ws["values"].value == ("arg", "value") \
            and ws["keys"].value == KEY
        r3.ob(ok, lambda: _f("MS-3", "set", mm, fn, "set must store the value, mark the slot SET and record the key; it does: %s" % [e.brief() for e in ws.values()], trace_of(p)))
    mm, fn = _method(ctx, "del_key")
    r3.instances += 1
    for p in _contract_paths(ctx, mm, fn):
        r3.paths += 1
        ws = {(_arr(e.base)): e for e in p.trace if e.k == "substore" and _arr(e.base)}
        ok = "state" in ws and _marker_code(ws["state"].value) == "CLEARED" and "values" in ws and ws["values"].value[0] == "const"
        r3.ob(ok, lambda: _f("MS-3", "del_key", mm, fn,
                             "del_key must mark the slot CLEARED and drop the stored value (so that it cannot be read after a re-add); it does: %s" % [e.brief() for e in ws.values()], trace_of(p)))
    mm, fn = _method(ctx, "get")
    r3.instances += 1
    saw_notset = saw_value = False
    for p in _contract_paths(ctx, mm, fn):
        r3.paths += 1
        decs = [e for e in p.trace if e.k == "decision" and e.test[0] == "cmp" and any(_marker_code(x) == "NOTSET" for x in (e.test[2], e.test[3]))]
        if not decs:
            r3.ob(False, lambda: _f("MS-3", "get{notset-test}", mm, fn, "get does not compare the slot marker with NOTSET", trace_of(p)))
            continue
        d = decs[0]
        other = d.test[3] if _marker_code(d.test[2]) else d.test[2]
        ok_test = d.test[1] in ("Eq", "NotEq") and other[0] == "sub" and _arr(other[1]) == "state" and _key0(other[2])
        r3.ob(ok_test, lambda: _f("MS-3", "get{notset-test}", mm, d.node, "the NOTSET test must read state[key[0]] and compare by ==; it is %s" % show(d.test), trace_of(p)))
        is_notset = d.outcome == (d.test[1] == "Eq")
        v = p.value
        if is_notset:
            saw_notset = True
            r3.ob(v is not None and v[0] == "modvar" and v[1] == MARKERS["NOTSET"], lambda: _f(
                "MS-3", "get{notset-return}", mm, fn, "an unset slot must read as STATE_NOTSET; get returns %s" % (show(v) if v else None), trace_of(p)))
        else:
            saw_value = True
            core = v
            if core is not None and core[0] == "call" and core[1] == ("builtin", "bool"):
                core = core[2][0]
            ok = core is not None and core[0] == "sub" and _arr(core[1]) == "values" and _key0(core[2])
            r3.ob(ok, lambda: _f("MS-3", "get{value-return}", mm, fn, "a set slot must read as values[key[0]]; get returns %s" % (show(v) if v else None), trace_of(p)))
            bd = [e for e in p.trace if e.k == "decision" and any(x == ("attr", SELF, "data_type") for x in subterms(e.test))]
            if bd and bd[0].outcome and bd[0].test[1] in ("Is", "Eq"):
                r3.ob(v[0] == "call" and v[1] == ("builtin", "bool"), lambda: _f(
                    "MS-3", "get{bool}", mm, fn, "a bool state is stored as a byte and must be converted back with bool()", trace_of(p)))
    r3.ob(saw_notset and saw_value, lambda: _f("MS-3", "get{both}", mm, fn, "get must have a NOTSET path and a value path"))
    # the one extension the operator-level model follows -- get(key, default): on the NOTSET path the caller's default comes back, and
    # nothing else depends on it (the forwarders Store.get / StoreManager.get_state pass it on: MS-6)
    extra = [a.arg for a in fn.args.args[2:]] + [a.arg for a in fn.args.kwonlyargs]
    if extra:
        if extra != ["default"]:
            raise AnalysisError("MemoryStore.get takes %s beyond the key: the store model knows get(key) and get(key, default)" % extra)
        for p in ctx.fn_paths(mm, fn):
            r3.paths += 1
            decs = [e for e in p.trace if e.k == "decision" and e.test[0] == "cmp" and any(_marker_code(x) == "NOTSET" for x in (e.test[2], e.test[3]))]
            uses = any(x == ("arg", "default") for e in p.trace for x in (subterms(e.test) if e.k == "decision" else ()))
            notset = bool(decs) and decs[0].outcome == (decs[0].test[1] == "Eq")
            ok = not uses and ((p.value == ("arg", "default")) if notset else not any(x == ("arg", "default") for x in subterms(p.value or ("const", None))))
            if not ok:
                # another meaning of the parameter may be perfectly right; it is not the one the operator-level model gives a third argument
                raise AnalysisError("MemoryStore.get: its default parameter is not simply returned for a slot that reads NOTSET (this path returns %s); the "
                                    "model of get_state(state, key, default) does not describe this store" % (show(p.value) if p.value is not None else None))
            r3.ob(True)
    # marker codes are pairwise distinct byte constants
    codes = marker_codes(prog)
    r3.instances += 1
    r3.ob(len(codes) == 3 and len(set(codes.values())) == 3 and all(isinstance(v, int) and not isinstance(v, bool) and 0 <= v < 256 for v in codes.values()),
          lambda: Finding("MS-3", "rxsci/internal/utils.py{marker-codes}", "rxsci/internal/utils.py:1",
                          "the three marker codes must be distinct byte constants; found %s" % codes))

    # ---------------- MS-4: allocator ---------------------------------------
    r4.instances += 1
    has_alloc = any(sc.qualname == "new_index" for sc in m.scopes.values())
    if has_alloc:
        fm, ffn = ctx.function(REL, "new_index")
        ps = ctx.fn_paths(fm, ffn)
        NI, FS = ("arg", "next_index"), ("arg", "free_slots")
        saw_pop = saw_next = False
        for p in ps:
            r4.paths += 1
            v = p.value
            if v is None or v[0] != "tuple" or len(v) != 4:
                r4.ob(False, lambda: Finding("MS-4", "%s::new_index{return}" % REL, fm.where(ffn), "new_index must return (index, next_index, free_slots)", trace_of(p)))
                continue
            idx, nxt, fs = v[1], v[2], v[3]
            pops = [e for e in p.trace if e.k == "mutate" and e.method == "pop" and e.base == FS]
            if pops:
                saw_pop = True
                ok = idx == pops[0].result and nxt == NI and fs == FS
                # guarded by len(free_slots) > 0
                g = [e for e in p.trace if e.k == "decision" and any(x[0] == "call" and x[1] == ("builtin", "len") and x[2][0] == FS for x in subterms(e.test))]
                ok = ok and bool(g)
                r4.ob(ok, lambda: Finding("MS-4", "%s::new_index{reuse}" % REL, fm.where(ffn),
                                          "when a free slot exists the result must be that popped slot and next_index must stay; returns %s" % show(v), trace_of(p)))
            else:
                saw_next = True
                f = linform(nxt)
                ok = idx == NI and f is not None and dict(f[0]) == {NI: 1} and f[1] == 1 and fs == FS
                r4.ob(ok, lambda: Finding("MS-4", "%s::new_index{fresh}" % REL, fm.where(ffn),
                                          "without free slot the result must be next_index and next_index + 1 must be returned as the new counter; returns %s" % show(v), trace_of(p)))
        r4.ob(saw_next, lambda: Finding("MS-4", "%s::new_index{fresh-path}" % REL, fm.where(ffn), "new_index has no path handing out next_index"))
        mm, fn = _method(ctx, "add_map")
        for p in _contract_paths(ctx, mm, fn, inline=False):
            r4.paths += 1
            calls = [e for e in p.trace if e.k == "call" and e.func[0] == "func" and e.func[1].name == "new_index"]
            ok = len(calls) == 1 and tuple(calls[0].args) == (("attr", SELF, "next_index"), ("attr", SELF, "free_slots"))
            res = calls[0].result if calls else None
            stores = {e.attr: e.value for e in p.trace if e.k == "attrstore" and e.base == SELF}
            ok = ok and stores.get("next_index") == ("sub", res, ("const", 1)) and stores.get("free_slots") == ("sub", res, ("const", 2))
            idx = ("sub", res, ("const", 0))
            ws = [e for e in p.trace if e.k == "substore"]
            ok = ok and len(ws) == 1 and ws[0].value == idx and ws[0].index == ("arg", "map_key") and p.value == idx
            r4.ob(ok, lambda: _f("MS-4", "add_map", mm, fn,
                                 "add_map must take (index, next_index, free_slots) from new_index(self.next_index, self.free_slots), store both "
                                 "counters back, bind map_key to the index in the parent's dict and return it", trace_of(p)))
    else:
        # no allocator helper: add_map itself must take the index from a store-wide source -- a slot popped from self.free_slots, or
        # self.next_index, which then moves on by one -- never from something that restarts per parent key (the size of the parent's map)
        mm, fn = _method(ctx, "add_map")
        NXT, FRS = ("attr", SELF, "next_index"), ("attr", SELF, "free_slots")
        for p in _contract_paths(ctx, mm, fn):
            r4.paths += 1
            if p.outcome != "return":
                continue
            ws = [e for e in p.trace if e.k == "substore" and e.index == ("arg", "map_key")]
            idx = ws[0].value if len(ws) == 1 else None
            pops = [e for e in p.trace if e.k == "mutate" and e.method == "pop" and e.base == FRS]
            stores = {e.attr: e.value for e in p.trace if e.k == "attrstore" and e.base == SELF}
            ok = idx is not None and p.value == idx
            if ok and pops:
                ok = idx == pops[0].result and "next_index" not in stores
            elif ok:
                f = linform(stores["next_index"]) if "next_index" in stores else None
                ok = idx == NXT and f is not None and dict(f[0]) == {NXT: 1} and f[1] == 1
            r4.ob(ok, lambda p=p, idx=idx: _f(
                "MS-4", "add_map", mm, fn,
                "add_map must hand out an index no live group of this store holds: a slot popped from self.free_slots, or self.next_index (which then moves on by "
                "one); it hands out %s -- an index that restarts for every parent key makes groups of different parents share the state slots of the operators below" % (
                    show(idx) if idx is not None else None), trace_of(p)))
    # get_map: membership by 'in' (hash + ==) and dict indexing
    mm, fn = _method(ctx, "get_map")
    r4.instances += 1
    for p in _contract_paths(ctx, mm, fn):
        r4.paths += 1
        d = [e for e in p.trace if e.k == "decision"]
        ok = len(d) == 1 and d[0].test[0] == "cmp" and d[0].test[1] in ("In", "NotIn") and d[0].test[2] == ("arg", "map_key")
        present = ok and (d[0].outcome == (d[0].test[1] == "In"))
        v = p.value
        if ok and present:
            ok = v is not None and v[0] == "sub" and v[2] == ("arg", "map_key") and v[1][0] == "sub" and _arr(v[1][1]) == "values" and _key0(v[1][2])
        elif ok:
            ok = v is not None and v[0] == "modvar" and v[1] == MARKERS["NOTSET"]
        r4.ob(ok, lambda: _f("MS-4", "get_map", mm, fn, "get_map must return values[key[0]][map_key] if map_key is in the dict (by ==/hash), else STATE_NOTSET", trace_of(p)))
    # frame of the allocator: the counter moves only in add_map (through new_index); a method that rewinds or rebinds it can make
    # new_index hand out an index that a live (parent key, map key) pair still owns
    for meth in cls[0].body:
        if not isinstance(meth, ast.FunctionDef) or meth.name in ("add_map", "__init__"):
            continue
        for p in ctx.fn_paths(m, meth, max_iter=1):
            r4.paths += 1
            for e in p.trace:
                if e.k == "attrstore" and e.base == SELF and e.attr in ("next_index", "free_slots"):
                    r4.ob(False, lambda e=e, meth=meth, p=p: _f(
                        "MS-4", "%s{allocator-frame}" % meth.name, m, e.node,
                        "%s rebinds self.%s (%s): group indices are allocated by add_map only; moving the counter elsewhere lets new_index hand out an index "
                        "that is still in use by another parent key" % (meth.name, e.attr, e.brief()), trace_of(p)))
    # free_slots only grows in del_index; its callers (none today) must drop the map entry
    callers = []
    for rel2, m2 in prog.by_relpath.items():
        for n in ast.walk(m2.tree):
            if isinstance(n, ast.Call) and isinstance(n.func, ast.Name) and n.func.id == "del_index":
                callers.append((m2, n))
            if isinstance(n, ast.Call) and isinstance(n.func, ast.Attribute) and n.func.attr in ("append", "extend", "insert") \
                    and ast.unparse(n.func.value).endswith("free_slots"):
                fnn = m2.enclosing_function(n)
                r4.ob(fnn is not None and fnn.name == "del_index", lambda n=n, m2=m2: Finding(
                    "MS-4", "%s{free-slots-writer}" % m2.relpath, m2.where(n), "free_slots is extended outside del_index"))
    for m2, n in callers:
        fnn = m2.enclosing_function(n)
        body = ast.unparse(fnn) if fnn is not None else ""
        r4.ob("del self.values[key[0]][map_key]" in body or ".pop(map_key" in body, lambda n=n, m2=m2: Finding(
            "MS-4", "%s{del_index-caller}" % m2.relpath, m2.where(n),
            "an index is returned to the free list while the map entry that owns it is kept: the index can be handed out again while still in use"))

    # ---------------- MS-5 typecode table -----------------------------------
    # __init__ is evaluated for each concrete data type: the container factory it stores must be array(<typecode>) for
    # the four numeric types and list for anything else
    mm, fn = _method(ctx, "__init__")
    r5.instances += 1
    LIST = ("builtin", "list")
    cases = [(("builtin", "int"), "q"), (("const", "uint"), "Q"), (("builtin", "float"), "d"), (("builtin", "bool"), "B"),
             (("const", "obj"), None), (("builtin", "str"), None), (("const", "mapper"), None), (("builtin", "object"), None)]
    got = {}
    for dt, code in cases:
        vals = set()
        for p in ctx.fn_paths(mm, fn, extra_env={"data_type": dt}):
            r5.paths += 1
            cv = [e for e in p.trace if e.k == "attrstore" and e.attr == "create_values"]
            vals.add(cv[-1].value if cv else None)
        name = dt[1]
        if len(vals) != 1:
            got[name] = "depends on more than the data type"
            continue
        v = next(iter(vals))
        if v == LIST:
            got[name] = None
        elif v is not None and v[0] == "partial" and v[1][0] == "glob" and v[1][1].endswith("array") and len(v[2]) == 1 and v[2][0][0] == "const":
            got[name] = v[2][0][1]
        else:
            got[name] = show(v) if v is not None else "not set"
    want = {dt[1]: code for dt, code in cases}
    for name_ in want:
        r5.ob(got.get(name_) == want[name_], lambda name_=name_: _f(
            "MS-5", "__init__{typecode:%s}" % name_, mm, fn,
            "states declared with data type %s are kept in %s; the declared types must map to int->'q', 'uint'->'Q', float->'d', bool->'B', anything "
            "else a list (a narrower typecode truncates or rejects stored values)" % (
                name_, "a list" if got.get(name_) is None else "array(%r)" % (got.get(name_),))))
    # the declaration reaches the store as made: the default kept by the store is the default_value it was constructed with, for every
    # data type (a store that invents a default -- 0 for numbers -- never reads NOTSET, and an operator that seeds lazily on NOTSET, scan,
    # never seeds), and the data type it keeps is the declared one
    for dt, _code in cases:
        for p in ctx.fn_paths(mm, fn, extra_env={"data_type": dt}):
            r3.paths += 1
            if p.outcome == "raise":
                continue
            dv = [e for e in p.trace if e.k == "attrstore" and e.base == SELF and e.attr == "default_value"]
            r3.ob(bool(dv) and dv[-1].value == ("arg", "default_value"), lambda p=p, dv=dv, dt=dt: _f(
                "MS-3", "__init__{default}", mm, fn,
                "a %s store must keep the default value it is declared with (None: no default, the slot reads NOTSET until written); it keeps %s" % (
                    dt[1], show(dv[-1].value) if dv else "none"), trace_of(p)))
    for r, n in ((r1, 2), (r2, 4), (r3, 5), (r4, 2), (r5, 1)):
        r.require_instances(n)
    return [r1, r2, r3, r4, r5]


def _dflt_present(d):
    """does the decision establish that the default value is not None?  (a truthiness test that fails says nothing: 0 / False / None)"""
    t, out = d.test, d.outcome
    while t[0] == "not":
        t, out = t[1], not out
    if t[0] == "cmp" and t[1] in ("IsNot", "NotEq") and ("const", None) in (t[2], t[3]):
        return out
    if t[0] == "cmp" and t[1] in ("Is", "Eq") and ("const", None) in (t[2], t[3]):
        return not out
    return out


# ----------------------------------------------------------------------
RENAME = {"set_state": "set", "get_state": "get", "iterate_state": "iterate"}


def rule_ms6(ctx: Ctx) -> RuleResult:
    r = RuleResult("MS-6", "StoreManager -> Store -> MemoryStore forwarders pass the same arguments, in order, to the same operation")
    m = ctx.program.module("rxsci/state/store.py")
    classes = {n.name: n for n in m.tree.body if isinstance(n, ast.ClassDef)}
    if "Store" not in classes or "StoreManager" not in classes:
        raise AnalysisError("rxsci/state/store.py: classes Store / StoreManager vanished")
    ms = ctx.program.module(REL)
    mscls = [n for n in ms.tree.body if isinstance(n, ast.ClassDef) and n.name == "MemoryStore"][0]
    ms_methods = {f.name: f for f in mscls.body if isinstance(f, ast.FunctionDef)}
    store_methods = {f.name: f for f in classes["Store"].body if isinstance(f, ast.FunctionDef)}

    def forwards(f, target, receiver_ok, nskip, inline):
        """every path of f is one call <receiver>.<target>(<the parameters after the first nskip>, in order), whose
        result is returned"""
        params = [a.arg for a in f.args.args]
        want = tuple(("arg", p_) for p_ in params[nskip:])
        paths = ctx.fn_paths(m, f, inline=inline)
        why = "it has no path"
        for p in paths:
            r.paths += 1
            calls = [e for e in p.trace if e.k == "call" and e.d.get("method") == target]
            other = [e for e in p.trace if e.k in ("substore", "attrstore", "mutate", "emit", "store", "nonlocal")]
            if len(calls) != 1:
                return False, "it calls %s" % ([e.brief() for e in p.trace if e.k == "call"] or "nothing")
            c = calls[0]
            if tuple(c.args) != want:
                return False, "it calls %s" % c.brief()
            if not receiver_ok(c.base, p, params):
                return False, "the receiver of %s is %s" % (target, show(c.base))
            if p.value != c.result:
                return False, "it returns %s" % (show(p.value) if p.value is not None else None)
            if other and inline:
                return False, "it also does %s" % other[0].brief()
            why = None
        return why is None, why

    def state_store(base, p, params):
        # self.states[<state parameter>]
        return base[0] == "sub" and base[1] == ("attr", SELF, "states") and base[2] == ("arg", params[1])

    def active_store(base, p, params):
        # the result of self.get_store()
        gs = [e for e in p.trace if e.k == "call" and e.d.get("method") == "get_store" and e.base == SELF]
        return len(gs) == 1 and base == gs[0].result

    ops = ["add_key", "del_key", "set", "get", "iterate", "add_map", "del_map", "get_map", "iterate_map"]
    for name in ops:
        f = store_methods.get(name)
        if f is None:
            raise AnalysisError("Store.%s vanished" % name)
        r.instances += 1
        ok, why = forwards(f, name, state_store, 2, True)
        tgt = ms_methods.get(name)
        if ok and tgt is not None:
            tparams = [a.arg for a in tgt.args.args][1:]
            ok = len(tparams) == len(f.args.args) - 2
            why = "MemoryStore.%s takes %s" % (name, tparams)
        params = [a.arg for a in f.args.args]
        r.ob(ok, lambda name=name, why=why, f=f, params=params: Finding(
            "MS-6", "rxsci/state/store.py::Store.%s" % name, m.where(f),
            "Store.%s must forward (%s) unchanged to the same operation of the state's store: %s" % (name, ", ".join(params[2:]), why)))
    mgr = {f.name: f for f in classes["StoreManager"].body if isinstance(f, ast.FunctionDef)}
    for name in ["add_key", "del_key", "set_state", "get_state", "iterate_state", "add_map", "del_map", "get_map", "iterate_map"]:
        f = mgr.get(name)
        if f is None:
            raise AnalysisError("StoreManager.%s vanished" % name)
        r.instances += 1
        ok, why = forwards(f, RENAME.get(name, name), active_store, 1, False)
        params = [a.arg for a in f.args.args]
        r.ob(ok, lambda name=name, why=why, f=f, params=params: Finding(
            "MS-6", "rxsci/state/store.py::StoreManager.%s" % name, m.where(f),
            "StoreManager.%s must forward (%s) unchanged to Store.%s of the active partition: %s" % (
                name, ", ".join(params[1:]), RENAME.get(name, name), why)))
    r.require_instances(18)
    return r


def _marker_relation(test, outcome, slot_ok):
    """(marker name, holds) if the decision compares a slot of the marker table with a marker code: holds tells whether
    'slot == code' is true on this outcome; None otherwise"""
    if test[0] == "not":
        return _marker_relation(test[1], not outcome, slot_ok)
    if test[0] != "cmp" or test[1] not in ("Eq", "NotEq", "Is", "IsNot"):
        return None
    for a, b in ((test[2], test[3]), (test[3], test[2])):
        code = _marker_code(b)
        if code is not None and a[0] == "sub" and _arr(a[1]) == "state" and slot_ok(a[2]):
            return code, outcome == (test[1] in ("Eq", "Is"))
    return None


def _is_bool_store(p):
    """True / False when the path decided `self.data_type is bool` (or ==), None when it did not ask"""
    for e in p.trace:
        if e.k != "decision":
            continue
        tt, pol = e.test, e.outcome
        while tt[0] == "not":
            tt, pol = tt[1], not pol
        if tt[0] == "cmp" and tt[1] in ("Is", "Eq", "IsNot", "NotEq"):
            a, b = tt[2], tt[3]
            if {a, b} == {("attr", SELF, "data_type"), ("builtin", "bool")}:
                return pol if tt[1] in ("Is", "Eq") else not pol
    return None


def _abstract_index(t, is_index):
    """the term with every slot index replaced by a placeholder and call ids dropped, so that two readers can be compared"""
    if not isinstance(t, tuple):
        return t
    if is_index(t):
        return ("<i>",)
    if t[0] == "sub" and len(t) >= 3:
        return ("sub", _abstract_index(t[1], is_index), _abstract_index(t[2], is_index))
    if t[0] == "call":
        return ("call", t[1], tuple(_abstract_index(x, is_index) for x in t[2]))
    return tuple(_abstract_index(x, is_index) for x in t)


def rule_ms7(ctx: Ctx) -> RuleResult:
    """is_set / is_cleared answer from the marker of the method's own slot; iterate enumerates exactly the slots that are not
    CLEARED, each with its own key, value and 'is set' flag."""
    r = RuleResult("MS-7", "is_set / is_cleared read the marker of slot key[0]; iterate yields (keys[i], values[i], state[i] == SET) for exactly the slots not CLEARED")
    for name, code in (("is_set", "SET"), ("is_cleared", "CLEARED")):
        mm, fn = _method(ctx, name)
        r.instances += 1
        for p in _contract_paths(ctx, mm, fn):
            r.paths += 1
            v = p.value
            rel = None
            for e in p.trace:
                if e.k == "decision":
                    rel = _marker_relation(e.test, e.outcome, _key0) or rel
            if rel is not None:
                ok = rel[0] == code and v == ("const", rel[1])
            else:
                vr = _marker_relation(v, True, _key0) if v is not None and v[0] in ("cmp", "not") else None
                ok = vr is not None and vr == (code, True)
            r.ob(ok, lambda name=name, code=code, v=v, p=p: _f(
                "MS-7", name, mm, fn, "%s(key) must be True exactly when the marker of slot key[0] is %s; this path [%s] returns %s" % (
                    name, code, "; ".join(e.brief() for e in p.trace if e.k == "decision"), show(v) if v is not None else None), trace_of(p)))
    # how get reads a SET slot, per kind of store:  {store is bool: value term with the slot index abstracted}
    gm, gfn = _method(ctx, "get")
    get_shapes = {}
    for p in ctx.fn_paths(gm, gfn):
        r.paths += 1
        if p.outcome != "return" or p.value is None or not any(x[0] == "sub" and _arr(x[1]) == "values" for x in subterms(p.value)):
            continue
        isb = _is_bool_store(p)
        for b in ((True, False) if isb is None else (isb,)):
            get_shapes[b] = _abstract_index(p.value, _key0)
    if set(get_shapes) != {True, False}:
        raise AnalysisError("MemoryStore.get: could not tell what a SET slot reads as for bool and for non-bool stores")
    mm, fn = _method(ctx, "iterate")
    r.instances += 1
    n_yield = 0
    for p in _contract_paths(ctx, mm, fn, max_iter=1):
        r.paths += 1
        its = [e for e in p.trace if e.k == "loopiter"]
        if not its:
            continue
        it = its[0]
        I = it.var
        rng = it.iter
        ok_rng = rng[0] == "call" and rng[1] == ("builtin", "range") and len(rng[2]) == 1 and rng[2][0][0] == "call" and rng[2][0][1] == ("builtin", "len") \
            and _arr(rng[2][0][2][0]) in ARRAYS
        r.ob(ok_rng, lambda: _f("MS-7", "iterate{range}", mm, it.node, "iterate must visit every slot index: range(len(<one of the three arrays>)); it iterates %s" % show(rng)))
        cleared = None
        for e in p.trace:
            if e.k == "decision":
                rel = _marker_relation(e.test, e.outcome, lambda x: x == I)
                if rel is not None and rel[0] == "CLEARED":
                    cleared = rel[1]
        ys = [e for e in p.trace if e.k == "yield"]
        if cleared is None:
            r.ob(False, lambda: _f("MS-7", "iterate{filter}", mm, it.node, "iterate does not test whether the slot is CLEARED", trace_of(p)))
            continue
        if cleared:
            r.ob(not ys, lambda: _f("MS-7", "iterate{filter}", mm, ys[0].node, "iterate yields a CLEARED slot (a deleted key)", trace_of(p)))
            continue
        n_yield += 1
        ok = len(ys) == 1
        if ok:
            v = ys[0].value
            ok = v[0] == "tuple" and len(v) == 4 and v[1][0] == "sub" and _arr(v[1][1]) == "keys" and v[1][2] == I \
                and any(x[0] == "sub" and _arr(x[1]) == "values" and x[2] == I for x in subterms(v[2])) and _marker_relation(v[3], True, lambda x: x == I) == ("SET", True)
        r.ob(ok, lambda: _f("MS-7", "iterate{yield}", mm, (ys[0].node if ys else it.node),
                            "for a slot that is not CLEARED iterate must yield (keys[i], <values[i] as get reads it>, state[i] == SET) once; it yields %s" % [show(y.value) for y in ys], trace_of(p)))
        if ok:
            # the two readers of the value array agree: what iterate yields for slot i is what get returns for a key of index i, for a
            # bool store and for any other store (get converts the 0 / 1 of the byte array back to a bool)
            isb = _is_bool_store(p)
            for want_b, shape in sorted(get_shapes.items(), key=str):
                if isb is not None and isb != want_b:
                    continue
                mine = _abstract_index(v[2], lambda x: x == I)
                r.ob(mine == shape, lambda want_b=want_b, shape=shape, mine=mine: _f(
                    "MS-7", "iterate{value-as-get}", mm, ys[0].node,
                    "for a %s store get(key) returns %s but iterate yields %s for the same slot: the value does not read back with the declared type "
                    "through iterate (a flag written as True reads back as the int 1, and fails `is True`)" % (
                        "bool" if want_b else "non-bool", show(shape), show(mine)), trace_of(p)))
    r.ob(n_yield >= 1, lambda: _f("MS-7", "iterate{yield}", mm, fn, "iterate has no path that yields a live slot"))
    r.require_instances(3)
    return r


def rule_ms_states(ctx: Ctx):
    """The MemoryStore obligations that concern plain per-key states (add_key / set / get / del_key, growth, typecodes): what roll,
    split and time_split rely on.  The obligations about group-index maps (mapper stores, add_map / get_map / iterate_map, the index
    allocator) are not theirs: a defect there is group_by's (C04) and the store's (C14)."""
    return _ms_states(ctx, ("MS-4",))


def rule_ms_states_untyped(ctx: Ctx):
    """the same without the typecode table (MS-5): for operators whose states hold objects only"""
    return _ms_states(ctx, ("MS-4", "MS-5"))


def ms_for_types(*types, maps=False):
    """the store obligations for an operator that declares states of the given data types only (the typecode of another data
    type is not its concern); maps=True keeps the group-index map obligations (group_by)"""
    def run(ctx):
        out = []
        for r in rule_ms(ctx):
            if r.rule == "MS-4" and not maps:
                continue
            kept = []
            for f in r.findings:
                if "{typecode:" in f.construct and f.construct.split("{typecode:")[1].rstrip("}") not in types:
                    continue
                if not maps and ("mapper" in f.construct or "_map" in f.construct or "new_index" in f.construct):
                    continue
                kept.append(f)
            r.discharged += len(r.findings) - len(kept)
            r.findings = kept
            out.append(r)
        # the layers between an operator and the MemoryStore: StoreManager / Store pass every operation on, unchanged and uncached
        r6 = rule_ms6(ctx)
        if not maps:
            kept = [f for f in r6.findings if "_map" not in f.construct]
            r6.discharged += len(r6.findings) - len(kept)
            r6.findings = kept
        out.append(r6)
        return out
    run.__name__ = "rule_ms_" + "_".join(types)
    return run


def _ms_states(ctx, skip):
    out = []
    for r in rule_ms(ctx):
        if r.rule in skip:
            continue
        kept = [f for f in r.findings if "mapper" not in f.construct and "_map" not in f.construct and "new_index" not in f.construct]
        dropped = len(r.findings) - len(kept)
        r.findings = kept
        r.discharged += dropped
        out.append(r)
    return out


TOPO = "rxsci/state/state_topology.py"


def rule_tp1(ctx: Ctx) -> RuleResult:
    """TP-1: the state topology hands every declaration its own state id: create_state appends one definition carrying the declared
    data type and default and returns the index of that new entry, on every path; create_mapper is create_state(name, 'mapper') --
    neither returns the id of an existing state (two operators declaring a state of the same name would share one store)."""
    r = RuleResult("TP-1", "StateTopology: every create_state / create_mapper call appends one definition (declared type and default) and returns its new index")
    m, fn = ctx.function(TOPO, "StateTopology.create_state")
    r.instances += 1
    params = m.scopes[fn].params
    for p in ctx.fn_paths(m, fn, inline=False):
        r.paths += 1
        apps = [e for e in p.trace if e.k == "mutate" and e.method == "append" and e.base == ("attr", SELF, "states")]
        ok = p.outcome == "return" and len(apps) == 1
        v = p.value
        if ok:
            sd = apps[0].args[0]
            flds = [x for x in sd[2]] if sd[0] == "call" else []
            vals = [x[2] if x[0] == "kw" else x for x in flds]
            ok = ("arg", "data_type") in vals and ("arg", "default_value") in vals
            f = linform(v) if v is not None else None
            ln = [a for a in (f[0] if f else {}) if a[0] == "call" and a[1] == ("builtin", "len") and a[2][0] == ("attr", SELF, "states")]
            ok = ok and f is not None and len(f[0]) == 1 and len(ln) == 1 and f[0][ln[0]] == 1 and f[1] in (-1, 0)
            if ok:
                # where was len(self.states) taken?  in the first assignment whose value contains it, else at the return itself
                k_app = p.trace.index(apps[0])
                took = [k for k, e in enumerate(p.trace) if e.k == "assign" and any(x == ln[0] for x in subterms(e.d["value"]))]
                after = (not took) or took[0] > k_app
                # the id of the new entry: the length after the append minus one, or the length before it
                ok = (f[1] == -1 and after) or (f[1] == 0 and not after)
        r.ob(ok, lambda p=p, apps=apps: _topo_f("create_state", m, fn,
                                               "every path must append exactly one StateDef(name, data_type, default_value) and return the index of that entry (len(self.states) - 1 "
                                               "after the append, or len(self.states) taken before it); this path appends %d definition(s) and returns %s" % (len(apps), show(p.value) if p.value is not None else None), p))
    m2, fn2 = ctx.function(TOPO, "StateTopology.create_mapper")
    r.instances += 1
    for p in ctx.fn_paths(m2, fn2, inline=False):
        r.paths += 1
        v = p.value
        ok = p.outcome == "return" and v is not None and v[0] == "mcall" and v[1] == SELF and v[2] == "create_state" \
            and any((a[0] == "kw" and a[1] == "data_type" and a[2] == ("const", "mapper")) or a == ("const", "mapper") for a in v[3]) \
            and any(a == ("arg", "name") or (a[0] == "kw" and a[2] == ("arg", "name")) for a in v[3])
        r.ob(ok, lambda p=p: _topo_f("create_mapper", m2, fn2,
                                     "every path must return self.create_state(name, data_type='mapper'), a new state; this path returns %s [%s]" % (
                                         show(p.value) if p.value is not None else None, "; ".join(e.brief() for e in p.trace if e.k == "decision")), p))
    r.require_instances(2)
    return r


def _topo_f(what, m, node, msg, p):
    return Finding("TP-1", "%s::StateTopology.%s" % (TOPO, what), m.where(node), msg, trace_of(p))


RULES = [rule_ms, rule_ms6, rule_ms7, rule_tp1]
