"""Linear normal forms of arithmetic terms (used to compare tests up to algebra).

A linear form is ({atom term: coefficient}, constant).  Atoms are terms that are
not +, -, unary minus or multiplication by an integer constant.  This is plain
normalisation, no solver: two tests are accepted as the same test only if their
normal forms are equal (up to an overall sign for equalities).
"""
from __future__ import annotations

from fractions import Fraction


def linform(t):
    """Return (coeffs: dict, const) or None if a constant is not numeric."""
    h = t[0]
    if h == "const":
        if isinstance(t[1], bool) or not isinstance(t[1], (int, float)):
            return None
        return ({}, Fraction(t[1]))
    if h == "binop" and t[1] in ("Add", "Sub"):
        a, b = linform(t[2]), linform(t[3])
        if a is None or b is None:
            return None
        sign = 1 if t[1] == "Add" else -1
        co = dict(a[0])
        for k, v in b[0].items():
            co[k] = co.get(k, 0) + sign * v
        return ({k: v for k, v in co.items() if v != 0}, a[1] + sign * b[1])
    if h == "binop" and t[1] == "Mult":
        for x, y in ((t[2], t[3]), (t[3], t[2])):
            if x[0] == "const" and isinstance(x[1], (int, float)) and not isinstance(x[1], bool):
                f = linform(y)
                if f is None:
                    return None
                c = Fraction(x[1])
                return ({k: v * c for k, v in f[0].items() if v * c != 0}, f[1] * c)
    if h == "unop" and t[1] == "USub":
        f = linform(t[2])
        if f is None:
            return None
        return ({k: -v for k, v in f[0].items()}, -f[1])
    return ({t: Fraction(1)}, Fraction(0))


def diff(a, b):
    """Linear form of a - b."""
    fa, fb = linform(a), linform(b)
    if fa is None or fb is None:
        return None
    co = dict(fa[0])
    for k, v in fb[0].items():
        co[k] = co.get(k, 0) - v
    return ({k: v for k, v in co.items() if v != 0}, fa[1] - fb[1])


FLIP = {"Lt": "Gt", "Gt": "Lt", "LtE": "GtE", "GtE": "LtE", "Eq": "Eq", "NotEq": "NotEq"}
NEG = {"Lt": "GtE", "GtE": "Lt", "Gt": "LtE", "LtE": "Gt", "Eq": "NotEq", "NotEq": "Eq"}


def normalise_cmp(test, outcome=True):
    """(op, coeffs, const) meaning  sum(coeffs) + const  op  0  for a comparison
    term taken with the given outcome; None if not an arithmetic comparison.
    The form is sign-normalised so that equal tests have equal normal forms."""
    if test[0] != "cmp" or test[1] not in FLIP:
        return None
    op = test[1] if outcome else NEG[test[1]]
    d = diff(test[2], test[3])
    if d is None:
        return None
    co, c = d
    if not co:
        return (op, (), c)
    # canonical sign: the smallest atom (by repr) has a positive coefficient
    first = min(co, key=repr)
    if co[first] < 0:
        co = {k: -v for k, v in co.items()}
        c = -c
        op = FLIP[op]
    return (op, tuple(sorted(co.items(), key=lambda kv: repr(kv[0]))), c)


def form_of(pairs, const=0):
    """Build a normal form from [(atom, coeff)] for comparison with normalise_cmp."""
    co = {k: Fraction(v) for k, v in pairs}
    c = Fraction(const)
    first = min(co, key=repr)
    flipped = False
    if co[first] < 0:
        co = {k: -v for k, v in co.items()}
        c = -c
        flipped = True
    return tuple(sorted(co.items(), key=lambda kv: repr(kv[0]))), c, flipped


def quotient_shape(t):
    """('ceil'|'floor', N, S) when t is a recognised spelling of ceil(N / S) or floor(N / S) over the integers:
    -(-N // S), (N + S - 1) // S, (N - 1) // S + 1, math.ceil(N / S), int(math.ceil(N / S)), N // S, math.floor(N / S).
    N is returned as a linear form (coeffs, const), S as a term.  None for anything else."""
    if t[0] == "call" and t[1] == ("builtin", "int") and len(t[2]) == 1 and t[2][0][0] == "call" and t[2][0][1][0] == "glob":
        t = t[2][0]
    if t[0] == "call" and t[1] in (("glob", "math.ceil"), ("glob", "math.floor")) and len(t[2]) == 1:
        q = t[2][0]
        if q[0] == "binop" and q[1] == "Div":
            f = linform(q[2])
            if f is not None:
                return ("ceil" if t[1][1].endswith("ceil") else "floor", f, q[3])
        return None
    if t[0] == "unop" and t[1] == "USub" and t[2][0] == "binop" and t[2][1] == "FloorDiv":
        f = linform(t[2][2])
        if f is not None:
            return ("ceil", ({k: -v for k, v in f[0].items()}, -f[1]), t[2][3])
        return None
    if t[0] == "binop" and t[1] == "FloorDiv":
        S = t[3]
        f = linform(t[2])
        if f is None:
            return None
        co = dict(f[0])
        if co.get(S) == 1 and f[1] == -1:
            del co[S]
            return ("ceil", (co, Fraction(0)), S)
        return ("floor", f, S)
    if t[0] == "binop" and t[1] == "Add":
        for a, b in ((t[2], t[3]), (t[3], t[2])):
            if b == ("const", 1) and a[0] == "binop" and a[1] == "FloorDiv":
                f = linform(a[2])
                if f is not None:
                    return ("ceil", (f[0], f[1] + 1), a[3])
    return None
