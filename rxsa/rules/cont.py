"""C18 (CSV), C19 (JSON lines), C20 (parquet): writer/reader table agreement,
pipeline symmetry, DP-7 (decimal parser is not a separable sum), PU-2 (stateless
record builder)."""
from __future__ import annotations

import ast

from ..engine import Ctx, Finding, RuleResult, cfg_str, trace_of
from ..loader import AnalysisError, dotted_name
from ..model import _lookup_def, valuations
from ..terms import EV, show, subterms
from .common import emissions, mk_finding, summary
from .io import _defaults
from .linear import linform, normalise_cmp
from .scan import callback_effects

CSV = "rxsci/container/csv.py"


def _normal(p):
    return not any(e.d.get("raised") for e in p.trace) and p.outcome != "raise"


_PATTERN_ENV = {}      # closure variables of the parser factory holding a pattern (name -> pattern), set by the rule that needs them


def _ast_pattern(n, env):
    """pattern of a simple expression of the factory:  escapechar + '"',  escapechar * 2,  f'{escapechar}"'"""
    if isinstance(n, ast.Constant) and isinstance(n.value, str):
        return n.value
    if isinstance(n, ast.Name):
        if n.id in ("escapechar", "separator", "newline"):
            return "<%s>" % n.id
        return env.get(n.id)
    if isinstance(n, ast.BinOp) and isinstance(n.op, ast.Add):
        a, b = _ast_pattern(n.left, env), _ast_pattern(n.right, env)
        return None if a is None or b is None else a + b
    if isinstance(n, ast.BinOp) and isinstance(n.op, ast.Mult):
        for x, k in ((n.left, n.right), (n.right, n.left)):
            if isinstance(k, ast.Constant) and isinstance(k.value, int) and not isinstance(k.value, bool) and 0 <= k.value <= 8:
                a = _ast_pattern(x, env)
                return None if a is None else a * k.value
        return None
    if isinstance(n, ast.JoinedStr):
        parts = []
        for v in n.values:
            if isinstance(v, ast.Constant):
                parts.append(v.value)
            elif isinstance(v, ast.FormattedValue) and v.conversion == -1 and v.format_spec is None:
                parts.append(_ast_pattern(v.value, env))
            else:
                return None
        return None if any(x is None for x in parts) else "".join(parts)
    return None


def pattern_env(fn):
    """{name: pattern} for the names a function assigns exactly once, at its top level, to a simple pattern expression"""
    env, count = {}, {}
    for s in ast.walk(fn):
        if isinstance(s, (ast.Assign, ast.AugAssign, ast.AnnAssign)):
            for tg in (s.targets if isinstance(s, ast.Assign) else [s.target]):
                for x in ast.walk(tg):
                    if isinstance(x, ast.Name):
                        count[x.id] = count.get(x.id, 0) + 1
    for s in fn.body:
        if isinstance(s, ast.Assign) and len(s.targets) == 1 and isinstance(s.targets[0], ast.Name) and count.get(s.targets[0].id) == 1:
            v = _ast_pattern(s.value, env)
            if v is not None:
                env[s.targets[0].id] = v
    return env


def pattern(t):
    """String pattern of a term built from literals and the escapechar/separator parameters."""
    if t[0] == "const" and isinstance(t[1], str):
        return t[1]
    if t[0] == "free" and t[1] in _PATTERN_ENV:
        return _PATTERN_ENV[t[1]]
    if t[0] == "binop" and t[1] == "Mult":
        for x, k in ((t[2], t[3]), (t[3], t[2])):
            if k[0] == "const" and isinstance(k[1], int) and not isinstance(k[1], bool) and 0 <= k[1] <= 8:
                a = pattern(x)
                return None if a is None else a * k[1]
        return None
    if t[0] in ("param", "arg") and t[1] in ("escapechar", "separator", "newline"):
        return "<%s>" % t[1]
    if t[0] == "fstr":
        parts = [pattern(x) for x in t[1:]]
        if any(p is None for p in parts):
            return None
        return "".join(parts)
    if t[0] == "binop" and t[1] == "Add":
        a, b = pattern(t[2]), pattern(t[3])
        return None if a is None or b is None else a + b
    if t[0] == "mcall" and t[2] == "format" and t[1][0] == "const" and isinstance(t[1][1], str):
        # '{0}{0}'.format(escapechar), '{}"'.format(escapechar)
        import re
        args = [pattern(a) for a in t[3] if a[0] != "kw"]
        if any(a is None for a in args) or any(a[0] == "kw" for a in t[3]):
            return None
        auto = [0]

        def repl(mo):
            k = mo.group(1)
            if k == "":
                k = auto[0]
                auto[0] += 1
            k = int(k)
            if k >= len(args):
                raise ValueError
            return args[k]
        try:
            return re.sub(r"\{(\d*)\}", repl, t[1][1])
        except ValueError:
            return None
    return None


def _parts(v):
    """The pieces a text is assembled from, in order (string constants and other terms), for a + b, f-strings and
    str.format with positional / automatic fields; None for anything else.  Adjacent constants are merged."""
    import re
    if v[0] == "const" and isinstance(v[1], str):
        out = [v[1]]
    elif v[0] == "binop" and v[1] == "Add":
        a, b = _parts(v[2]), _parts(v[3])
        if a is None or b is None:
            return None
        out = a + b
    elif v[0] == "fstr":
        out = []
        for x in v[1:]:
            q = _parts(x)
            if q is None:
                return None
            out += q
    elif v[0] == "mcall" and v[2] == "format" and v[1][0] == "const" and isinstance(v[1][1], str):
        args = [a for a in v[3]]
        if any(a[0] == "kw" for a in args):
            return None
        out = []
        auto = 0
        pos = 0
        for mo in re.finditer(r"\{(\d*)\}", v[1][1]):
            if mo.start() > pos:
                out.append(v[1][1][pos:mo.start()])
            k = mo.group(1)
            if k == "":
                k = auto
                auto += 1
            k = int(k)
            if k >= len(args):
                return None
            q = _parts(args[k])
            if q is None:
                return None
            out += q
            pos = mo.end()
        if pos < len(v[1][1]):
            out.append(v[1][1][pos:])
        if "{" in "".join(x for x in out if isinstance(x, str) and x not in ("{",)) and False:
            return None
    else:
        out = [v]
    merged = []
    for x in out:
        if isinstance(x, str) and merged and isinstance(merged[-1], str):
            merged[-1] += x
        elif x != "":
            merged.append(x)
    return merged


def _quoted_wrap(v):
    """X if v is the text '"' X '"' (however it is assembled), else None."""
    ps = _parts(v)
    if ps is not None and len(ps) == 3 and ps[0] == '"' and ps[2] == '"' and not isinstance(ps[1], str):
        return ps[1]
    return None


def _replace_chain(t):
    """[(old, new)] applied to a base value by nested .replace calls; returns (base, chain)."""
    chain = []
    while t[0] == "mcall" and t[2] == "replace" and len(t[3]) == 2:
        chain.append((pattern(t[3][0]), pattern(t[3][1])))
        t = t[1]
    chain.reverse()
    return t, chain


def _field_alternatives(p):
    """The text written for one field on the path p of the csv writer, whatever the idiom: a loop over the item that
    appends one text per field, or a comprehension over the item applying a formatter.
    Returns (row ok, [(decisions [(test, outcome)], value, field term)]) ; row ok says that the emitted row is
    separator.join(<these texts>) + newline."""
    ems = [m for m in emissions(p) if m.method == "on_next"]
    last = ems[-1].eff.arg if ems else None
    row_ok = last is not None and last[0] == "binop" and last[1] == "Add" and last[3][0] == "param" and last[3][1] == "newline" and \
        last[2][0] == "mcall" and last[2][2] == "join" and last[2][1][0] == "param" and last[2][1][1] == "separator" and len(last[2][3]) == 1
    if not row_ok:
        return False, []
    fields = last[2][3][0]
    alts = []
    if fields[0] == "comp" and len(fields) >= 5 and len(fields[4]) == 1 and fields[4][0] == EV:
        elt = fields[3]
        F = next((x for x in subterms(elt) if x[0] == "compvar"), None) if elt[0] != "alts" else \
            next((x for a_ in elt[1:] for t_ in [a_[2]] + [d[0] for d in a_[1]] for x in subterms(t_) if x[0] == "compvar"), None)
        if elt[0] == "alts":
            for a_ in elt[1:]:
                alts.append((list(a_[1]), a_[2], F))
        else:
            alts.append(([], elt, F))
        return True, alts
    # a list filled by one append per iteration of a loop over the item
    loops = [e for e in p.trace if e.k == "loopiter" and e.iter == EV]
    for it in loops:
        pos = p.trace.index(it)
        end = next((k for k in range(pos + 1, len(p.trace)) if p.trace[k].k in ("loopiter", "loopexit")), len(p.trace))
        body = p.trace[pos:end]
        apps = [e for e in body if e.k == "mutate" and e.method == "append" and e.base == fields]
        if len(apps) != 1:
            return False, []
        alts.append(([(e.test, e.outcome) for e in body if e.k == "decision"], apps[0].args[0], it.var))
    return True, alts


def _is_str_test(t, F):
    """(polarity) of a test 'the field is a str' on the field term F (or on str(F)), None if it is another test"""
    if t[0] == "cmp" and t[1] in ("Is", "Eq", "IsNot", "NotEq") and t[3] == ("builtin", "str") and t[2][0] == "call" and t[2][1] == ("builtin", "type"):
        return t[1] in ("Is", "Eq")
    if t[0] == "call" and t[1] == ("builtin", "isinstance") and len(t[2]) == 2 and t[2][1] == ("builtin", "str"):
        return True
    return None


def rule_csv_tables(ctx: Ctx) -> RuleResult:
    r = RuleResult("CS-1", "CSV: the escape pairs undone by the line parser are the inverses of those applied by dump; separator/escapechar defaults agree and reach join/split; type table")
    site = ctx.site(CSV, "dump._dump.on_subscribe")
    spec = site.handler_specs("on_next")[0]
    r.instances += 1
    writer = None
    none_ok = other_ok = False
    for cfg in valuations(ctx.space(spec)):
        for p in ctx.paths(spec, None, cfg, max_iter=1):
            r.paths += 1
            if not _normal(p):
                continue
            row_ok, alts = _field_alternatives(p)
            if not row_ok and not any(e.k == "loopiter" for e in p.trace) and not any(x[0] == "comp" for e in p.trace if e.k == "emit" and e.arg for x in subterms(e.arg)):
                continue
            r.groups.add(("dump", len(r.groups)))
            r.ob(row_ok, lambda: mk_finding("CS-1", spec, None, cfg, p, "the row must be separator.join(<one text per field>) + newline; emitted %s" % summary(p), extra="row"))
            for decs, v, F in alts:
                strs = [(_is_str_test(t, F), o) for t, o in decs if _is_str_test(t, F) is not None]
                is_str = any(pol == o for pol, o in strs)
                if is_str:
                    # the quoted, escaped field:  '"' + <replace chain> + '"'
                    inner_v = _quoted_wrap(v)
                    ok = inner_v is not None
                    if ok:
                        base, chain = _replace_chain(inner_v)
                        writer = chain
                        ok = len(chain) == 2
                    r.ob(ok, lambda v=v: mk_finding("CS-1", spec, None, cfg, p, "a string field must be escaped (escapechar, then quote) and wrapped in quotes; it is written as %s" % show(v), extra="escape"))
                else:
                    isnone = [(t, o) for t, o in decs if t[0] == "cmp" and t[1] in ("Is", "Eq") and ("const", None) in (t[2], t[3])]
                    if isnone and isnone[0][1]:
                        none_ok = none_ok or v == ("const", "")
                        r.ob(v == ("const", ""), lambda v=v: mk_finding("CS-1", spec, None, cfg, p, "None must be written as an empty field; it is written as %s" % show(v), extra="none"))
                    elif isnone:
                        other_ok = other_ok or (v[0] == "call" and v[1] == ("builtin", "str"))
                        r.ob(v[0] == "call" and v[1] == ("builtin", "str"), lambda v=v: mk_finding("CS-1", spec, None, cfg, p, "numbers and booleans must be written with str(); written as %s" % show(v), extra="str"))
    # the header line: once, before the first row, when header is True
    from .common import subscribe_inits
    inits = subscribe_inits(site)
    saw_header = saw_plain = False
    for cfg in valuations(ctx.space(spec)):
        for p in ctx.paths(spec, None, cfg, max_iter=1):
            if not _normal(p):
                continue
            ems = [x for x in emissions(p) if x.method == "on_next"]
            if not ems:
                continue
            heads = [x for x in ems[:-1]]
            if not heads:
                saw_plain = True
                continue
            saw_header = True
            # the 'first row' flag: a closure variable tested on this path and switched to the opposite constant on it
            polarity = {}
            for e in p.trace:
                if e.k != "decision":
                    continue
                tt, pol = e.test, e.outcome
                while tt[0] == "not":
                    tt, pol = tt[1], not pol
                if tt[0] == "free":
                    polarity[tt[1]] = pol
                elif tt[0] == "cmp" and tt[1] in ("Is", "Eq", "IsNot", "NotEq") and tt[2][0] == "free" and tt[3][0] == "const" and isinstance(tt[3][1], bool):
                    polarity[tt[2][1]] = (pol == (tt[1] in ("Is", "Eq"))) == tt[3][1]
            flag = [e for e in p.trace if e.k == "nonlocal" and e.name in polarity and e.value == ("const", not polarity[e.name])]
            started = False
            for e in flag:
                init = inits.get(e.name)
                if isinstance(init, ast.Constant):
                    started = started or init.value is polarity[e.name]
                elif init is not None:
                    # computed when the subscription is made: it must depend on the header parameter
                    started = started or any(isinstance(x, ast.Name) and x.id == "header" for x in ast.walk(init))
            fields = any(x == ("attr", EV, "_fields") for h in heads for x in subterms(h.eff.arg))
            if not fields and heads:
                # the names collected by an explicit loop over the item's fields into the list that is joined
                hp = p.trace.index(heads[0].eff)
                loops = [e for e in p.trace[:hp] if e.k == "loopiter" and e.iter == ("attr", EV, "_fields")]
                empty = [e for e in p.trace[:hp] if e.k == "loopexit" and e.d.get("iter") == ("attr", EV, "_fields") and e.d.get("n") == 0]
                joined = [x[3][0] for x in subterms(heads[0].eff.arg) if x[0] == "mcall" and x[2] == "join" and len(x[3]) == 1]
                fields = (bool(loops) and any(e.k == "mutate" and e.method == "append" and e.base in joined and any(
                    y[0] == "loopvar" and y[1] == loops[0].loop for y in subterms(e.args[0])) for e in p.trace[:hp])) or \
                    (bool(empty) and not loops and ("list",) in joined)      # an item without fields: the loop over them is not entered
            ok = len(heads) == 1 and cfg.get("header") in ("True", None) and bool(flag) and started and fields
            r.ob(ok, lambda p=p, cfg=cfg, heads=heads, flag=flag: mk_finding(
                "CS-1", spec, None, cfg, p, "the header (the field names of the item) must be written once, before the first row, only when header is True, and the "
                "'first row' flag must be switched on that path (it %s): otherwise the header comes back with every row; path emits %s" % (
                    "is" if flag else "is not", summary(p)), extra="header"))
    r.ob(saw_header and saw_plain, lambda: Finding("CS-1", "%s::dump{header}" % CSV, site.where(), "dump must have a path that writes the header before the first row and one that writes a row only"))
    want_w = [("<escapechar>", "<escapechar><escapechar>"), ('"', '<escapechar>"')]
    r.ob(writer == want_w, lambda: Finding("CS-1", "%s::dump{escape-table}" % CSV, site.where(),
                                           "dump must double the escape character and then escape the quote; it applies %s" % writer))
    r.ob(none_ok and other_ok, lambda: Finding("CS-1", "%s::dump{type-table}" % CSV, site.where(), "dump no longer has the None -> '' and str(number) branches"))
    # ---- reader --------------------------------------------------------------
    m, fn = ctx.function(CSV, "create_line_parser.parse_line")
    r.instances += 1
    _PATTERN_ENV.clear()
    _PATTERN_ENV.update(pattern_env(m.enclosing_function(fn)))
    reader = None
    parser_calls_seen = False
    split_ok = False
    merge_args_ok = None
    mm_, mfn = ctx.function(CSV, "merge_escape_parts")
    for p in ctx.fn_paths(m, fn, cfg={"ignore_error": "False"}, max_iter=1, no_inline=(mfn,)):
        r.paths += 1
        if not _normal(p):
            continue
        LINE = ("arg", m.scopes[fn].params[0])
        for e in p.trace:
            if e.k == "call" and e.d.get("method") == "split" and e.base == LINE:
                split_ok = split_ok or (len(e.args) == 1 and e.args[0][0] == "param" and e.args[0][1] == "separator")
            if e.k == "call" and e.func == ("func", mfn, mm_):
                ok_ = len(e.args) == 3 and e.args[1][0] == "param" and e.args[1][1] == "separator" and e.args[2][0] == "param" and e.args[2][1] == "escapechar"
                merge_args_ok = ok_ if merge_args_ok is None else (merge_args_ok and ok_)
        # the fields come from the merger applied to the FULL split of the line, on every path (a bounded split, or a path that skips the
        # merger, leaves a separator inside a quoted field unexamined: ',a' is written '",a"' and splits into '"' and 'a"')
        splits = [e for e in p.trace if e.k == "call" and e.d.get("method") == "split" and e.base == LINE]
        merges = [e for e in p.trace if e.k == "call" and e.func == ("func", mfn, mm_)]
        full = len(splits) >= 1 and all(len(s.args) == 1 for s in splits)
        okp = full and len(merges) == 1 and bool(merges[0].args) and any(merges[0].args[0] == s.result for s in splits)
        if full and not merges:
            # the merger may be skipped exactly when the full split already has one piece per column: every separator inside a quoted
            # field adds a piece, so equal counts mean that no field contains one
            def count_eq(e):
                tt, pol = e.test, e.outcome
                while tt[0] == "not":
                    tt, pol = tt[1], not pol
                if tt[0] != "cmp" or tt[1] not in ("Eq", "NotEq"):
                    return False
                sides = (tt[2], tt[3])
                lens = [x for x in sides if x[0] == "call" and x[1] == ("builtin", "len") and any(x[2][0] == s.result for s in splits)]
                cols = [x for x in sides if x == ("arg", m.scopes[fn].params[2])]
                return bool(lens) and bool(cols) and (pol == (tt[1] == "Eq"))
            okp = any(count_eq(e) for e in p.trace if e.k == "decision")
        r.ob(okp, lambda p=p, splits=splits, merges=merges: Finding(
            "CS-1", "%s::parse_line{full-split}" % CSV, m.where(fn),
            "on this path the fields do not come from merge_escape_parts(line.split(separator), ...): %d split(s) [%s], %d call(s) of the merger -- a quoted field "
            "containing the separator is cut where the merger was not consulted" % (
                len(splits), "; ".join(s.brief()[:50] for s in splits), len(merges)), trace_of(p)))
        # every field of a row that is read goes through the parser of its column, unless it is one of the caller's none_values (a field
        # that gets its value from anywhere else -- a schema default, a constant -- does not come back as it was written: '' is written '""')
        if p.outcome == "return" and any(e.k == "loopiter" for e in p.trace):
            COLS = ("arg", m.scopes[fn].params[1])
            parsed = any(e.k == "call" and e.func[0] == "sub" and e.func[1] == COLS and e.args for e in p.trace)
            none_t = any(e.k == "decision" and e.outcome and e.test[0] == "cmp" and e.test[1] == "In" and e.test[3][0] == "param" and e.test[3][1] == "none_values"
                         for e in p.trace)
            r.ob(parsed or none_t, lambda p=p: Finding(
                "CS-1", "%s::parse_line{field-parser}" % CSV, m.where(fn),
                "on this path a field is neither one of none_values nor handed to its column parser: its value does not come from the text that was "
                "written", trace_of(p)))
        # the unquoting branch: value handed to the column parser is a replace chain over i[1:-1]
        for e in p.trace:
            if e.k == "call" and e.func[0] == "sub" and e.func[1] == ("arg", m.scopes[fn].params[1]) and e.args:
                parser_calls_seen = True
                base, chain = _replace_chain(e.args[0])
                if chain:
                    reader = chain
                    ok = base[0] == "sub" and base[2][0] == "slice" and base[2][1] == ("const", 1) and base[2][2] == ("const", -1)
                    r.ob(ok, lambda: Finding("CS-1", "%s::parse_line{unquote}" % CSV, m.where(e.node),
                                             "a quoted field must be stripped of exactly its first and last character before unescaping; base is %s" % show(base)))
    r.ob(split_ok, lambda: Finding("CS-1", "%s::parse_line{split}" % CSV, m.where(fn), "the line must be split on the separator parameter"))
    inv = [(b, a) for a, b in want_w]
    if not parser_calls_seen:
        # the field loop written as a comprehension (or map) over a local helper that handles one field: the helper's paths are the
        # loop body
        cname = m.scopes[fn].params[1]
        called_in_comp = {c.func.id for comp in ast.walk(fn) if isinstance(comp, (ast.ListComp, ast.GeneratorExp)) for c in ast.walk(comp)
                          if isinstance(c, ast.Call) and isinstance(c.func, ast.Name)}
        called_in_comp |= {c.args[0].id for c in ast.walk(fn) if isinstance(c, ast.Call) and isinstance(c.func, ast.Name) and c.func.id == "map"
                           and c.args and isinstance(c.args[0], ast.Name)}
        helpers = [h for h in ast.walk(fn) if isinstance(h, ast.FunctionDef) and h is not fn and m.enclosing_function(h) is fn and h.name in called_in_comp]
        for h in helpers:
            for p in ctx.fn_paths(m, h, cfg={"ignore_error": "False"}, max_iter=1):
                r.paths += 1
                if not _normal(p):
                    continue
                pcs = [e for e in p.trace if e.k == "call" and e.func[0] == "sub" and e.func[1][0] in ("arg", "free", "param") and e.func[1][1] == cname and e.args]
                if p.outcome == "return":
                    none_t = any(e.k == "decision" and e.outcome and e.test[0] == "cmp" and e.test[1] == "In" and e.test[3][0] == "param" and e.test[3][1] == "none_values"
                                 for e in p.trace)
                    r.ob(bool(pcs) or none_t, lambda p=p, h=h: Finding(
                        "CS-1", "%s::parse_line{field-parser}" % CSV, m.where(h),
                        "on this path of %s a field is neither one of none_values nor handed to its column parser: its value does not come from the text "
                        "that was written" % h.name, trace_of(p)))
                for e in pcs:
                    parser_calls_seen = True
                    base, chain = _replace_chain(e.args[0])
                    if chain:
                        reader = chain
                        ok = base[0] == "sub" and base[2][0] == "slice" and base[2][1] == ("const", 1) and base[2][2] == ("const", -1)
                        r.ob(ok, lambda e=e, base=base: Finding("CS-1", "%s::parse_line{unquote}" % CSV, m.where(e.node),
                                                                "a quoted field must be stripped of exactly its first and last character before unescaping; base is %s" % show(base)))
    if not parser_calls_seen:
        raise AnalysisError("csv parse_line: no path hands a field to its column parser in a form the rules can follow (the field loop is not a "
                            "statement loop over the pieces -- a comprehension over a helper, a map): the unescaping cannot be read")
    if reader is not None and any(x is None for pair in reader for x in pair):
        raise AnalysisError("csv parse_line: an argument of the unescaping replace chain is not a literal / escapechar pattern the analysis can read")
    r.ob(reader is not None and sorted(reader) == sorted(inv), lambda: Finding(
        "CS-1", "%s::parse_line{unescape-table}" % CSV, m.where(fn),
        "the parser must undo exactly the pairs applied by dump (%s -> inverse %s); it applies %s" % (want_w, inv, reader)))
    # ---- defaults --------------------------------------------------------------
    md, fd = ctx.function(CSV, "dump")
    mf, ff = ctx.function(CSV, "dump_to_file")
    mp, fp = ctx.function(CSV, "create_line_parser")
    dd, df, dp = _defaults(md, fd), _defaults(mf, ff), _defaults(mp, fp)
    r.instances += 1
    for k in ("separator", "escapechar"):
        r.ob(dd.get(k) == df.get(k) == dp.get(k) and dd.get(k) is not None, lambda k=k: Finding(
            "CS-1", "%s{default-%s}" % (CSV, k), md.where(fd), "default %s differs: dump %s, dump_to_file %s, create_line_parser %s" % (k, dd.get(k), df.get(k), dp.get(k))))
    r.ob(dd.get("newline") == df.get("newline") == "'\\n'", lambda: Finding("CS-1", "%s{default-newline}" % CSV, md.where(fd), "newline defaults differ from the line framing delimiter"))
    # dump_to_file forwards its parameters to dump
    calls = [n for n in ast.walk(ff) if isinstance(n, ast.Call) and dotted_name(n.func) == "dump"]
    ok = len(calls) == 1
    if ok:
        pos = [a.arg for a in fd.args.args]
        got = {}
        for k_, a_ in enumerate(calls[0].args):
            if k_ < len(pos):
                got[pos[k_]] = ast.unparse(a_)
        for k_ in calls[0].keywords:
            got[k_.arg] = ast.unparse(k_.value)
        ok = got == {"header": "header", "separator": "separator", "escapechar": "escapechar", "newline": "newline"}
    r.ob(ok, lambda: Finding("CS-1", "%s::dump_to_file{forward}" % CSV, mf.where(ff), "dump_to_file must forward header, separator, escapechar and newline to dump"))
    # merge_escape_parts receives separator and escapechar
    ok = merge_args_ok is True
    r.ob(ok, lambda: Finding("CS-1", "%s::parse_line{merge-args}" % CSV, m.where(fn), "merge_escape_parts must receive the separator and the escape character"))
    _check_none_filters(ctx, r, "CS-1", CSV, "load")
    # ---- type table --------------------------------------------------------------
    mt, ft = ctx.function(CSV, "type_parser")
    r.instances += 1
    tparam = mt.scopes[ft].params[0]

    def parser_for(*type_terms):
        """the function type_parser returns for each spelling of a column type; they must agree"""
        got = set()
        for tt in type_terms:
            for p in ctx.fn_paths(mt, ft, extra_env={tparam: tt}):
                if p.outcome == "return":
                    got.add(p.value)
                else:
                    got.add(None)
        return next(iter(got)) if len(got) == 1 else None

    def fn_of(t):
        if t is not None and t[0] in ("func", "lambda"):
            return t[2], t[1]
        return None
    pb = fn_of(parser_for(("const", "bool"), ("builtin", "bool")))
    okb = False
    if pb is not None:
        A0 = ("arg", pb[0].scopes[pb[1]].params[0])
        vals = {p.value for p in ctx.fn_paths(pb[0], pb[1])}
        okb = vals <= {("cmp", "Eq", A0, ("const", "True")), ("cmp", "Eq", ("const", "True"), A0)} and bool(vals)
    r.ob(okb, lambda: Finding(
        "CS-1", "%s::type_parser{bool}" % CSV, mt.where(ft), "bool fields are written with str() ('True'/'False') and must be parsed by comparison with 'True'"))
    for tname in ("int", "float"):
        pv = fn_of(parser_for(("const", tname), ("builtin", tname)))
        okp = pv is not None
        if okp:
            pm, pf = pv
            empty_none = False
            for p in ctx.fn_paths(pm, pf):
                d = [e for e in p.trace if e.k == "decision" and any(x[0] == "call" and x[1] == ("builtin", "len") for x in subterms(e.test))]
                if d and p.outcome == "return" and p.value == ("const", None):
                    empty_none = True
            okp = empty_none
        r.ob(okp, lambda tname=tname: Finding("CS-1", "%s::type_parser{%s-empty}" % (CSV, tname), mt.where(ft),
                                              "None is written as an empty field: the %s parser must map '' back to None" % tname))
        if pv is not None:
            # a non-empty field is read back by the constructor of the column's own type (the inverse of the writer's str())
            pm, pf = pv
            A0 = ("arg", pm.scopes[pf].params[0])
            vals = [p.value for p in ctx.fn_paths(pm, pf) if p.outcome == "return" and p.value != ("const", None)]
            okc = bool(vals) and all(v == ("call", ("builtin", tname), (A0,)) for v in vals)
            r.ob(okc, lambda tname=tname, vals=vals, pm=pm, pf=pf: Finding(
                "CS-1", "%s::type_parser{%s-constructor}" % (CSV, tname), pm.where(pf),
                "a non-empty %s field must be read back with %s(field) (int columns as exact ints, float columns with float()'s round-trip of str()); the parser "
                "chosen for %s columns returns %s" % (tname, tname, tname, [show(v) for v in vals])))
    ps = fn_of(parser_for(("const", "str"), ("builtin", "str")))
    oks = False
    if ps is not None:
        A0 = ("arg", ps[0].scopes[ps[1]].params[0])
        vals = {p.value for p in ctx.fn_paths(ps[0], ps[1])}
        oks = vals == {A0}
    r.ob(oks, lambda: Finding("CS-1", "%s::type_parser{str}" % CSV, mt.where(ft), "str fields must be returned unchanged by the parser chosen for str columns"))
    r.require_instances(4)
    return r


def rule_csv_merge(ctx: Ctx) -> RuleResult:
    """CS-2: the quoted-field merger consumes every split piece exactly once."""
    r = RuleResult("CS-2", "CSV quoted-field merger: every piece of the split line goes, exactly once, into the open quoted field or into the output")
    m, fn = ctx.function(CSV, "merge_escape_parts")
    r.instances += 1
    n_iter = 0
    seen = set()
    for p in ctx.fn_paths(m, fn, max_iter=2):
        r.paths += 1
        its = [e for e in p.trace if e.k == "loopiter"]
        if not its or not _normal(p):
            continue
        for it in its:
            t = it.var
            pos = p.trace.index(it)
            end = next((k for k in range(pos + 1, len(p.trace)) if p.trace[k].k in ("loopexit", "loopiter")), len(p.trace))
            body = p.trace[pos + 1:end]
            is_quote = any(e.k == "decision" and e.test[0] == "cmp" and e.test[1] == "Eq" and {e.test[2], e.test[3]} == {t, ("const", '"')} and e.outcome
                           for e in body)

            def is_piece(x, t=t, is_quote=is_quote):
                return x == t or (is_quote and x == ("const", '"'))
            consumed = []
            for e in body:
                if e.k == "mutate" and e.method == "append" and e.args and is_piece(e.args[0]):
                    consumed.append(e)
                elif e.k == "assign" and e.value[0] == "list" and any(is_piece(x) for x in e.value[1:]):
                    consumed.append(e)
            decs = "; ".join(e.brief() for e in body if e.k == "decision")
            # one obligation per distinct behaviour of an iteration: its decisions and what it does (tests folded by
            # constant propagation, e.g. 'agg is None' on the first iteration, leave no decision behind)
            sig = (decs, len(consumed), tuple(e.brief() for e in body if e.k in ("mutate", "assign", "substore")))
            if sig in seen:
                continue
            seen.add(sig)
            n_iter += 1
            r.groups.add(("merge", n_iter))
            r.ob(len(consumed) == 1, lambda decs=decs, consumed=consumed, it=it: Finding(
                "CS-2", "%s::merge_escape_parts{piece}" % CSV, m.where(it.node),
                "on the path [%s] a piece of the split line is %s: the re-assembled quoted field loses or repeats a separator-delimited part" % (
                    decs, "dropped" if not consumed else "consumed %d times" % len(consumed)), trace_of(p)))
            # a closed quoted field is re-joined with the separator
            for e in body:
                if e.k == "mutate" and e.method == "append" and e.args and e.args[0][0] == "mcall" and e.args[0][2] == "join":
                    r.ob(e.args[0][1] == ("arg", "separator"), lambda e=e: Finding(
                        "CS-2", "%s::merge_escape_parts{join}" % CSV, m.where(e.node), "the pieces of a quoted field must be re-joined with the separator; joined with %s" % show(e.args[0][1])))
    if n_iter < 5:
        raise AnalysisError("merge_escape_parts: fewer than 5 loop-body paths found (%d)" % n_iter)
    r.require_instances(1)
    return r


class _IndexErr(Exception):
    pass


# abstract pieces of a split line: (length class, first char is '"', last char is '"', the char before the last is the escape character)
# the last component: length of the run of escape characters right before a final quote (0 .. 4: every test the table knows looks at
# the parity of the run, at whether it is empty, or at a bounded number of characters before the quote, so five lengths stand for all).  The writer doubles every escape character and puts one in front of every quote, so a final quote after
# an even run (0, 2, 4, ...) is the closing quote of the field, after an odd run it is an escaped quote that belongs to the text.
_PIECES = [("E", None, None, None), ("Q", True, True, None), ("C", False, False, None)] + \
          [("L", a, b, c) for a in (True, False) for b in (True, False) for c in ((0, 1, 2, 3, 4) if b else (0,))]


def _piece_name(c):
    if c[0] == "E":
        return "the empty piece"
    if c[0] == "Q":
        return "the piece '\"'"
    if c[0] == "C":
        return "a one-character piece other than '\"'"
    runs = {0: " not preceded by the escape character", 1: " preceded by one escape character (an escaped quote)",
            2: " preceded by two escape characters (an escaped escape character, then the closing quote)",
            3: " preceded by three escape characters (an escaped escape character, then an escaped quote)",
            4: " preceded by four escape characters (two escaped escape characters, then the closing quote)"}
    return "a piece of two or more characters that %s with '\"', %s%s" % (
        "starts" if c[1] else "does not start", "ends with '\"'" if c[2] else "does not end with '\"'", runs[c[3]] if c[2] else "")


def _merge_spec(c, is_open):
    """what the merger must do with a piece: 'emit' it as a field, 'open' a quoted field with it, 'continue' the open field,
    'close' the open field with it"""
    kind, first, last, esc = c
    closes = kind == "Q" or (kind == "L" and last and esc % 2 == 0)
    if is_open:
        return "close" if closes else "continue"
    if kind == "Q":
        return "open"
    if kind == "L" and first:
        return "emit" if closes else "open"
    return "emit"


def _escape_run_parity(test, T):
    """True if the test says 'the run of escape characters before the last character of T has even length', False if it says
    'odd', None if it is not such a test.  Recognised form: <count> % 2 compared with 0 or 1, where <count> is the difference between
    len(T[:-1]) and len(T[:-1].rstrip(<escape character>)) (or the same through len(T) - 1)."""
    if test[0] != "cmp" or test[1] not in ("Eq", "NotEq"):
        return None
    for a, b in ((test[2], test[3]), (test[3], test[2])):
        if a[0] == "binop" and a[1] == "Mod" and a[3] == ("const", 2) and b[0] == "const" and b[1] in (0, 1):
            body = ("sub", T, ("slice", None, ("const", -1)))
            body0 = ("sub", T, ("slice", ("const", 0), ("const", -1)))
            strips = [x for x in subterms(a[2]) if x[0] == "mcall" and x[2] == "rstrip" and x[1] in (body, body0) and len(x[3]) == 1
                      and x[3][0][0] in ("arg", "param", "free")]
            if not strips:
                return None
            f = linform(a[2])
            if f is None:
                return None
            co, c0 = f
            ls = ("call", ("builtin", "len"), (strips[0],))
            lb = [k for k in co if k[0] == "call" and k[1] == ("builtin", "len") and k[2][0] in (body, body0)]
            lt = ("call", ("builtin", "len"), (T,))
            ok = (len(co) == 2 and co.get(ls) == -1 and len(lb) == 1 and co[lb[0]] == 1 and c0 == 0) or \
                 (len(co) == 2 and co.get(ls) == -1 and co.get(lt) == 1 and c0 == -1)
            if not ok:
                return None
            even_when_true = (b[1] == 0) == (test[1] == "Eq")
            return even_when_true
    return None


def _piece_atom(test, T, c):
    """truth of the test on the abstract piece c; None if the test does not concern the piece; _IndexErr if it indexes
    beyond the piece; AnalysisError for a test on the piece the table does not know"""
    from .seq import _no_epoch
    test = _no_epoch(test)
    if not any(x == T for x in subterms(test)):
        return None
    if test[0] == "not":
        v = _piece_atom(test[1], T, c)
        return None if v is None else (not v)
    kind, first, last, esc = c
    QUOTE = ("const", '"')
    if test[0] == "cmp" and test[1] in ("Eq", "NotEq"):
        a, b = test[2], test[3]
        for x, y in ((a, b), (b, a)):
            val = None
            if x == T and y == QUOTE:
                val = kind == "Q"
            elif x == T and y == ("const", ""):
                val = kind == "E"
            elif x[0] == "sub" and x[1] == T and x[2][0] == "const" and x[2][1] in (0, -1, -2):
                k = x[2][1]
                if kind == "E" or (k == -2 and kind != "L"):
                    raise _IndexErr()
                if y == QUOTE and k in (0, -1):
                    val = (kind == "Q") or (kind == "L" and (first if k == 0 else last))
                elif k == -2 and y[0] in ("arg", "param", "free"):
                    val = bool(esc)          # the character before the last one is the escape character iff the run is not empty
            if val is not None:
                return val if test[1] == "Eq" else (not val)
    if test[0] == "cmp":
        nf = normalise_cmp(test, True)
        if nf is not None:
            op, co, k = nf
            co = dict(co)
            ln = ("call", ("builtin", "len"), (T,))
            if list(co) == [ln] and abs(co[ln]) == 1:
                sgn = 1 if co[ln] > 0 else -1
                lens = {"E": [0], "Q": [1], "C": [1], "L": [2, 3, 50]}[kind]
                vals = set()
                for n in lens:
                    v = sgn * n + k
                    vals.add({"Eq": v == 0, "NotEq": v != 0, "Gt": v > 0, "GtE": v >= 0, "Lt": v < 0, "LtE": v <= 0}[op])
                if len(vals) == 1:
                    return vals.pop()
                raise AnalysisError("merge_escape_parts: the length test %s separates pieces of two or more characters; the classification table "
                                    "does not know such pieces apart" % show(test))
    par = _escape_run_parity(test, T)
    if par is not None:
        # (number of escape characters right before the last character) % 2 == 0 / != 0 / == 1
        if kind in ("E", "Q", "C"):
            even = True
        else:
            even = (esc or 0) % 2 == 0
        return even if par else (not even)
    if test[0] == "mcall" and test[1] == T and test[2] in ("startswith", "endswith") and tuple(test[3]) == (QUOTE,):
        if kind == "E":
            return False
        return (kind == "Q") or (kind == "L" and (first if test[2] == "startswith" else last))
    if test[0] == "mcall" and test[1] == T and test[2] == "endswith" and len(test[3]) == 1:
        # endswith(<k escape characters> + '"'): the piece ends with a quote after a run of at least k escape characters
        pat = pattern(test[3][0])
        k = 0
        while pat is not None and pat.startswith("<escapechar>"):
            pat, k = pat[len("<escapechar>"):], k + 1
        if pat == '"' and 1 <= k <= 3:
            return kind == "L" and bool(last) and (esc or 0) >= k
    if test == T or test == ("call", ("builtin", "len"), (T,)):
        return kind != "E"
    raise AnalysisError("merge_escape_parts: the test %s on a piece of the split line is not one the classification table knows" % show(test))


def rule_csv_classify(ctx: Ctx) -> RuleResult:
    """CS-3: the quoted-field merger is the inverse of the writer's quoting: what it does with a piece of the split line
    (emit it as a field, open a quoted field, continue it, close it) is decided exactly by whether a field is open and by
    the piece's length class, first and last characters and the escape character before a closing quote.  Every loop-body
    path is matched against the 11 abstract pieces x {open, closed}; a path that can be taken by a piece must do what the
    table says for it, and may not index beyond the piece."""
    r = RuleResult("CS-3", "CSV quoted-field merger: per piece class (empty, '\"', one char, 2+ chars by first/last/escaped) and open/closed state the "
                           "merger emits, opens, continues or closes exactly as the inverse of the writer's quoting requires; no index beyond a piece")
    m, fn = ctx.function(CSV, "merge_escape_parts")
    r.instances += 1
    covered = set()
    seen = set()
    for p in ctx.fn_paths(m, fn, max_iter=2):
        r.paths += 1
        its = [e for e in p.trace if e.k == "loopiter"]
        if not its or p.outcome != "return" or p.value is None:
            continue
        OUT = p.value
        is_open = False
        open_var = None
        for it in its:
            T = it.var
            pos = p.trace.index(it)
            end = next((k for k in range(pos + 1, len(p.trace)) if p.trace[k].k in ("loopexit", "loopiter")), len(p.trace))
            body = p.trace[pos + 1:end]
            decs = [e for e in body if e.k == "decision"]
            quote_known = any(e.test[0] == "cmp" and e.test[1] == "Eq" and {e.test[2], e.test[3]} == {T, ("const", '"')} and e.outcome for e in decs)

            def is_piece(x):
                return x == T or (quote_known and x == ("const", '"'))
            joins = [e for e in body if e.k == "mutate" and e.method == "append" and e.args and e.args[0][0] == "mcall" and e.args[0][2] == "join"]
            opens = [e for e in body if e.k == "assign" and e.value[0] == "list" and any(is_piece(x) for x in e.value[1:])]
            apps = [e for e in body if e.k == "mutate" and e.method == "append" and e.args and is_piece(e.args[0])]
            to_out = [e for e in apps if e.base == OUT]
            if joins and apps and not opens:
                act = "close"
            elif opens and not joins and not apps:
                act = "open"
            elif apps and len(to_out) == len(apps) and not joins and not opens:
                act = "emit"
            elif apps and not to_out and not joins and not opens:
                act = "continue"
            else:
                act = "other (%s)" % ", ".join(e.brief() for e in joins + opens + apps) if (joins or opens or apps) else "nothing"
            if OUT == ("list",) and any(e.base == OUT for e in apps) and is_open and act == "emit":
                # an open field kept in an initially empty list cannot be told from the output list by its term
                raise AnalysisError("merge_escape_parts: the open quoted field and the output list are both built from []; CS-3 cannot tell them apart")
            sig = (is_open, tuple((show(e.test).replace(show(T), "piece"), e.outcome) for e in decs), act)
            first_time = sig not in seen
            seen.add(sig)
            for c in _PIECES:
                ok_class = True
                try:
                    for e in decs:
                        v = _piece_atom(e.test, T, c)
                        if v is not None and v != e.outcome:
                            ok_class = False
                            break
                except _IndexErr:
                    if first_time:
                        r.ob(False, lambda c=c, e=e, is_open=is_open: Finding(
                            "CS-3", "%s::merge_escape_parts{index}" % CSV, m.where(e.node),
                            "with %s (%s) the test '%s' indexes beyond the piece: IndexError, the whole line is rejected although it is a valid row" % (
                                _piece_name(c), "a quoted field is open" if is_open else "no quoted field open", show(e.test).replace(show(T), "piece")), trace_of(p)))
                    continue
                if not ok_class:
                    continue
                covered.add((c, is_open))
                if not first_time:
                    continue
                want = _merge_spec(c, is_open)
                r.groups.add((c, is_open, act))
                r.ob(act == want, lambda c=c, act=act, want=want, is_open=is_open, it=it, decs=decs: Finding(
                    "CS-3", "%s::merge_escape_parts{classify}" % CSV, m.where(decs[-1].node if decs else it.node),
                    "%s, while %s, must %s; on the path [%s] the merger does: %s" % (
                        _piece_name(c), "a quoted field is open" if is_open else "no quoted field is open",
                        {"emit": "be emitted as a field of its own", "open": "open a quoted field", "continue": "be added to the open field",
                         "close": "be added to the open field and close it"}[want],
                        "; ".join(e.brief() for e in decs).replace(show(T), "piece"), act), trace_of(p)))
            # state after this iteration, as the table defines it
            if act == "open":
                is_open = True
                open_var = opens[0].name
            elif act == "close":
                is_open = False
                # the code's own record of the open field must be dropped too (the enumeration stops after two pieces: a third
                # piece would otherwise be appended to the field that was just emitted)
                resets = [e for e in body if e.k == "assign" and e.name == open_var and e.value == ("const", None)]
                if first_time:
                    r.ob(bool(resets), lambda it=it, decs=decs: Finding(
                        "CS-3", "%s::merge_escape_parts{reset}" % CSV, m.where(decs[-1].node if decs else it.node),
                        "after a quoted field is closed and emitted the merger must forget it (%s = None): the next pieces are otherwise added to the "
                        "field that was already emitted" % open_var, trace_of(p)))
            elif act not in ("emit", "continue"):
                break
    missing = [(c, o) for c in _PIECES for o in (False, True) if (c, o) not in covered]
    # (L, first, not last, esc) and (L, first, not last, not esc) may be indistinguishable for the code: that is fine, both are covered when any is
    if missing and not r.findings:
        raise AnalysisError("merge_escape_parts: no loop-body path found for %s (%s)" % (_piece_name(missing[0][0]), "open" if missing[0][1] else "closed"))
    r.require_instances(1)
    return r


def rule_csv_file_modes(ctx: Ctx) -> RuleResult:
    """CS-5: what dump_to_file hands to file.write agrees with the mode the file is opened in: text (str) to a text-mode file, encoded
    bytes to a binary one -- for the default encoding=None as well as for an explicit encoding.  The mode file.write falls back to
    when it is given none is read from file.write itself."""
    r = RuleResult("CS-5", "CSV dump_to_file: str lines go to a text-mode file, encoded bytes to a binary-mode file, whatever the encoding argument (None by default)")
    md, fd = ctx.function(CSV, "dump_to_file")
    inner = [n for n in fd.body if isinstance(n, ast.FunctionDef)]
    returned = {x.value.id for x in fd.body if isinstance(x, ast.Return) and isinstance(x.value, ast.Name)}
    ops_ = [n for n in inner if n.name in returned] or inner
    if len(ops_) != 1:
        raise AnalysisError("csv.dump_to_file: expected one inner operator function (the one it returns)")
    wfn = ops_[0]
    helpers = {n for n in inner if n is not wfn}
    # the mode file.write uses when it is given none:  mode = mode or '<default>'
    mw, fw = ctx.function("rxsci/io/file.py", "write")
    fallback = None
    for s in fw.body:
        if isinstance(s, ast.Assign) and len(s.targets) == 1 and isinstance(s.targets[0], ast.Name) and s.targets[0].id == "mode" \
                and isinstance(s.value, ast.BoolOp) and isinstance(s.value.op, ast.Or) and len(s.value.values) == 2 \
                and isinstance(s.value.values[0], ast.Name) and s.value.values[0].id == "mode" and isinstance(s.value.values[1], ast.Constant):
            fallback = s.value.values[1].value
    dflt = _defaults(mw, fw).get("mode")
    r.instances += 1
    for enc in ("None", "Obj"):
        got = False
        for p in ctx.fn_paths(md, wfn, cfg={"encoding": enc}, only_inline=helpers):
            r.paths += 1
            if p.outcome != "return":
                continue
            st = _pipe_stages(p, p.value)
            if st is None:
                raise AnalysisError("csv.dump_to_file: the returned pipeline is not source.pipe(...)")
            stages = st[1]
            writes = [x for x in stages if _stage_id(x) == "rxsci.io.file.write"]
            if len(writes) != 1:
                raise AnalysisError("csv.dump_to_file: expected one file.write stage, found %s" % [_stage_id(x) for x in stages])
            kw = _kwargs_of(writes[0])
            mode = kw.get("mode")
            if mode is None or mode == ("const", None):
                eff = fallback if (mode is not None or dflt in (None, "None")) else None
                if mode is None and dflt not in (None, "None"):
                    eff = ast.literal_eval(dflt)
            elif mode[0] == "const" and isinstance(mode[1], str):
                eff = mode[1]
            else:
                raise AnalysisError("csv.dump_to_file: the mode handed to file.write (%s) is not decided by the encoding configuration" % show(mode))
            if eff is None:
                raise AnalysisError("csv.dump_to_file: cannot tell the mode file.write falls back to")
            # is the line encoded on the way?  a map stage whose function returns <item>.encode(...)
            encoded = False
            for x in stages[:stages.index(writes[0])]:
                if x[0] == "call" and x[1] == ("glob", "rx.operators.map") and x[2] and x[2][0][0] in ("lambda", "func"):
                    fm, ff = x[2][0][2], x[2][0][1]
                    for q in ctx.fn_paths(fm, ff, cfg={"encoding": enc}):
                        if q.outcome == "return" and q.value is not None and q.value[0] == "mcall" and q.value[2] == "encode":
                            encoded = True
                elif _stage_id(x) == "rxsci.data.codec.encode":
                    encoded = True
            got = True
            r.groups.add(("dump_to_file", enc))
            ok = ("b" in eff) == encoded
            r.ob(ok, lambda enc=enc, eff=eff, encoded=encoded, p=p: Finding(
                "CS-5", "%s::dump_to_file{mode-%s}" % (CSV, "default" if enc == "None" else "encoding"), md.where(fd),
                "with encoding %s the lines reach file.write as %s but the file is opened in mode %r (%s): %s" % (
                    "None (the default)" if enc == "None" else "given", "bytes" if encoded else "str", eff,
                    "file.write falls back to %r when it is given no mode" % fallback if eff == fallback else "as passed",
                    "writing str to a binary file raises TypeError, so dump_to_file with its default arguments writes nothing" if not encoded else
                    "writing bytes to a text file raises TypeError"), trace_of(p)))
            # the file is created or truncated ('w'), not appended to: the file holds exactly the rows of this dump
            r.ob(set(eff) <= set("wbt") and "w" in eff, lambda eff=eff, p=p: Finding(
                "CS-5", "%s::dump_to_file{truncate}" % CSV, md.where(fd),
                "the file is opened in mode %r: a file that already exists keeps its old content (append / update), so it does not hold exactly "
                "the dumped rows" % eff, trace_of(p)))
            r.ob(_is_param(kw.get("<0>"), "filename"), lambda kw=kw: Finding(
                "CS-5", "%s::dump_to_file{target}" % CSV, md.where(fd), "file.write must receive the filename of dump_to_file; it receives file=%s" % (
                    show(kw["<0>"]) if kw.get("<0>") else None)))
        if not got:
            raise AnalysisError("csv.dump_to_file: no pipeline found for encoding %s" % enc)
    # the reader: the text that reaches line.unframe is decoded by one decoder for the whole file -- the file object opened in text
    # mode, or the incremental rs.data.decode stage after a binary read; never chunk by chunk (a character cut by the 64 KiB read
    # boundary cannot be decoded on its own)
    ml, fl = ctx.function(CSV, "load_from_file")
    r.instances += 1
    dflt_r = _defaults(*ctx.function("rxsci/io/file.py", "read")).get("mode")
    for p in ctx.fn_paths(ml, fl, only_inline=set()):
        r.paths += 1
        if p.outcome != "return":
            continue
        st = _pipe_stages(p, p.value)
        if st is None:
            raise AnalysisError("csv.load_from_file: the returned pipeline is not <file.read(...)>.pipe(...)")
        src, stages = st
        if _stage_id(src) != "rxsci.io.file.read":
            raise AnalysisError("csv.load_from_file: the source of the pipeline is %s, not file.read" % _stage_id(src))
        kw = _kwargs_of(src)
        mode = kw.get("mode")
        eff = mode[1] if (mode is not None and mode[0] == "const" and isinstance(mode[1], str)) else (ast.literal_eval(dflt_r) if mode is None and dflt_r else None)
        if eff is None:
            raise AnalysisError("csv.load_from_file: cannot tell the mode the file is read in (%s)" % (show(mode) if mode is not None else None))
        ids = [_stage_id(x) for x in stages]
        per_chunk = False
        for x in stages:
            if x[0] == "call" and x[1] == ("glob", "rx.operators.map") and x[2] and x[2][0][0] in ("lambda", "func"):
                fm, ff = x[2][0][2], x[2][0][1]
                for q in ctx.fn_paths(fm, ff):
                    if q.outcome == "return" and q.value is not None and any(y[0] == "mcall" and y[2] == "decode" for y in subterms(q.value)):
                        per_chunk = True
        incremental = "rxsci.data.codec.decode" in ids
        binary = "b" in eff
        # the decoder is given the encoding of load_from_file (the one the writer encoded with), and the file its name
        encarg = kw.get("encoding") if not binary else next((_kwargs_of(x).get("encoding") or ([a for a in x[2] if a[0] != "kw"] or [None])[0]
                                                             for x in stages if _stage_id(x) == "rxsci.data.codec.decode"), None)
        r.ob(_is_param(encarg, "encoding"), lambda encarg=encarg, p=p: Finding(
            "CS-5", "%s::load_from_file{encoding}" % CSV, ml.where(fl),
            "the reader must decode with the encoding given to load_from_file; the decoder receives %s (the platform default when nothing is given), so text "
            "written by dump_to_file(encoding=...) is read back with another encoding" % (show(encarg) if encarg is not None else "nothing"), trace_of(p)))
        pos0 = [a for a in src[2] if a[0] != "kw"][:1]
        r.ob(_is_param(kw.get("<0>"), "filename") or (pos0 and _is_param(pos0[0], "filename")), lambda p=p: Finding(
            "CS-5", "%s::load_from_file{source}" % CSV, ml.where(fl), "file.read must receive the filename of load_from_file", trace_of(p)))
        r.groups.add(("load_from_file", binary))
        ok = not per_chunk and (incremental if binary else not incremental)
        r.ob(ok, lambda p=p, eff=eff, per_chunk=per_chunk, incremental=incremental: Finding(
            "CS-5", "%s::load_from_file{decoding}" % CSV, ml.where(fl),
            "the file is read in mode %r and %s: %s" % (
                eff, "each read chunk is decoded on its own in a map stage" if per_chunk else ("passed through rs.data.decode" if incremental else "not decoded by a stage"),
                "a multi-byte character cut by the read-chunk boundary cannot be decoded chunk by chunk (UnicodeDecodeError for files larger than a chunk)" if per_chunk
                else "bytes and text do not match between the reader and line.unframe"), trace_of(p)))
    r.require_instances(2)
    return r


def rule_dp7(ctx: Ctx) -> RuleResult:
    r = RuleResult("DP-7", "the float parser does not assemble its value as f(integer part) + g(fraction part) (wrong for negative numbers)")
    mt, ft = ctx.function(CSV, "type_parser")
    # which parser does type_parser select for float?
    sel = None
    for node in ast.walk(ft):
        if isinstance(node, ast.If) and "float" in ast.unparse(node.test):
            ret = [s for s in node.body if isinstance(s, ast.Return)]
            if ret and isinstance(ret[0].value, ast.Name):
                sel = ret[0].value.id
    if sel is None:
        raise AnalysisError("type_parser: the parser selected for float columns was not found")
    m, fn = ctx.function(CSV, sel)
    r.instances += 1
    param = m.scopes[fn].params[0]
    checked = 0
    for p in ctx.fn_paths(m, fn):
        r.paths += 1
        if p.outcome != "return" or p.value is None:
            continue
        splits = [e for e in p.trace if e.k == "call" and e.d.get("method") == "split" and e.base == ("arg", param) and not e.d.get("raised")]
        if not splits:
            continue
        s = splits[0].result
        v = p.value
        checked += 1
        r.groups.add((sel, checked))
        def parts_used(t):
            out = set()
            whole = [False]

            def walk(x):
                if not isinstance(x, tuple) or not x:
                    return
                if isinstance(x[0], str):
                    if x[0] == "sub" and x[1] == s and x[2][0] == "const":
                        out.add(x[2][1])
                        return
                    if x == s or x == ("arg", param):
                        whole[0] = True
                        return
                for y in x:
                    walk(y)
            walk(t)
            return out, whole[0]
        if v[0] == "binop" and v[1] in ("Add", "Sub"):
            a, wa = parts_used(v[2])
            b, wb = parts_used(v[3])
            sign_dep = any(e.k == "decision" and (any(isinstance(c, str) and "-" in c for c in [x[1] for x in subterms(e.test) if x[0] == "const"])
                                                  or any(x[0] == "cmp" and x[1] in ("Lt", "GtE", "Gt", "LtE") and ("const", 0) in (x[2], x[3]) for x in subterms(e.test)))
                           for e in p.trace)
            separable = a and b and not (a & b) and not wa and not wb and not sign_dep
            r.ob(not separable, lambda: Finding(
                "DP-7", "%s::%s{separable-sum}" % (CSV, sel), m.where(fn),
                "the value is returned as %s where the left operand depends only on part %s of split('.') and the right one only on part %s, "
                "under a path condition that ignores the sign: the value of '-1.5' is int('-1') + 0.5 = -0.5. No f(p0) + g(p1) equals the decimal "
                "value for both signs" % (show(v), sorted(a), sorted(b)), trace_of(p)))
        else:
            r.ob(True)
    if checked == 0:
        r.notes.append("%s hands the whole field to float(): nothing to check" % sel)
        r.ob(True)
    r.require_instances(1)
    return r


# ======================================================================
# C19
JSON = "rxsci/container/json.py"
INVERSE = {
    "rxsci.container.json.dump": ("rxsci.framing.line.unframe", "rxsci.container.json.load"),
    "rxsci.data.codec.encode": ("rxsci.data.codec.decode",),
    "rxsci.compression.z.compress": ("rxsci.compression.z.decompress",),
    "rxsci.compression.zstd.compress": ("rxsci.compression.zstd.decompress",),
    "rxsci.io.file.write": ("rxsci.io.file.read",),
}


def _stage_name(ctx, m, call):
    dn = dotted_name(call.func) if isinstance(call, ast.Call) else None
    if dn is None:
        return None
    ref = ctx.program.resolve_dotted(m, dn)
    if ref[0] == "def":
        return "%s.%s" % (ref[1].name, ref[2].name)
    return None


def _dict_literal(fn, name):
    for n in ast.walk(fn):
        if isinstance(n, ast.Assign) and any(isinstance(t, ast.Name) and t.id == name for t in n.targets) and isinstance(n.value, ast.Dict):
            return n.value
    return None


def _replay_list(p, t):
    """Final content of a list built as a literal and then extended with append/insert/extend on the path."""
    if t is None:
        return None
    if t[0] == "star":
        t = t[1]
    if t[0] not in ("list", "tuple"):
        return None
    items = list(t[1:])
    for e in p.trace:
        if e.k == "mutate" and e.base == t:
            if e.method == "append" and e.args:
                items.append(e.args[0])
            elif e.method == "insert" and len(e.args) == 2 and e.args[0][0] == "const":
                items.insert(e.args[0][1], e.args[1])
            elif e.method == "extend" and e.args and e.args[0][0] in ("list", "tuple"):
                items += list(e.args[0][1:])
            else:
                return None
    return items


def _pipe_stages(p, v):
    """Flatten  X.pipe(a, b).pipe(*lst)  into (source term, [stage terms]); None if v is not a pipe call."""
    chain = []
    while v is not None and v[0] == "mcall" and v[2] == "pipe":
        args = []
        for a in v[3]:
            if a[0] == "star":
                items = _replay_list(p, a)
                if items is None:
                    return None
                args += items
            elif a[0] == "kw":
                return None
            else:
                args.append(a)
        chain.append(args)
        v = v[1]
    if not chain:
        return None
    chain.reverse()
    return v, [x for part in chain for x in part]


def _stage_id(t):
    """name of a stage term: 'module.function' for a repository function, '<table:NAME>' for table[compression]()"""
    if t[0] == "call" and t[1][0] == "func":
        fn, mod = t[1][1], t[1][2]
        return "%s.%s" % (mod.name, fn.name)
    if t[0] == "call" and t[1][0] == "sub" and t[1][2][0] in ("param", "arg") and t[1][2][1] == "compression":
        if t[1][1][0] == "free":
            return "<table:%s>" % t[1][1][1]
        if t[1][1][0] == "dict":
            return "<table:#local>"
    return show(t)[:60]


def _table_of(t, ast_tables):
    """{compression name: 'module.function'} of the table indexed by a <table:...> stage."""
    base = t[1][1]
    if base[0] == "free":
        return ast_tables.get(base[1])
    if base[0] == "dict":
        items = base[1:]
        n = len(items) // 2
        out = {}
        for k, v in zip(items[:n], items[n:]):
            if k[0] != "const" or v[0] != "func":
                return None
            out[k[1]] = "%s.%s" % (v[2].name, v[1].name)
        return out
    return None


def _codec_args_ok(kw):
    """encode / decode receive the encoding, and at most the error scheme left at its default 'strict'"""
    names = {k for k in kw if not k.startswith("<")}
    return "encoding" in names and names <= {"encoding", "errors"} and kw.get("errors", ("const", "strict")) == ("const", "strict")


def _kwargs_of(t):
    """{parameter name: argument term} of a call term; positional arguments of a repository function are named through
    its signature, so that f(x, 'rb') and f(x, mode='rb') read the same"""
    if t[0] != "call":
        return {}
    out = {a[1]: a[2] for a in t[2] if a[0] == "kw"}
    if t[1][0] == "func" and isinstance(t[1][1], ast.FunctionDef):
        names = [a.arg for a in t[1][1].args.posonlyargs + t[1][1].args.args]
        for k, a in enumerate([a for a in t[2] if a[0] not in ("kw", "star")]):
            if k < len(names) and names[k] not in out:
                out[names[k]] = a
        # the same by position ("<0>" is whatever the callee calls its first parameter: a consistent rename of that parameter in the
        # definition and at its call sites reads the same)
        for k, nme in enumerate(names):
            if nme in out:
                out["<%d>" % k] = out[nme]
    return out


def _cfg_of_path(p, names):
    """{name: True/False/None} from the decisions a path took on the given own parameters."""
    out = {}
    for e in p.trace:
        if e.k != "decision":
            continue
        t = e.test
        for n in names:
            ref = [x for x in subterms(t) if x[0] in ("arg", "param") and x[1] == n]
            if not ref:
                continue
            val = e.outcome
            if t[0] == "cmp" and t[1] in ("IsNot", "NotEq"):
                val = not val if (("const", True) in (t[2], t[3])) else val
                if ("const", None) in (t[2], t[3]):
                    val = e.outcome
            elif t[0] == "cmp" and t[1] in ("Is", "Eq") and ("const", None) in (t[2], t[3]):
                val = not e.outcome
            elif t[0] == "cmp" and t[1] in ("Is", "Eq") and ("const", False) in (t[2], t[3]):
                val = not e.outcome
            out.setdefault(n, val)
    return out


def _is_param(t, name):
    return t is not None and t[0] in ("param", "arg") and t[1] == name


def rule_ag7(ctx: Ctx) -> RuleResult:
    r = RuleResult("AG-7", "JSON lines: load_from_file(lines=True) is the stage-by-stage inverse of dump_to_file for every compression setting")
    m = ctx.program.module(JSON)
    md, fd = ctx.function(JSON, "dump_to_file")
    ml, fl = ctx.function(JSON, "load_from_file")
    r.instances += 1
    # ---- compression tables: the dict literals of the two functions ----------------
    def tables(fn):
        out = {}
        for n in ast.walk(fn):
            if isinstance(n, ast.Assign) and isinstance(n.value, ast.Dict) and len(n.targets) == 1 and isinstance(n.targets[0], ast.Name):
                try:
                    out[n.targets[0].id] = {ast.literal_eval(k): _resolve_attr(ctx, m, v) for k, v in zip(n.value.keys, n.value.values)}
                except Exception:
                    pass
        return out
    wtabs, rtabs = tables(fd), tables(fl)
    # helpers of the module that merely assemble stages are followed; operator factories (functions returning a
    # function) and functions of other modules stay calls, so that each stage is named by the operator that builds it
    helpers = set()
    for name, b in m.bindings.items():
        if b[0] != "def":
            continue
        f = b[1]
        nested = {x.name for x in f.body if isinstance(x, ast.FunctionDef)}
        rets = [x.value for x in ast.walk(f) if isinstance(x, ast.Return) and m.enclosing_function(x) is f]
        factory = any(isinstance(v, ast.Lambda) or (isinstance(v, ast.Name) and v.id in nested) for v in rets)
        if not factory:
            helpers.add(f)
    # ---- writer -------------------------------------------------------------------------
    inner = [n for n in fd.body if isinstance(n, ast.FunctionDef)]
    returned = {x.value.id for x in fd.body if isinstance(x, ast.Return) and isinstance(x.value, ast.Name)}
    ops_ = [n for n in inner if n.name in returned] or inner
    if len(ops_) != 1:
        raise AnalysisError("json.dump_to_file: expected one inner operator function (the one it returns)")
    wfn = ops_[0]
    # other local functions of dump_to_file merely assemble the stages: they are followed
    helpers |= {n for n in inner if n is not wfn}
    writer = {}
    for comp in ("Obj", "None"):
        for p in ctx.fn_paths(md, wfn, cfg={"compression": comp}, only_inline=helpers):
            r.paths += 1
            if p.outcome != "return":
                continue
            fl_ = _pipe_stages(p, p.value)
            if fl_ is None:
                raise AnalysisError("json.dump_to_file: the returned pipeline is not source.pipe(...)")
            src, stages = fl_
            writer[comp == "Obj"] = (src, stages, p)
    if set(writer) != {True, False}:
        raise AnalysisError("json.dump_to_file: could not extract the pipeline for both compression settings")
    wtable = None
    for comp, (src, stages, p) in sorted(writer.items()):
        ids = [_stage_id(t) for t in stages]
        want = ["rxsci.container.json.dump", "rxsci.data.codec.encode"] + (["<table>"] if comp else []) + ["rxsci.io.file.write"]
        got = ["<table>" if i.startswith("<table:") else i for i in ids]
        r.groups.add(("writer", comp))
        r.ob(src == ("arg", md.scopes[wfn].params[0]) and got == want, lambda comp=comp, got=got, want=want: Finding(
            "AG-7", "%s::dump_to_file{stages-%s}" % (JSON, "compressed" if comp else "plain"), md.where(fd),
            "writer stages must be %s applied to the source; they are %s" % (want, got)))
        for t in stages:
            if _stage_id(t).startswith("<table:"):
                wtable = _table_of(t, wtabs)
        for t in stages:
            if _stage_id(t) == "rxsci.io.file.write":
                kw = _kwargs_of(t)
                r.ob(kw.get("mode") == ("const", "wb"), lambda: Finding("AG-7", "%s{write-mode}" % JSON, md.where(fd), "the file must be written in mode 'wb'"))
                r.ob(_is_param(kw.get("open_obj"), "open_obj") and _is_param(kw.get("<0>"), "filename"), lambda kw=kw: Finding(
                    "AG-7", "%s{write-target}" % JSON, md.where(fd), "file.write must receive the filename and the open_obj function of dump_to_file; it receives file=%s, open_obj=%s" % (
                        show(kw["<0>"]) if kw.get("<0>") else None, show(kw["open_obj"]) if kw.get("open_obj") else "(default open)")))
            if _stage_id(t) == "rxsci.data.codec.encode":
                kw = _kwargs_of(t)
                r.ob(_codec_args_ok(kw) and kw["encoding"][0] in ("param", "arg") and kw["encoding"][1] == "encoding", lambda: Finding(
                    "AG-7", "%s{encode-args}" % JSON, md.where(fd), "encode must receive the encoding parameter only (incremental by default)"))
            if _stage_id(t) == "rxsci.container.json.dump":
                kw = _kwargs_of(t)
                pos = [a for a in t[2] if a[0] != "kw"]
                nl = kw.get("newline", pos[0] if pos else None)
                r.ob(nl is not None and nl[0] in ("param", "arg") and nl[1] == "newline", lambda: Finding(
                    "AG-7", "%s{dump-newline}" % JSON, md.where(fd), "dump must receive the newline parameter"))
    # ---- reader -------------------------------------------------------------------------
    reader = {}
    for p in ctx.fn_paths(ml, fl, only_inline=helpers):
        r.paths += 1
        if p.outcome != "return":
            continue
        cfgp = _cfg_of_path(p, ("compression", "lines"))
        fl_ = _pipe_stages(p, p.value)
        if fl_ is None:
            raise AnalysisError("json.load_from_file: a returned pipeline is not <file.read(...)>.pipe(...)")
        reader[(bool(cfgp.get("compression")), bool(cfgp.get("lines")))] = (fl_[0], fl_[1], p)
    rtable = None
    for comp in (False, True):
        if (comp, True) not in reader:
            raise AnalysisError("json.load_from_file: no path for lines=True, compression %s" % ("set" if comp else "unset"))
        src, stages, p = reader[(comp, True)]
        ids = [_stage_id(src)] + [_stage_id(t) for t in stages]
        got = ["<table>" if i.startswith("<table:") else i for i in ids]
        want = ["rxsci.io.file.read"] + (["<table>"] if comp else []) + ["rxsci.data.codec.decode", "rxsci.framing.line.unframe", "rxsci.container.json.load"]
        r.groups.add(("reader", comp))
        r.ob(got == want, lambda comp=comp, got=got, want=want: Finding(
            "AG-7", "%s::load_from_file{stages-%s}" % (JSON, "compressed" if comp else "plain"), ml.where(fl),
            "reader stages must be the reversed writer stages through the inverse table, i.e. %s; they are %s" % (want, got)))
        for t in stages:
            if _stage_id(t).startswith("<table:"):
                rtable = _table_of(t, rtabs)
        kw = _kwargs_of(src)
        r.ob(kw.get("mode") == ("const", "rb"), lambda: Finding("AG-7", "%s{read-mode}" % JSON, ml.where(fl), "the file must be read in mode 'rb'"))
        r.ob(_is_param(kw.get("open_obj"), "open_obj") and _is_param(kw.get("<0>"), "filename"), lambda kw=kw: Finding(
            "AG-7", "%s{read-source}" % JSON, ml.where(fl), "file.read must receive the filename and the open_obj function of load_from_file; it receives file=%s, open_obj=%s" % (
                show(kw["<0>"]) if kw.get("<0>") else None, show(kw["open_obj"]) if kw.get("open_obj") else "(default open)")))
        for t in stages:
            if _stage_id(t) == "rxsci.data.codec.decode":
                kw = _kwargs_of(t)
                r.ob(_codec_args_ok(kw) and kw["encoding"][0] in ("param", "arg") and kw["encoding"][1] == "encoding", lambda: Finding(
                    "AG-7", "%s{decode-args}" % JSON, ml.where(fl), "decode must receive the encoding parameter only (incremental by default)"))
    # ---- tables ----------------------------------------------------------------------------
    wt, rt = wtable, rtable
    if wt is None or rt is None:
        raise AnalysisError("json.py: the compression tables used by the pipelines were not found")
    r.ob(set(wt) == set(rt), lambda: Finding("AG-7", "%s{compression-keys}" % JSON, md.where(fd), "compression names differ: dump %s, load %s" % (sorted(wt), sorted(rt))))
    for k in sorted(set(wt) & set(rt)):
        r.groups.add(("compression", k))
        r.ob(INVERSE.get(wt[k]) == (rt[k],), lambda k=k: Finding(
            "AG-7", "%s{compression-%s}" % (JSON, k), md.where(fd), "compression '%s' is written with %s but read with %s" % (k, wt[k], rt[k])))
    # ---- defaults ---------------------------------------------------------------------------
    ddf, dlf = _defaults(md, fd), _defaults(ml, fl)
    r.ob(ddf.get("encoding") == dlf.get("encoding") and ddf.get("encoding") is not None, lambda: Finding(
        "AG-7", "%s{encoding-default}" % JSON, md.where(fd), "encoding defaults differ: dump %s, load %s" % (ddf.get("encoding"), dlf.get("encoding"))))
    r.ob(ddf.get("compression") == dlf.get("compression") == "None", lambda: Finding("AG-7", "%s{compression-default}" % JSON, md.where(fd), "compression defaults differ"))
    mdu, fdu = ctx.function(JSON, "dump")
    r.ob(_defaults(mdu, fdu).get("newline") == "'\\n'" and ddf.get("newline") == "'\\n'", lambda: Finding(
        "AG-7", "%s{newline-default}" % JSON, mdu.where(fdu), "the newline default must be the line framing delimiter '\\n'"))
    # dump appends exactly the newline to one serialised object per item
    site = ctx.site(JSON, "dump._dump.on_subscribe")
    spec = site.handler_specs("on_next")[0]
    for cfg in valuations(ctx.space(spec)):
        for p in ctx.paths(spec, None, cfg):
            r.paths += 1
            ems = [x for x in emissions(p) if x.method == "on_next"]
            ok = len(ems) == 1
            if ok:
                v = ems[0].eff.arg
                ok = v[0] == "binop" and v[1] == "Add" and v[3][0] == "param" and v[3][1] == "newline" and any(
                    (x[0] == "call" and x[1][0] == "glob" and x[1][1].endswith(".dumps")) for x in subterms(v[2]))
            r.ob(ok, lambda: mk_finding("AG-7", spec, None, cfg, p, "dump must emit dumps(item) + newline once per item; it emits %s" % summary(p), extra="dump"))
    # load: the only items removed after parsing are the None markers of blank / ignored lines (an empty object {} is an item)
    _check_none_filters(ctx, r, "AG-7", JSON, "load")
    # load: the parser is given the line as it came: what dump wrote is a JSON text, and any rewriting of the raw text before it is parsed
    # (a regular expression, replace, strip) cannot tell a string value from syntax
    ml2, fl2 = ctx.function(JSON, "load")
    seen_parse = 0
    for n in ast.walk(ml2.tree):
        if isinstance(n, ast.Call) and isinstance(n.func, ast.Attribute) and n.func.attr == "loads" and n.args and ml2.enclosing_function(n) is not None:
            seen_parse += 1
            f_ = ml2.enclosing_function(n)
            a0 = n.args[0]
            params = ml2.scopes[f_].params if f_ in ml2.scopes else []
            rebound = [s for s in ast.walk(f_) if isinstance(s, (ast.Assign, ast.AugAssign)) and s.lineno <= n.lineno and not any(x is n for x in ast.walk(s)) and any(
                isinstance(x, ast.Name) and isinstance(x.ctx, ast.Store) and isinstance(a0, ast.Name) and x.id == a0.id
                for tg in (s.targets if isinstance(s, ast.Assign) else [s.target]) for x in ast.walk(tg))] if f_ is not None else []
            ok = isinstance(a0, ast.Name) and a0.id in params and not rebound
            r.ob(ok, lambda n=n, rebound=rebound: Finding(
                "AG-7", "%s::load{parse-input}" % JSON, ml2.where(rebound[0] if rebound else n),
                "the text handed to the JSON parser (%s) is not the line as it came%s: a rewrite of the raw line cannot tell a string value or a key from "
                "JSON syntax, so some strings do not read back as written" % (ast.unparse(n)[:50], " (rewritten by '%s')" % ast.unparse(rebound[0])[:60] if rebound else "")))
    if not seen_parse:
        raise AnalysisError("json.load: no call of the JSON parser found")
    r.require_instances(1)
    return r


def _check_none_filters(ctx, r, rule_id, rel, fname):
    """every rx filter stage of the load pipeline keeps exactly the items that are not None"""
    m, fn = ctx.function(rel, fname)
    found = 0
    for n in ast.walk(fn):
        if isinstance(n, ast.Call) and (dotted_name(n.func) or "").split(".")[-1] == "filter" and n.args:
            ref = ctx.program.resolve_dotted(m, dotted_name(n.func))
            if ref[0] == "def":
                continue          # an rxsci operator, not the rx filter of the pipeline
            found += 1
            cb = n.args[0]
            from .scan import _callable_def
            cbfn = _callable_def(ctx, m, cb, m.enclosing_function(n))
            ok = False
            vals = []
            if cbfn is not None:
                A0 = ("arg", m.scopes[cbfn].params[0])
                vals = [p.value for p in ctx.fn_paths(m, cbfn) if p.outcome == "return"]
                ok = bool(vals) and all(v in (("cmp", "IsNot", A0, ("const", None)), ("cmp", "IsNot", ("const", None), A0)) for v in vals)
            r.ob(ok, lambda n=n, vals=vals: Finding(
                rule_id, "%s::%s{none-filter}" % (rel, fname), m.where(n),
                "the filter after parsing must drop exactly the None markers (blank or ignored lines): 'item is not None'; its predicate returns %s, which "
                "also drops legitimate falsy items (an empty object / row)" % ([show(v) for v in vals] or ast.unparse(n.args[0]))))
    r.ob(found >= 1, lambda: Finding(rule_id, "%s::%s{none-filter}" % (rel, fname), m.where(fn), "%s no longer filters the None markers of blank / ignored lines" % fname))


def _resolve_attr(ctx, m, node):
    dn = dotted_name(node)
    if dn is None:
        return ast.unparse(node)
    ref = ctx.program.resolve_dotted(m, dn)
    if ref[0] == "def":
        return "%s.%s" % (ref[1].name, ref[2].name)
    return dn


# ======================================================================
# C20
PQ = "rxsci/container/parquet.py"


def _disposal_flags(m, fn):
    """names of the local flags of fn that start False and are set True only by a nested function handed to Disposable(...)"""
    out = set()
    init = {}
    for s in fn.body:
        if isinstance(s, ast.Assign) and len(s.targets) == 1 and isinstance(s.targets[0], ast.Name) and isinstance(s.value, ast.Constant):
            init.setdefault(s.targets[0].id, []).append(s.value.value)
    disposers = set()
    for n in ast.walk(fn):
        if isinstance(n, ast.Call) and (dotted_name(n.func) or "").split(".")[-1] == "Disposable" and n.args and isinstance(n.args[0], ast.Name):
            disposers.add(n.args[0].id)
    for g in fn.body:
        if isinstance(g, ast.FunctionDef) and g.name in disposers:
            nl = {x for s in g.body if isinstance(s, ast.Nonlocal) for x in s.names}
            for s in g.body:
                if isinstance(s, ast.Assign) and len(s.targets) == 1 and isinstance(s.targets[0], ast.Name) and s.targets[0].id in nl \
                        and isinstance(s.value, ast.Constant) and s.value.value is True and init.get(s.targets[0].id) == [False]:
                    out.add(s.targets[0].id)
    # no other function rebinds the flag
    for g in ast.walk(fn):
        if isinstance(g, ast.FunctionDef) and g is not fn and g.name not in disposers:
            for s in ast.walk(g):
                if isinstance(s, ast.Nonlocal):
                    out -= set(s.names)
    return out


def rule_pu2(ctx: Ctx) -> RuleResult:
    r = RuleResult("PU-2", "parquet: the record builder mapped over batches carries no mutable free state into its result; stage order; every row before completion")
    m = ctx.program.module(PQ)
    mc, fc = ctx.function(PQ, "create_record")
    inner = [n for n in fc.body if isinstance(n, ast.FunctionDef)]
    ret = [n for n in fc.body if isinstance(n, ast.Return)]
    if len(inner) != 1 or len(ret) != 1 or not isinstance(ret[0].value, ast.Name) or ret[0].value.id != inner[0].name:
        raise AnalysisError("parquet.create_record: expected one inner function that is returned")
    fn = inner[0]
    r.instances += 1
    eff = callback_effects(ctx, m, fn)
    r.paths += eff["paths"]
    r.groups.add(("create_record", "free-state"))
    r.groups.add(("create_record", "returns"))
    leaked = []
    for name, es in eff["free_mutations"].items():
        flows = any(any(x[0] == "free" and x[1] == name for x in subterms(v)) for v in eff["returns"])
        if flows:
            leaked.append((name, es[0]))
    r.ob(not leaked, lambda: Finding(
        "PU-2", "%s::create_record._create_record{free-state}" % PQ, leaked[0][1].where(),
        "the record builder appends to '%s', which is created once per create_record() call and is part of every returned record batch: "
        "batch k also contains the rows of the batches before it" % leaked[0][0]))
    r.ob(not eff["param_mutations"], lambda: Finding("PU-2", "%s::create_record._create_record{param}" % PQ, m.where(fn), "the record builder mutates the batch it is given"))
    # every row / every column of the batch goes into the record
    loops = [n for n in ast.walk(fn) if isinstance(n, ast.For)]
    ok = any(ast.unparse(l.iter) == m.scopes[fn].params[0] for l in loops)
    r.ob(ok, lambda: Finding("PU-2", "%s::create_record._create_record{rows}" % PQ, m.where(fn), "the record builder must iterate over all rows of the batch"))
    # transpose: the value appended to the buffer of column k is row[<name of column k in the schema>]
    r.groups.add(("create_record", "transpose"))
    saw_append = False
    DATA = ("arg", m.scopes[fn].params[0])
    for p in ctx.fn_paths(m, fn, max_iter=1):
        r.paths += 1
        loops = {e.loop: e for e in p.trace if e.k == "loopiter"}

        def loop_of(t):
            return loops.get(t[1]) if t[0] == "loopvar" else None

        def is_names(t):
            return t[0] == "attr" and t[2] == "names" and t[1][0] in ("param", "arg") and t[1][1] == "schema"
        for e in p.trace:
            if e.k != "mutate" or e.method != "append" or not e.args:
                continue
            base, val = e.base, e.args[0]
            if val[0] != "sub":
                continue
            row, name = val[1], val[2]
            lr = loop_of(row)
            if lr is None or lr.iter != DATA:
                continue
            saw_append = True
            ok = False
            # for i, n in enumerate(names): buffers[i].append(row[n])
            if name[0] == "sub" and name[2] == ("const", 1) and loop_of(name[1]) is not None:
                lp = loop_of(name[1])
                it = lp.iter
                if it[0] == "call" and it[1] == ("builtin", "enumerate") and len(it[2]) == 1 and is_names(it[2][0]):
                    ok = base[0] == "sub" and base[2] == ("sub", name[1], ("const", 0))
                elif it[0] == "call" and it[1] == ("builtin", "zip") and len(it[2]) == 2 and is_names(it[2][1]):
                    ok = base == ("sub", name[1], ("const", 0))          # for buf, n in zip(buffers, names)
            elif name[0] == "sub" and name[2] == ("const", 0) and loop_of(name[1]) is not None:
                it = loop_of(name[1]).iter
                if it[0] == "call" and it[1] == ("builtin", "zip") and len(it[2]) == 2 and is_names(it[2][0]):
                    ok = base == ("sub", name[1], ("const", 1))          # for n, buf in zip(names, buffers)
            elif name[0] == "sub" and is_names(name[1]) and loop_of(name[2]) is not None:
                it = loop_of(name[2]).iter                              # for i in range(len(names)): buffers[i].append(row[names[i]])
                if it[0] == "call" and it[1] == ("builtin", "range") and len(it[2]) == 1 and it[2][0][0] == "call" and it[2][0][1] == ("builtin", "len") \
                        and is_names(it[2][0][2][0]):
                    ok = base[0] == "sub" and base[2] == name[2]
            elif loop_of(name) is not None and is_names(loop_of(name).iter):
                ok = False      # for n in names: ... needs its own column index; not a recognised transpose
            r.ob(ok, lambda e=e: Finding(
                "PU-2", "%s::create_record._create_record{transpose}" % PQ, e.where(),
                "the buffer of column k must receive row[<k-th name of the schema>] for every row; here %s: values land in the column given by "
                "something else than the schema order (e.g. the key order of the row)" % e.brief(), trace_of(p)))
    r.ob(saw_append, lambda: Finding("PU-2", "%s::create_record._create_record{transpose}" % PQ, m.where(fn),
                                     "no per-column append of row[name] found in the record builder"))
    # the column arrays are built from the values as they are: no option of pyarrow.array that turns values into nulls or wraps them
    # (library facts: from_pandas=True reads NaN as null, mask= nulls the masked slots, safe=False lets a cast overflow or truncate)
    ARRAY_REWRITING = {"from_pandas": (None, False), "mask": (None,), "safe": (True,)}
    arrs = [n for n in ast.walk(fn) if isinstance(n, ast.Call) and dotted_name(n.func) is not None
            and ctx.program.resolve_dotted(m, dotted_name(n.func))[1] in ("pyarrow.array", "pyarrow.lib.array")]
    r.groups.add(("create_record", "array-options"))
    for a in arrs:
        if any(k.arg is None for k in a.keywords):
            raise AnalysisError("parquet.create_record: pa.array is called with ** arguments; its options cannot be told")
        bad = [k for k in a.keywords if k.arg in ARRAY_REWRITING and not (isinstance(k.value, ast.Constant) and k.value.value in ARRAY_REWRITING[k.arg])]
        bad += [ast.keyword(arg=nm, value=v) for nm, v in zip(("mask", "size", "from_pandas", "safe"), a.args[2:])
                if nm in ARRAY_REWRITING and not (isinstance(v, ast.Constant) and v.value in ARRAY_REWRITING[nm])]
        r.ob(not bad, lambda a=a, bad=bad: Finding(
            "PU-2", "%s::create_record._create_record{array-options}" % PQ, m.where(a),
            "%s: with %s pyarrow does not store the values it is given (from_pandas=True stores NaN as null, mask= nulls slots, safe=False lets a cast "
            "wrap or truncate), so the file does not hold the source rows" % (ast.unparse(a)[:70], ", ".join("%s=%s" % (k.arg, ast.unparse(k.value)) for k in bad))))
    r.ob(bool(arrs), lambda: Finding("PU-2", "%s::create_record._create_record{array-options}" % PQ, m.where(fn), "no pyarrow.array call found in the record builder"))
    # stage order of dump_to_file
    md, fd = ctx.function(PQ, "dump_to_file")
    if len([1 for x in ctx.functions_named(PQ, "dump_to_file")]) < 1:
        raise AnalysisError("parquet.dump_to_file vanished")
    # the pyarrow variant is the one with a nested function
    cands = [(mm, f) for mm, f in ctx.functions_named(PQ, "dump_to_file") if any(isinstance(n, ast.FunctionDef) for n in f.body)]
    md, fd = cands[0]
    r.instances += 1
    pipes = [n for n in ast.walk(fd) if isinstance(n, ast.Call) and isinstance(n.func, ast.Attribute) and n.func.attr == "pipe"]
    ok = len(pipes) == 1
    if ok:
        names = []
        from .ag import _single_assignments
        loc = _single_assignments(md, pipes[0])
        pargs = [loc.get(a.id, a) if isinstance(a, ast.Name) else a for a in pipes[0].args]
        for a in pargs:
            names.append(_stage_name(ctx, m, a) or ast.unparse(a.func) if isinstance(a, ast.Call) else ast.unparse(a))
        ok = names == ["rxsci.data.batch.batch", "rxsci.container.parquet.to_record", "rxsci.container.parquet._dump_parquet"]
        b = pargs[0]
        bargs = ([ast.unparse(x) for x in b.args] + [ast.unparse(k.value) for k in b.keywords]) if isinstance(b, ast.Call) else None
        ok = ok and bargs == ["batch_size"]
    r.ob(ok, lambda: Finding("PU-2", "%s::dump_to_file{stages}" % PQ, md.where(fd),
                             "dump_to_file must be batch(batch_size) -> to_record(schema) -> _dump_parquet(...); found %s" % (names if pipes else None)))
    mt, ftr = ctx.function(PQ, "to_record")
    ok = ast.unparse(ftr.body[-1]) == "return rs.ops.map(create_record(schema))"
    r.ob(ok, lambda: Finding("PU-2", "%s::to_record" % PQ, mt.where(ftr), "to_record must map one fresh record builder over the batches"))
    # the writer is built on the schema the records were built with, and with no option that makes pyarrow rewrite what it is given
    # (library facts, pyarrow.parquet.ParquetWriter: flavor='spark' renames columns and coerces timestamps; coerce_timestamps /
    # allow_truncated_timestamps / use_deprecated_int96_timestamps change or truncate timestamp values)
    REWRITING = {"flavor", "coerce_timestamps", "allow_truncated_timestamps", "use_deprecated_int96_timestamps"}
    mw, fw = ctx.function(PQ, "_dump_parquet")
    wcalls = [n for n in ast.walk(fw) if isinstance(n, ast.Call) and isinstance(n.func, ast.Attribute) and n.func.attr == "ParquetWriter"]
    if len(wcalls) != 1:
        raise AnalysisError("parquet._dump_parquet: expected one pq.ParquetWriter(...) call, found %d" % len(wcalls))
    wc = wcalls[0]
    r.instances += 1
    r.groups.add(("_dump_parquet", "writer-options"))
    if any(k.arg is None for k in wc.keywords) or any(isinstance(a, ast.Starred) for a in wc.args):
        raise AnalysisError("parquet._dump_parquet: the ParquetWriter call takes */** arguments; its options cannot be told")
    wschema = wc.args[1] if len(wc.args) > 1 else next((k.value for k in wc.keywords if k.arg == "schema"), None)
    r.ob(wschema is not None and isinstance(wschema, ast.Name) and wschema.id == "schema", lambda: Finding(
        "PU-2", "%s::_dump_parquet{writer-schema}" % PQ, mw.where(wc), "the writer must be opened on the schema given to dump_to_file; it is opened on %s" % (
            ast.unparse(wschema) if wschema is not None else None)))
    bad = [k for k in wc.keywords if k.arg in REWRITING and not (isinstance(k.value, ast.Constant) and k.value.value in (None, False))]
    r.ob(not bad, lambda: Finding(
        "PU-2", "%s::_dump_parquet{writer-options}" % PQ, mw.where(wc),
        "the writer is opened with %s: pyarrow then rewrites the schema / the values it is given (flavor='spark' replaces ' ,;{}()\\n\\t=' in column names by '_' "
        "and coerces timestamps), so the file does not hold the source rows" % ", ".join("%s=%s" % (k.arg, ast.unparse(k.value)) for k in bad)))
    # writer: each record batch written once; closed before completion
    site = ctx.site(PQ, "_dump_parquet._dump.on_subscribe")
    nopen = 0
    for p in ctx.fn_paths(site.module, site.subscribe_fn, roles=site.roles, ctxb=site.ctx or None):
        r.paths += 1
        for e in p.trace:
            if e.k == "ucall" and e.d.get("name") == "open_obj":
                nopen += 1
                mode = [a[2] for a in e.d.get("args", []) if a[0] == "kw" and a[1] == "mode"] or [a for a in e.d.get("args", [])[1:2] if a[0] != "kw"]
                ok = bool(mode) and mode[0][0] == "const" and isinstance(mode[0][1], str) and set(mode[0][1]) == set("wb")
                r.ob(ok, lambda e=e, p=p: Finding("PU-2", "%s::_dump_parquet{mode}" % PQ, e.where(),
                                                  "the parquet file must be created / truncated for binary writing (mode 'wb'); here %s: an existing file keeps its "
                                                  "old bytes in front of the new ones" % e.brief(), trace_of(p)))
    r.ob(nopen > 0, lambda: Finding(
        "PU-2", "%s::_dump_parquet{open-at-subscription}" % PQ, site.where(),
        "the file is not opened (and the writer not created) when the subscription is made: a source without rows never opens it, so dump_to_file leaves no "
        "file, or an empty one, where a valid parquet file with zero rows is expected"))
    spec = site.handler_specs("on_next")[0]
    for p in ctx.paths(spec, None, {}):
        r.paths += 1
        if not _normal(p):
            continue
        ws = [e for e in p.trace if e.k == "mutate" and e.method == "write" or (e.k == "call" and e.d.get("method") == "write")]
        ok = len(ws) == 1 and ws[0].args and ws[0].args[0] == EV
        r.ob(ok, lambda: mk_finding("PU-2", spec, None, {}, p, "every record batch must be written exactly once", extra="write"))
    spec = site.handler_specs("on_completed")[0]
    for cfg in valuations(ctx.space(spec)):
        for p in ctx.paths(spec, None, cfg):
            r.paths += 1
            seq = [e for e in p.trace if (e.k in ("mutate", "call") and e.d.get("method") == "close") or e.k == "emit"]
            closes = [k for k, e in enumerate(seq) if e.k != "emit" and show(e.base) == "writer"]
            term = [k for k, e in enumerate(seq) if e.k == "emit" and e.method == "on_completed"]
            r.ob(len(closes) == 1 and len(term) == 1 and closes[0] < term[0], lambda: mk_finding(
                "PU-2", spec, None, cfg, p, "the parquet writer must be closed (footer written) before on_completed", extra="close"))
    # loader: every row of every batch is emitted before on_completed
    lm, lfn = ctx.function(PQ, "load_from_file")
    cands = [(lm, f) for f in ast.walk(lfn) if isinstance(f, ast.FunctionDef) and f is not lfn and any(
        isinstance(n, ast.Call) and isinstance(n.func, ast.Attribute) and n.func.attr == "iter_batches" for n in ast.walk(f))]
    # the innermost function that iterates the record batches (helpers it calls are followed by the path enumeration)
    cands = [c for c in cands if not any(o[1] is not c[1] and any(x is o[1] for x in ast.walk(c[1])) for o in cands)]
    if len(cands) != 1:
        raise AnalysisError("parquet.load_from_file: expected one inner function iterating ParquetFile.iter_batches, found %d" % len(cands))
    ml, fl = cands[0]
    r.instances += 1
    saw_rows = False
    for p in ctx.fn_paths(ml, fl, max_iter=1):
        r.paths += 1
        if not _normal(p):
            continue
        loops = [e for e in p.trace if e.k == "loopiter"]
        ems = emissions(p)
        outs = [x for x in ems if x.method == "on_next"]
        comps = [x for x in ems if x.method == "on_completed"]
        broke = any(e.k == "loopexit" and e.d.get("broke") for e in p.trace)
        if len(loops) >= 2:
            saw_rows = True
            outer, inner_ = loops[0], loops[1]
            it = outer.iter
            ok = it is not None and it[0] == "mcall" and it[2] == "iter_batches" and any(
                a[0] == "kw" and a[1] == "batch_size" and a[2][0] in ("param", "arg") and a[2][1] == "batch_size" for a in it[3])
            r.ob(ok, lambda: Finding("PU-2", "%s::load_from_file._load_file{batches}" % PQ, ml.where(fl),
                                     "the loader must iterate iter_batches(batch_size=batch_size); it iterates %s" % show(it), trace_of(p)))
            dep = any(x == outer.var or (x[0] == "loopvar" and x[1] == outer.var[1]) for x in subterms(inner_.iter))
            ok = len(outs) == 1 and outs[0].eff.arg[0] == "loopvar" and outs[0].eff.arg[1] == inner_.loop and dep
            r.ob(ok, lambda: Finding("PU-2", "%s::load_from_file._load_file{rows}" % PQ, ml.where(fl),
                                     "every row of every batch must be emitted exactly once: the inner loop must run over the rows of the current batch and emit "
                                     "its loop variable; emissions on this path: %s" % summary(p), trace_of(p)))
        if broke:
            # the batch loop may be left early only because the subscriber disposed
            flags = _disposal_flags(ml, ml.enclosing_function(fl) or fl)
            tests = []
            for e in p.trace:
                if e.k != "decision":
                    continue
                tt, pol = e.test, e.outcome
                while tt[0] == "not":
                    tt, pol = tt[1], not pol
                if tt[0] == "free":
                    tests.append((tt[1], pol))
            ok = any(n in flags and pol for n, pol in tests)
            r.ob(ok, lambda p=p, tests=tests, flags=flags: Finding(
                "PU-2", "%s::load_from_file._load_file{early-exit}" % PQ, ml.where(fl),
                "the loader leaves the batch loop before the last batch on a path where the subscriber has not disposed (tests on this path: %s; disposal "
                "flags: %s): the remaining batches are never emitted" % (tests, sorted(flags)), trace_of(p)))
        if not broke:
            ok = len(comps) == 1 and ems[-1] is comps[0]
            r.ob(ok, lambda: Finding("PU-2", "%s::load_from_file._load_file{completion}" % PQ, ml.where(fl),
                                     "on_completed must follow the last row, exactly once; this path: %s" % summary(p), trace_of(p)))
    r.ob(saw_rows, lambda: Finding("PU-2", "%s::load_from_file._load_file{loops}" % PQ, ml.where(fl), "no batch / row loops found in the loader"))
    # the function that runs the loader does so for a path and for a file object alike: every path on which nothing raises ends with
    # on_completed (the loader ran to its end), and a file the operator opens itself is opened for binary reading
    callers = [f for f in ast.walk(lfn) if isinstance(f, ast.FunctionDef) and f is not fl and any(
        isinstance(n, ast.Call) and isinstance(n.func, ast.Name) and n.func.id == fl.name for n in ast.walk(f)) and not any(x is fl for x in ast.walk(f))]
    if len(callers) != 1:
        raise AnalysisError("parquet.load_from_file: expected one function running %s, found %d" % (fl.name, len(callers)))
    r.instances += 1
    r.groups.add(("load_from_file", "arms"))
    for p in ctx.fn_paths(lm, callers[0], max_iter=1):
        r.paths += 1
        if p.outcome == "raise" or any(e.d.get("raised") for e in p.trace):
            continue
        ems = emissions(p)
        ok = bool(ems) and ems[-1].method == "on_completed" and len([x for x in ems if x.method == "on_completed"]) == 1
        r.ob(ok, lambda p=p: Finding(
            "PU-2", "%s::load_from_file.%s{arms}" % (PQ, callers[0].name), lm.where(callers[0]),
            "on a path where nothing fails the loader is not run to its end (no on_completed): %s; decisions: %s" % (
                summary(p), "; ".join(e.brief() for e in p.trace if e.k == "decision")[:200]), trace_of(p)))
        # what the parquet reader is opened on: the file object the caller gave, or the file the operator opened from the caller's path
        opened = [e for e in p.trace if e.k == "call" and e.func == ("glob", "pyarrow.parquet.ParquetFile")]
        for e in opened:
            a0 = e.args[0] if e.args and e.args[0][0] != "kw" else next((a[2] for a in e.args if a[0] == "kw" and a[1] == "source"), None)
            # (directly, or through whatever opens / wraps it: open_obj(filename, ...), contextlib.nullcontext(filename))
            src_ok = a0 is not None and any(isinstance(x, tuple) and len(x) > 1 and x[0] == "param" and x[1] == "filename" for x in subterms(a0))
            # ... and nothing else stands between that object and the reader: bytes taken with the object's read() start at the position the
            # caller left it at (a file object just written is at its end), a reader built on its descriptor bypasses the object
            if src_ok and ((a0[0] == "call" and a0[1][0] == "glob" and not a0[1][1].startswith("contextlib.")) or a0[0] == "mcall"):
                src_ok = False
            r.ob(src_ok, lambda e=e, a0=a0, p=p: Finding(
                "PU-2", "%s::load_from_file.%s{source}" % (PQ, callers[0].name), e.where(),
                "the parquet reader is opened on %s: it must be the file object the caller gave, or the file opened from the caller's path" % (
                    show(a0) if a0 is not None else None), trace_of(p)))
        for e in p.trace:
            if e.k == "ucall" and e.d.get("name") == "open_obj":
                mode = [a[2] for a in e.d.get("args", []) if a[0] == "kw" and a[1] == "mode"] or [a for a in e.d.get("args", [])[1:2] if a[0] != "kw"]
                ok = bool(mode) and mode[0][0] == "const" and isinstance(mode[0][1], str) and set(mode[0][1]) == set("rb")
                r.ob(ok, lambda e=e: Finding("PU-2", "%s::load_from_file.%s{mode}" % (PQ, callers[0].name), e.where(),
                                             "the parquet file must be opened for binary reading (mode 'rb'); here %s" % e.brief(), trace_of(p)))
    r.require_instances(5)
    return r
