"""Per-subscription state (C01, C08-C10, C15-C17): what an operator remembers between events belongs to one subscription.

SUB-1  every closure variable a handler rebinds or mutates is a local of the function that makes the subscription (or of a scope
       inside it) -- not of the operator factory, whose closure is shared by every subscription of the piped observable
SUB-2  no handler and no subscribe function calls a method of a mutable object kept at module level (one object for the whole
       process: two subscriptions alive at the same time share it)
GEN-1  a one-shot iterator (generator expression, map / filter / zip / iter / reversed / enumerate object) created in a factory is
       not consumed inside a function the factory returns (the second application of the operator would find it exhausted)
"""
from __future__ import annotations

import ast

from ..engine import Ctx, Finding, RuleResult, cfg_str, trace_of
from ..loader import AnalysisError, dotted_name
from ..model import valuations
from ..terms import KINDS, show, subterms
from .common import mk_finding

MUTATING = ("mutate", "substore", "subdel", "attrstore")
# immutable marker instances: calling .value() on them reads a constant
MARKER_MODULES = ("rxsci.state.markers", "rxsci.internal.utils")


def _root(t):
    while t[0] in ("sub", "attr") and len(t) > 1 and isinstance(t[1], tuple):
        t = t[1]
    return t


def _inside(owner, scope):
    return owner == scope or owner.startswith(scope + ".")


def rule_sub1(ctx: Ctx) -> RuleResult:
    r = RuleResult("SUB-1", "what a handler remembers between events (closure variables it rebinds or mutates) is created by the function that makes the "
                            "subscription, not by the operator factory whose closure every subscription shares")
    for site in ctx.sites:
        sfn = site.subscribe_fn
        sc = site.module.scopes.get(sfn)
        if sc is None:
            continue
        S = sc.qualname
        checked = False
        for which in ("on_next", "on_completed", "on_error"):
            for spec in site.handler_specs(which):
                kinds = [k for k in KINDS if k != "Other"] if (site.ctor != "create" and which == "on_next") else (None,)
                seen = set()
                for kind in kinds:
                    for cfg in valuations(ctx.space(spec)):
                        for p in ctx.paths(spec, kind, cfg):
                            r.paths += 1
                            checked = True
                            for e in p.trace:
                                bad = None
                                if e.k == "nonlocal":
                                    owner = e.d.get("owner") or ""
                                    if owner and not _inside(owner, S):
                                        bad = (e.name, owner, "rebinds")
                                elif e.k in MUTATING:
                                    rt = _root(e.base)
                                    if rt[0] == "free" and len(rt) > 2 and not _inside(rt[2], S):
                                        bad = (rt[1], rt[2], "mutates")
                                if bad is None:
                                    continue
                                sig = (id(e.node), bad[0])
                                if sig in seen:
                                    continue
                                seen.add(sig)
                                r.ob(False, lambda e=e, bad=bad, spec=spec, kind=kind, cfg=cfg, p=p, S=S: mk_finding(
                                    "SUB-1", spec, kind, cfg, p,
                                    "the handler %s '%s', a variable of %s: that scope is entered once per application of the operator, not once per subscription "
                                    "(%s is), so a second subscription of the same piped observable starts from what the first one left (%s)" % (
                                        bad[2], bad[0], bad[1] or "the module", S, e.brief()), node=e.node, extra=bad[0]))
                if checked:
                    r.ob(True)
        if checked:
            r.instances += 1
            r.groups.add((site.short,))
    r.require_instances(ctx.scaled(30))
    return r


def rule_sub2(ctx: Ctx) -> RuleResult:
    r = RuleResult("SUB-2", "subscriptions share no mutable module-level object: neither the subscribe function nor a handler calls a method of an object "
                            "constructed at import time")
    prog = ctx.program

    def check_path(p, where, finding_of):
        for e in p.trace:
            if e.k not in ("call", "mutate"):
                continue
            base = e.d.get("base")
            if base is None:
                continue
            rt = _root(base)
            if rt[0] != "modvar" or len(rt) < 3 or not isinstance(rt[2], ast.Call):
                continue
            modname = rt[1].rsplit(".", 1)[0]
            if modname in MARKER_MODULES or not modname.startswith("rxsci"):
                continue
            r.ob(False, lambda e=e, rt=rt: finding_of(e, rt))
    for site in ctx.sites:
        sm, sfn = site.module, site.subscribe_fn
        done = False
        try:
            paths = ctx.fn_paths(sm, sfn, roles=site.roles, ctxb=site.ctx or None)
        except AnalysisError:
            paths = []
        for p in paths:
            r.paths += 1
            done = True
            check_path(p, sfn, lambda e, rt: Finding(
                "SUB-2", "%s::%s{module-object}" % (site.anchor_rel, site.short), e.where(),
                "the subscription is built from %s, an object created once at import time (%s): every subscription in the process shares its "
                "internal state" % (rt[1], e.brief()), trace_of(p)))
        for which in ("on_next", "on_completed", "on_error"):
            for spec in site.handler_specs(which):
                kinds = [k for k in KINDS if k != "Other"] if (site.ctor != "create" and which == "on_next") else (None,)
                for kind in kinds:
                    for cfg in valuations(ctx.space(spec)):
                        for p in ctx.paths(spec, kind, cfg):
                            r.paths += 1
                            done = True
                            check_path(p, spec.fn, lambda e, rt, spec=spec, kind=kind, cfg=cfg, p=p: mk_finding(
                                "SUB-2", spec, kind, cfg, p, "the handler calls a method of %s, an object created once at import time (%s): every "
                                "subscription in the process shares its internal state" % (rt[1], e.brief()), node=e.node, extra="module-object"))
        if done:
            r.instances += 1
            r.ob(True)
    r.require_instances(ctx.scaled(30))
    return r


ONE_SHOT_CALLS = ("map", "filter", "zip", "iter", "reversed", "enumerate")


def rule_gen1(ctx: Ctx) -> RuleResult:
    r = RuleResult("GEN-1", "a one-shot iterator built by an operator factory is not consumed inside a function the factory returns (it would be empty "
                            "the second time the operator is applied or subscribed)")
    prog = ctx.program
    n_scopes = 0
    # scopes entered once per subscription: the subscribe functions of the construction sites and everything inside them
    per_sub = set()
    for site in ctx.all_sites:
        if site.subscribe_fn is not None:
            for g in ast.walk(site.subscribe_fn):
                if isinstance(g, (ast.FunctionDef, ast.Lambda)):
                    per_sub.add(id(g))
    for rel, m in sorted(prog.by_relpath.items()):
        if ctx.scope is not None and rel not in ctx.scope:
            continue
        for fn, sc in m.scopes.items():
            if not isinstance(fn, ast.FunctionDef) or id(fn) in per_sub:
                continue
            inner = [g for g in ast.walk(fn) if isinstance(g, (ast.FunctionDef, ast.Lambda)) and g is not fn]
            if not inner:
                continue
            n_scopes += 1
            for s in ast.walk(fn):
                if not isinstance(s, ast.Assign) or m.enclosing_function(s) is not fn or len(s.targets) != 1 or not isinstance(s.targets[0], ast.Name):
                    continue
                v = s.value
                one_shot = isinstance(v, ast.GeneratorExp) or (
                    isinstance(v, ast.Call) and isinstance(v.func, ast.Name) and v.func.id in ONE_SHOT_CALLS and v.func.id not in sc.locals
                    and v.func.id not in m.bindings)
                if not one_shot:
                    continue
                name = s.targets[0].id
                uses = [x for g in inner for x in ast.walk(g) if isinstance(x, ast.Name) and x.id == name and isinstance(x.ctx, ast.Load)
                        and name not in (m.scopes[g].params if g in m.scopes else ()) and name not in (m.scopes[g].locals if g in m.scopes else ())]
                r.groups.add((rel, sc.qualname, name))
                r.ob(not uses, lambda s=s, name=name, uses=uses, sc=sc: Finding(
                    "GEN-1", "%s::%s{%s}" % (rel, sc.qualname, name), m.where(s),
                    "'%s' is a one-shot iterator (%s) created when %s is called and consumed at %s inside a function that %s returns: the first "
                    "application / subscription exhausts it, every later one sees an empty sequence" % (
                        name, ast.unparse(s.value)[:60], sc.qualname, m.where(uses[0]), sc.qualname)))
    r.instances = max(n_scopes, 1)
    r.ob(True)
    return r


RULES = [rule_sub1, rule_sub2, rule_gen1]
