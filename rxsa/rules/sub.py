"""Per-subscription state (C01, C08-C10, C15-C17): what an operator remembers between events belongs to one subscription.

SUB-1  every closure variable a handler rebinds or mutates is a local of the function that makes the subscription (or of a scope
       inside it) -- not of the operator factory, whose closure is shared by every subscription of the piped observable
SUB-2  no handler and no subscribe function calls a method of a mutable object kept at module level (one object for the whole
       process: two subscriptions alive at the same time share it)
SUB-3  every subscription an operator makes passes a handler for each of the three channels (or a whole observer): a missing
       on_error swallows the source's error, a missing on_completed leaves the subscriber -- and everything downstream that acts at
       completion: reducers, file.write closing its file -- waiting forever; and the source is subscribed at most once per path
GEN-3  the function an operator factory returns (the thing applied to the source) yields a value on every path: one that falls off its
       end makes operator(source) None for the sources taking that path
GEN-1  a one-shot iterator (generator expression, map / filter / zip / iter / reversed / enumerate object) created in a factory is
       not consumed inside a function the factory returns (the second application of the operator would find it exhausted)
"""
from __future__ import annotations

import ast

from ..engine import Ctx, Finding, RuleResult, cfg_str, trace_of
from ..loader import AnalysisError, dotted_name
from ..model import valuations
from ..terms import KINDS, show, subterms
from .common import mk_finding

MUTATING = ("mutate", "substore", "subdel", "attrstore")
# immutable marker instances: calling .value() on them reads a constant
MARKER_MODULES = ("rxsci.state.markers", "rxsci.internal.utils")


def _root(t):
    while t[0] in ("sub", "attr") and len(t) > 1 and isinstance(t[1], tuple):
        t = t[1]
    return t


def _inside(owner, scope):
    return owner == scope or owner.startswith(scope + ".")


# variables that are shared between the subscriptions of one observable on purpose: (module, name) -> reason
SUB1_SHARED = {
    ("rxsci/data/train_test_split.py", "count"): "ref_count counts the live subscribers of the connectable it wraps; the count is the point of sharing",
    ("rxsci/data/train_test_split.py", "connectable_subscription"): "the one connection of the shared connectable, made by the first subscriber and released by the last",
}


def rule_sub1(ctx: Ctx) -> RuleResult:
    r = RuleResult("SUB-1", "what a handler remembers between events (closure variables it rebinds or mutates) is created by the function that makes the "
                            "subscription, not by the operator factory whose closure every subscription shares")
    for site in ctx.sites:
        sfn = site.subscribe_fn
        sc = site.module.scopes.get(sfn)
        if sc is None:
            continue
        S = sc.qualname
        checked = False
        for which in ("on_next", "on_completed", "on_error"):
            for spec in site.handler_specs(which):
                kinds = [k for k in KINDS if k != "Other"] if (site.ctor != "create" and which == "on_next") else (None,)
                seen = set()
                for kind in kinds:
                    for cfg in valuations(ctx.space(spec)):
                        for p in ctx.paths(spec, kind, cfg):
                            r.paths += 1
                            checked = True
                            for e in p.trace:
                                bad = None
                                if e.k == "nonlocal":
                                    owner = e.d.get("owner") or ""
                                    if owner and not _inside(owner, S):
                                        bad = (e.name, owner, "rebinds")
                                elif e.k in MUTATING:
                                    rt = _root(e.base)
                                    if rt[0] == "free" and len(rt) > 2 and not _inside(rt[2], S):
                                        bad = (rt[1], rt[2], "mutates")
                                if bad is None:
                                    continue
                                sig = (id(e.node), bad[0])
                                if sig in seen:
                                    continue
                                seen.add(sig)
                                # (whose variable it is does not depend on what any call on the path returns: the finding stands also on a
                                # path through code the engine could not resolve)
                                r.ob(False, lambda e=e, bad=bad, spec=spec, kind=kind, cfg=cfg, p=p, S=S: _structural(mk_finding)(
                                    "SUB-1", spec, kind, cfg, p,
                                    "the handler %s '%s', a variable of %s: that scope is entered once per application of the operator, not once per subscription "
                                    "(%s is), so a second subscription of the same piped observable starts from what the first one left (%s)" % (
                                        bad[2], bad[0], bad[1] or "the module", S, e.brief()), node=e.node, extra=bad[0]))
                if checked:
                    r.ob(True)
        if checked:
            r.instances += 1
            r.groups.add((site.short,))
    # the state topology a probe carries is per subscription too: every stateful operator answers the probe by appending its states to
    # it, and the ids it gets index the store built from the FIRST probe -- a topology that outlives the subscription hands the second
    # subscription ids past the end of the store.  (with_store_mux_on_sources shares one topology between its sources on purpose: MX-6.)
    prog = ctx.program
    for site in ctx.sites:
        sfn, m = site.subscribe_fn, site.module
        if sfn is None:
            continue
        for c in ast.walk(sfn):
            if not (isinstance(c, ast.Call) and (dotted_name(c.func) or "").split(".")[-1] == "ProbeStateTopology" and c.args and isinstance(c.args[0], ast.Name)):
                continue
            if m.enclosing_function(c) is not sfn:
                continue          # a handler forwarding or rebuilding a probe it received
            name = c.args[0].id
            binds = [s for s in ast.walk(m.tree) if isinstance(s, ast.Assign) and any(isinstance(x, ast.Name) and x.id == name for tg in s.targets for x in ast.walk(tg))
                     and isinstance(s.value, ast.Call) and (dotted_name(s.value.func) or "").split(".")[-1] == "StateTopology"]
            visible = [s for s in binds if m.enclosing_function(s) is sfn or any(f is m.enclosing_function(s) for f in _enclosing_chain(m, sfn))]
            if not visible:
                continue
            r.instances += 1
            shared_by_design = any("on_sources" in (m.scopes[f].qualname if f in m.scopes else "") for f in _enclosing_chain(m, sfn))
            ok = all(m.enclosing_function(s) is sfn for s in visible) or shared_by_design
            r.ob(ok, lambda c=c, visible=visible, name=name, site=site: Finding(
                "SUB-1", "%s{topology}" % site.name, m.where(visible[0]),
                "the state topology sent with the probe ('%s') is created at %s, outside the function that makes the subscription: the stateful operators "
                "append their states to it at every subscription, so the second subscription of the same observable gets state ids past the end of "
                "the store that was sized by the first" % (ast.unparse(c)[:50], m.where(visible[0]))))
    # ... and the same for what the other functions of a subscription write (a disposal flag set by the function handed to Disposable, a
    # scheduled action): a variable they rebind belongs to the subscription
    for site in ctx.sites:
        sfn, m = site.subscribe_fn, site.module
        if sfn is None:
            continue
        outer = list(_enclosing_chain(m, sfn))
        for g in ast.walk(sfn):
            if not isinstance(g, ast.FunctionDef) or g is sfn:
                continue
            for nl in [x for x in ast.walk(g) if isinstance(x, ast.Nonlocal) and m.enclosing_function(x) is g]:
                for name in nl.names:
                    if not any(isinstance(s, (ast.Assign, ast.AugAssign)) and m.enclosing_function(s) is g and any(
                            isinstance(x, ast.Name) and x.id == name and isinstance(x.ctx, ast.Store)
                            for tg in (s.targets if isinstance(s, ast.Assign) else [s.target]) for x in ast.walk(tg)) for s in ast.walk(g)):
                        continue
                    owner = None
                    f = m.enclosing_function(g)
                    while f is not None:
                        scx = m.scopes.get(f)
                        if scx is not None and (name in scx.locals or name in scx.params) and name not in scx.nonlocals:
                            owner = f
                            break
                        f = m.enclosing_function(f)
                    if owner is None or owner is sfn or not any(owner is o for o in outer):
                        continue
                    if (site.anchor_rel, name) in SUB1_SHARED:
                        continue
                    r.ob(False, lambda g=g, name=name, owner=owner, site=site, nl=nl: Finding(
                        "SUB-1", "%s{%s}" % (site.name, name), m.where(nl),
                        "%s rebinds '%s', a variable of %s: that scope is entered once per application of the operator (or once per observable), not "
                        "once per subscription, so the second subscription starts from what the first one left -- a disposal flag still set, a "
                        "counter not reset" % (g.name, name, m.scopes[owner].qualname if owner in m.scopes else owner.name),
                        detail={"structural": True}))
        # what the subscribe function returns is made for this subscription: a Disposable built once per operator runs its action at
        # the first dispose only
        for rt in [x for x in ast.walk(sfn) if isinstance(x, ast.Return) and m.enclosing_function(x) is sfn and isinstance(x.value, ast.Name)]:
            name = rt.value.id
            scs = m.scopes.get(sfn)
            if scs is not None and (name in scs.locals or name in scs.params):
                continue
            binds = [s for f in outer for s in ast.walk(f) if isinstance(s, ast.Assign) and m.enclosing_function(s) is f and len(s.targets) == 1
                     and isinstance(s.targets[0], ast.Name) and s.targets[0].id == name and isinstance(s.value, ast.Call)]
            if not binds:
                continue
            r.ob(False, lambda rt=rt, binds=binds, name=name, site=site: Finding(
                "SUB-1", "%s{returns %s}" % (site.name, name), m.where(binds[0]),
                "the subscribe function returns '%s', an object built once at %s (%s) and handed to every subscriber: a disposable runs its action at "
                "the first dispose only, so from the second subscription on disposing releases nothing" % (
                    name, m.where(binds[0]), ast.unparse(binds[0].value)[:50]), detail={"structural": True}))
    r.require_instances(ctx.scaled(30))
    return r


def _structural(make):
    def run(*a, **kw):
        f = make(*a, **kw)
        if isinstance(f.detail, dict):
            f.detail.pop("unresolved", None)
            f.detail["structural"] = True
        return f
    return run


def rule_sub2(ctx: Ctx) -> RuleResult:
    r = RuleResult("SUB-2", "subscriptions share no mutable module-level object: neither the subscribe function nor a handler calls a method of an object "
                            "constructed at import time")
    prog = ctx.program

    def check_path(p, where, finding_of):
        for e in p.trace:
            if e.k not in ("call", "mutate"):
                continue
            base = e.d.get("base")
            if base is None:
                continue
            rt = _root(base)
            if rt[0] != "modvar" or len(rt) < 3 or not isinstance(rt[2], ast.Call):
                continue
            modname = rt[1].rsplit(".", 1)[0]
            if modname in MARKER_MODULES or not modname.startswith("rxsci"):
                continue
            r.ob(False, lambda e=e, rt=rt: finding_of(e, rt))
    for site in ctx.sites:
        sm, sfn = site.module, site.subscribe_fn
        done = False
        try:
            paths = ctx.fn_paths(sm, sfn, roles=site.roles, ctxb=site.ctx or None)
        except AnalysisError:
            paths = []
        for p in paths:
            r.paths += 1
            done = True
            check_path(p, sfn, lambda e, rt: Finding(
                "SUB-2", "%s::%s{module-object}" % (site.anchor_rel, site.short), e.where(),
                "the subscription is built from %s, an object created once at import time (%s): every subscription in the process shares its "
                "internal state" % (rt[1], e.brief()), trace_of(p)))
        for which in ("on_next", "on_completed", "on_error"):
            for spec in site.handler_specs(which):
                kinds = [k for k in KINDS if k != "Other"] if (site.ctor != "create" and which == "on_next") else (None,)
                for kind in kinds:
                    for cfg in valuations(ctx.space(spec)):
                        for p in ctx.paths(spec, kind, cfg):
                            r.paths += 1
                            done = True
                            check_path(p, spec.fn, lambda e, rt, spec=spec, kind=kind, cfg=cfg, p=p: mk_finding(
                                "SUB-2", spec, kind, cfg, p, "the handler calls a method of %s, an object created once at import time (%s): every "
                                "subscription in the process shares its internal state" % (rt[1], e.brief()), node=e.node, extra="module-object"))
        if done:
            r.instances += 1
            r.ob(True)
    r.require_instances(ctx.scaled(30))
    return r


# subscriptions that leave a channel out on purpose: (module, receiver) -> (channels left out, reason)
SUB3_EXEMPT = {
    ("rxsci/operators/multiplex.py", "outer_group"): (
        {"on_error", "on_completed"}, "the outer observable of demux is the template of the group and only relays items; the stream's end comes from the mux source"),
    ("rxsci/operators/with_latest_from.py", "child"): (
        {"on_completed"}, "with_latest_from keeps the latest value of a child after the child has completed"),
}


def rule_sub3(ctx: Ctx) -> RuleResult:
    r = RuleResult("SUB-3", "every subscription made by an operator handles on_next, on_error and on_completed (or hands over a whole observer), and a "
                            "subscribe function subscribes its source at most once on a path")
    prog = ctx.program
    # the subscriptions of the modules in scope, and those of the subscribe functions of the sites in scope (a site built by a helper
    # of another module belongs to the module that calls the helper)
    cands, seen_nodes = [], set()
    for rel, m in sorted(prog.by_relpath.items()):
        if (ctx.scope is not None and rel not in ctx.scope) or not rel.startswith("rxsci/"):
            continue
        cands += [(rel, m, n) for n in ast.walk(m.tree)]
    for site in ctx.sites:
        if site.subscribe_fn is not None:
            cands += [(site.module.relpath, site.module, n) for n in ast.walk(site.subscribe_fn)]
    for rel, m, n in cands:
        if True:
            if not (isinstance(n, ast.Call) and isinstance(n.func, ast.Attribute) and n.func.attr in ("subscribe", "subscribe_")) or id(n) in seen_nodes:
                continue
            seen_nodes.add(id(n))
            fn = m.enclosing_function(n)
            if fn is None:
                continue
            if any(isinstance(a, ast.Starred) for a in n.args) or any(k.arg is None for k in n.keywords):
                raise AnalysisError("%s: a subscription is made with */** arguments; its handlers cannot be told" % m.where(n))
            r.instances += 1
            recv = ast.unparse(n.func.value)
            kws = {k.arg for k in n.keywords}
            pos = list(n.args)
            # the first positional argument is either a whole observer or the on_next function: it is a function when it names a def /
            # lambda / bound partial visible here, an observer when it names a parameter of an enclosing function
            whole = False
            if pos and n.func.attr == "subscribe":
                a0 = pos[0]
                if isinstance(a0, ast.Name):
                    f, kind = fn, None
                    while f is not None and kind is None:
                        sc = m.scopes.get(f)
                        if sc is not None and a0.id in sc.params:
                            kind = "param"
                        elif any(isinstance(g, ast.FunctionDef) and g.name == a0.id and m.enclosing_function(g) is f for g in ast.walk(f)):
                            kind = "def"
                        elif sc is not None and a0.id in sc.locals:
                            kind = "local"
                        f = m.enclosing_function(f)
                    if kind == "param":
                        whole = True
                    elif kind is None or kind == "local":
                        raise AnalysisError("%s: cannot tell whether '%s' given to subscribe is an observer or a function" % (m.where(n), a0.id))
                elif not isinstance(a0, (ast.Lambda, ast.Call, ast.Attribute)):
                    raise AnalysisError("%s: unrecognised first argument of subscribe: %s" % (m.where(n), ast.unparse(a0)[:40]))
            if whole:
                r.ob(True)
                continue
            order = ("on_next", "on_error", "on_completed")
            # a handler given as None is no handler (RxPY substitutes its default)
            isnone = lambda a: isinstance(a, ast.Constant) and a.value is None
            have = {k.arg for k in n.keywords if not isnone(k.value)} | {c for c, a in zip(order, pos) if not isnone(a)}
            missing = {c for c in order if c not in have}
            ex = SUB3_EXEMPT.get((rel, recv))
            if ex is not None:
                missing -= ex[0]
            r.groups.add((rel, recv))
            r.ob(not missing, lambda n=n, missing=missing, recv=recv, rel=rel, fn=fn: Finding(
                "SUB-3", "%s::%s{%s.%s}" % (rel, m.scopes[fn].qualname if fn in m.scopes else fn.name, recv, n.func.attr), m.where(n),
                "the subscription to %s passes no %s: %s" % (recv, " / ".join(sorted(missing)), "; ".join(
                    ["an error of the source is swallowed (RxPY's default handler) instead of reaching the subscriber"] * ("on_error" in missing) +
                    ["the end of the source never reaches the subscriber: nothing downstream that acts at completion (reduce results, a file being "
                     "closed) happens"] * ("on_completed" in missing) + ["the items of the source are dropped"] * ("on_next" in missing)))))
    # at most one subscription of the source per path of a subscribe function
    for site in ctx.sites:
        sm, sfn = site.module, site.subscribe_fn
        if sfn is None:
            continue
        try:
            paths = ctx.fn_paths(sm, sfn, roles=site.roles, ctxb=site.ctx or None)
        except AnalysisError:
            continue
        for p in paths:
            r.paths += 1
            subs = {}
            for e in p.trace:
                if e.k == "call" and e.d.get("method") in ("subscribe", "subscribe_") and not e.d.get("in_comp") and not e.d.get("in_loop"):
                    b = e.d.get("base")
                    if b is not None and b[0] in ("free", "param", "arg") and not any(x.k == "loopiter" for x in p.trace):
                        subs.setdefault(b, []).append(e)
            dup = [(b, es) for b, es in subs.items() if len(es) > 1]
            r.ob(not dup, lambda dup=dup, p=p, site=site: Finding(
                "SUB-3", "%s::%s{%s subscribed twice}" % (site.anchor_rel, site.short, show(dup[0][0])), dup[0][1][1].where(),
                "%s is subscribed %d times on one path of the subscribe function: a hot or asynchronous source delivers every item %d times" % (
                    show(dup[0][0]), len(dup[0][1]), len(dup[0][1])), trace_of(p)))
    r.require_instances(ctx.scaled(40))
    return r


def _always_ends(stmts):
    """every path through the statement list ends in `return <value>` or `raise` (None: a bare return / a fall-through exists)"""
    if not stmts:
        return False
    s = stmts[-1]
    if isinstance(s, ast.Return):
        return s.value is not None
    if isinstance(s, ast.Raise):
        return True
    if isinstance(s, ast.If):
        return bool(s.orelse) and _always_ends(s.body) and _always_ends(s.orelse)
    if isinstance(s, (ast.With,)):
        return _always_ends(s.body)
    if isinstance(s, ast.Try):
        if s.finalbody and _always_ends(s.finalbody):
            return True
        return (_always_ends(s.orelse) if s.orelse else _always_ends(s.body)) and all(_always_ends(h.body) for h in s.handlers)
    if isinstance(s, ast.While) and isinstance(s.test, ast.Constant) and s.test.value is True and not any(isinstance(x, ast.Break) for x in ast.walk(s)):
        return True
    if isinstance(s, ast.Match):
        return any(isinstance(c.pattern, ast.MatchAs) and c.pattern.pattern is None and c.guard is None for c in s.cases) and all(_always_ends(c.body) for c in s.cases)
    return False


def _own_returns(fn):
    out, st = [], list(fn.body)
    while st:
        x = st.pop()
        if isinstance(x, (ast.FunctionDef, ast.AsyncFunctionDef, ast.Lambda, ast.ClassDef)):
            continue
        if isinstance(x, ast.Return):
            out.append(x)
        st.extend(ast.iter_child_nodes(x))
    return out


def rule_gen3(ctx: Ctx) -> RuleResult:
    r = RuleResult("GEN-3", "the function an operator factory returns yields a value on every path (no fall-through, no bare return): operator(source) "
                            "is an observable for every kind of source")
    prog = ctx.program
    done = set()

    def check(rel, m, gname, f):
        rets = _own_returns(f)
        if not any(x.value is not None for x in rets):
            return        # a procedure (a subscribe function without disposable, a callback)
        r.instances += 1
        r.groups.add((rel, gname, f.name))
        bare = [x for x in rets if x.value is None]
        ok = _always_ends(f.body) and not bare
        r.ob(ok, lambda: Finding(
            "GEN-3", "%s::%s.%s{returns}" % (rel, gname, f.name), m.where(bare[0] if bare else f),
            "%s, the function that builds the operator's observable (inside %s), yields a value on some paths and %s on another: for the sources that "
            "take that path the operator evaluates to None and the pipeline cannot be built" % (f.name, gname, "returns nothing" if bare else "falls off its end")))
    # the functions around every construction site (MuxObservable(subscribe) / rx.create(subscribe)): they build the observable
    for site in ctx.sites:
        cm = getattr(site, "call_module", None) or site.module
        f = cm.enclosing_function(site.call)
        while f is not None:
            if isinstance(f, ast.FunctionDef) and id(f) not in done and not any(isinstance(x, (ast.Yield, ast.YieldFrom)) for x in ast.walk(f)):
                done.add(id(f))
                g = cm.enclosing_function(f)
                check(cm.relpath, cm, g.name if isinstance(g, ast.FunctionDef) else "<module>", f)
            f = cm.enclosing_function(f)
    for rel, m in sorted(prog.by_relpath.items()):
        if (ctx.scope is not None and rel not in ctx.scope) or not rel.startswith("rxsci/"):
            continue
        for g in ast.walk(m.tree):
            if not isinstance(g, ast.FunctionDef):
                continue
            returned = set()
            for x in _own_returns(g):
                for v in (x.value.elts if isinstance(x.value, ast.Tuple) else [x.value]):
                    if isinstance(v, ast.Name):
                        returned.add(v.id)
            # one level of aliasing:  operator = _a if cond else _b;  return operator
            for s in g.body:
                if isinstance(s, ast.Assign) and any(isinstance(tg, ast.Name) and tg.id in returned for tg in s.targets):
                    returned |= {x.id for x in ast.walk(s.value) if isinstance(x, ast.Name)}
            for f in g.body:
                if not (isinstance(f, ast.FunctionDef) and f.name in returned):
                    continue
                if id(f) in done:
                    continue
                done.add(id(f))
                if any(isinstance(x, (ast.Yield, ast.YieldFrom)) for x in ast.walk(f)):
                    continue
                check(rel, m, g.name, f)
    r.require_instances(ctx.scaled(40))
    return r


def rule_cfg1_timing(ctx: Ctx) -> RuleResult:
    """CFG-1 for a property that does not depend on what the user functions return (C11, promptness): a memoised user function is
    not a violation of it, only something the analysis cannot see through"""
    return rule_cfg1(ctx, memo_is_finding=False)


def rule_cfg1(ctx: Ctx, memo_is_finding=True) -> RuleResult:
    """CFG-1: the handlers are analysed per valuation of the factory parameters they test (reduce, incremental, header, ...).  That
    reading is only right when the value tested is the caller's: a parameter rebound in the factory from something else than itself
    (another parameter, a helper call) reaches the handlers with a value the valuations do not describe -- the run cannot decide."""
    r = RuleResult("CFG-1", "the factory parameters a handler tests or calls reach it as the caller gave them (not recomputed or wrapped in between)")
    for site in ctx.sites:
        m = site.module
        for which in ("on_next", "on_completed", "on_error"):
            for spec in site.handler_specs(which):
                try:
                    space = ctx.space(spec)
                except AnalysisError:
                    continue
                r.instances += 1
                # ... and the user functions the handlers call (key_mapper, predicate, accumulator ...): a wrapper put around one in the
                # factory is called in its place
                ucalled = set()
                kinds = [k for k in KINDS if k != "Other"] if (site.ctor != "create" and which == "on_next") else (None,)
                for kind in kinds:
                    for cfg in valuations(space):
                        for p in ctx.paths(spec, kind, cfg):
                            ucalled |= {e.d.get("name") for e in p.trace if e.k == "ucall" and e.d.get("name")}
                for name in list(space) + sorted(ucalled - set(space)):
                    f = m.enclosing_function(spec.fn)
                    while f is not None:
                        sc = m.scopes.get(f)
                        if sc is not None and name in sc.params:
                            for s in ast.walk(f):
                                if m.enclosing_function(s) is not f or not isinstance(s, (ast.Assign, ast.AugAssign, ast.AnnAssign)):
                                    continue
                                tgts = s.targets if isinstance(s, ast.Assign) else [s.target]
                                if not any(isinstance(x, ast.Name) and x.id == name for tg in tgts for x in ast.walk(tg)):
                                    continue
                                v = s.value
                                others = [x for x in ast.walk(v) if (isinstance(x, ast.Name) and x.id not in (name, "bool", "True", "False", "None"))
                                          or isinstance(x, ast.Attribute)] if v is not None else []
                                memo = [x for x in ast.walk(v) if isinstance(x, (ast.Name, ast.Attribute)) and
                                        (x.id if isinstance(x, ast.Name) else x.attr) in ("lru_cache", "cache")] if v is not None else []
                                helper = None
                                if v is not None and isinstance(v, ast.Call) and isinstance(v.func, ast.Name):
                                    from ..model import _lookup_def
                                    helper = _lookup_def(m, f, v.func.id)
                                    if helper is not None:
                                        memo += [x for x in ast.walk(helper) if isinstance(x, (ast.Name, ast.Attribute)) and
                                                 (x.id if isinstance(x, ast.Name) else x.attr) in ("lru_cache", "cache")]
                                if memo and name in ucalled and memo_is_finding:
                                    r.ob(False, lambda s=s, name=name, sc=sc: Finding(
                                        "CFG-1", "%s::%s{%s memoised}" % (m.relpath, sc.qualname, name), m.where(s),
                                        "the user function '%s' is called through functools.lru_cache (%s): the cache answers by hash and ==, so an item that is "
                                        "equal to an earlier one but distinguishable from it (1 / 1.0 / True, a namedtuple differing in such a field) gets the "
                                        "earlier item's result, and a function that is not pure is not re-evaluated" % (name, ast.unparse(s)[:60])))
                                    continue
                                if not others and not isinstance(s, ast.AugAssign):
                                    # a constant assigned under a condition on something else than the parameter itself: the handlers see the
                                    # caller's value for some arguments and the constant for others, by a rule the valuations do not describe
                                    g = _guard_names(m, f, s)
                                    others = [x for x in g if x != name]
                                if others or isinstance(s, ast.AugAssign):
                                    raise AnalysisError(
                                        "%s: the parameter '%s', which the handlers of %s test, is recomputed in %s (%s): the handlers no longer see the value "
                                        "the caller gave, and the analysis cannot tell which configurations they now run under" % (
                                            m.where(s), name, site.short, sc.qualname, ast.unparse(s)[:70]))
                            break
                        f = m.enclosing_function(f)
                r.ob(True)
    r.require_instances(ctx.scaled(30))
    return r


def _guard_names(m, f, stmt):
    """names and attributes read by the tests of the if / while statements of f that enclose stmt"""
    out = []

    def walk(body, guards):
        for s in body:
            if s is stmt:
                for g in guards:
                    for x in ast.walk(g):
                        if isinstance(x, ast.Name) and x.id not in ("None", "True", "False", "isinstance", "type", "len", "callable"):
                            out.append(x.id)
                        elif isinstance(x, ast.Attribute):
                            out.append("." + x.attr)
                return True
            for fld in ("body", "orelse", "finalbody", "handlers"):
                b = getattr(s, fld, None)
                if isinstance(b, list) and b and not isinstance(s, (ast.FunctionDef, ast.Lambda, ast.ClassDef)):
                    g2 = guards + [s.test] if isinstance(s, (ast.If, ast.While)) else guards
                    bb = [h for h in b] if fld != "handlers" else [x for h in b for x in h.body]
                    if walk(bb, g2):
                        return True
        return False
    walk(f.body, [])
    return out


ONE_SHOT_CALLS = ("map", "filter", "zip", "iter", "reversed", "enumerate")


def rule_gen1(ctx: Ctx) -> RuleResult:
    r = RuleResult("GEN-1", "a one-shot iterator built by an operator factory is not consumed inside a function the factory returns (it would be empty "
                            "the second time the operator is applied or subscribed)")
    prog = ctx.program
    n_scopes = 0
    # scopes entered once per subscription: the subscribe functions of the construction sites and everything inside them
    per_sub = set()
    for site in ctx.all_sites:
        if site.subscribe_fn is not None:
            for g in ast.walk(site.subscribe_fn):
                if isinstance(g, (ast.FunctionDef, ast.Lambda)):
                    per_sub.add(id(g))
    for rel, m in sorted(prog.by_relpath.items()):
        if ctx.scope is not None and rel not in ctx.scope:
            continue
        for fn, sc in m.scopes.items():
            if not isinstance(fn, ast.FunctionDef) or id(fn) in per_sub:
                continue
            inner = [g for g in ast.walk(fn) if isinstance(g, (ast.FunctionDef, ast.Lambda)) and g is not fn]
            n_scopes += 1
            for s in (ast.walk(fn) if inner else ()):
                if not isinstance(s, ast.Assign) or m.enclosing_function(s) is not fn or len(s.targets) != 1 or not isinstance(s.targets[0], ast.Name):
                    continue
                v = s.value
                one_shot = _one_shot(prog, m, sc, v)
                if not one_shot:
                    continue
                name = s.targets[0].id
                uses = [x for g in inner for x in ast.walk(g) if isinstance(x, ast.Name) and x.id == name and isinstance(x.ctx, ast.Load)
                        and name not in (m.scopes[g].params if g in m.scopes else ()) and name not in (m.scopes[g].locals if g in m.scopes else ())]
                r.groups.add((rel, sc.qualname, name))
                r.ob(not uses, lambda s=s, name=name, uses=uses, sc=sc: Finding(
                    "GEN-1", "%s::%s{%s}" % (rel, sc.qualname, name), m.where(s),
                    "'%s' is a one-shot iterator (%s) created when %s is called and consumed at %s inside a function that %s returns: the first "
                    "application / subscription exhausts it, every later one sees an empty sequence" % (
                        name, ast.unparse(s.value)[:60], sc.qualname, m.where(uses[0]), sc.qualname)))
            # ... or handed to another operator factory of the repository, which consumes it inside a function it returns:
            # start_with(repeat(value, size)) -- start_with iterates its padding at the first item of every key
            for c in ast.walk(fn):
                if not isinstance(c, ast.Call) or m.enclosing_function(c) is not fn:
                    continue
                dn = dotted_name(c.func)
                ref = prog.resolve_dotted(m, dn) if dn else None
                if not ref or ref[0] != "def" or not ref[1].name.startswith("rxsci"):
                    continue
                cm, callee = ref[1], ref[2]
                pos = [a.arg for a in callee.args.args]
                given = [(pos[k], a) for k, a in enumerate(c.args) if k < len(pos) and not isinstance(a, ast.Starred)]
                given += [(kw.arg, kw.value) for kw in c.keywords if kw.arg]
                for pname, a in given:
                    src = a
                    if isinstance(a, ast.Name):
                        asg = [s_ for s_ in ast.walk(fn) if isinstance(s_, ast.Assign) and m.enclosing_function(s_) is fn and len(s_.targets) == 1
                               and isinstance(s_.targets[0], ast.Name) and s_.targets[0].id == a.id]
                        src = asg[0].value if len(asg) == 1 else None
                    if src is None or not _one_shot(prog, m, sc, src):
                        continue
                    cinner = [g for g in ast.walk(callee) if isinstance(g, (ast.FunctionDef, ast.Lambda)) and g is not callee]
                    cuses = [x for g in cinner for x in ast.walk(g) if isinstance(x, ast.Name) and x.id == pname and isinstance(x.ctx, ast.Load)
                             and pname not in (cm.scopes[g].params if g in cm.scopes else ()) and pname not in (cm.scopes[g].locals if g in cm.scopes else ())]
                    r.groups.add((rel, sc.qualname, "arg:" + pname))
                    r.ob(not cuses, lambda c=c, src=src, pname=pname, cuses=cuses, callee=callee, cm=cm, sc=sc: Finding(
                        "GEN-1", "%s::%s{%s(%s=)}" % (rel, sc.qualname, callee.name, pname), m.where(c),
                        "%s is a one-shot iterator handed to %s as '%s', which consumes it at %s inside a function it returns (once per subscription "
                        "or per key): the first consumer exhausts it, every later one sees an empty sequence" % (
                            ast.unparse(src)[:50], callee.name, pname, cm.where(cuses[0]))))
    r.instances = max(n_scopes, 1)
    r.ob(True)
    return r


ITERTOOLS_ONE_SHOT = ("repeat", "chain", "islice", "cycle", "count", "accumulate", "starmap", "takewhile", "dropwhile", "zip_longest", "product",
                      "permutations", "combinations", "combinations_with_replacement", "groupby", "compress", "filterfalse", "pairwise", "batched")


def _one_shot(prog, m, sc, v):
    """v evaluates to an iterator that can be walked once: a generator expression, map / filter / zip / iter / reversed / enumerate, or
    anything from itertools"""
    if isinstance(v, ast.GeneratorExp):
        return True
    if not isinstance(v, ast.Call):
        return False
    if isinstance(v.func, ast.Name) and v.func.id in ONE_SHOT_CALLS and v.func.id not in sc.locals and v.func.id not in m.bindings:
        return True
    dn = dotted_name(v.func)
    ref = prog.resolve_dotted(m, dn) if dn else None
    if ref and ref[0] in ("ext", "unknown") and isinstance(ref[1], str) and ref[1].startswith("itertools.") and ref[1].split(".")[-1] in ITERTOOLS_ONE_SHOT:
        return True
    return False


MUTATORS = ("append", "extend", "insert", "pop", "remove", "clear", "sort", "reverse", "update", "setdefault", "popitem", "add", "discard",
            "appendleft", "popleft", "extendleft", "rotate")


def rule_arg1(ctx: Ctx) -> RuleResult:
    """ARG-1: an operator factory does not change the objects it was given.  The caller's list of stages, of sources, of columns is
    the caller's: a factory that inserts into it, sorts it or pops from it -- directly or through a local alias (x = p, x = p if ...
    else ..., x = p or ...) -- changes what the caller's next use of that object means (the same list handed to a second operator)."""
    r = RuleResult("ARG-1", "operator factories do not mutate their arguments in place (no mutating method, subscript store, del or augmented "
                            "assignment on a parameter or a local alias of it)")
    prog = ctx.program
    public = _public_functions(prog)
    for rel, m in sorted(prog.by_relpath.items()):
        if (ctx.scope is not None and rel not in ctx.scope) or not rel.startswith("rxsci/"):
            continue
        for fn in m.tree.body:
            if not isinstance(fn, ast.FunctionDef):
                continue
            if not any(isinstance(g, (ast.FunctionDef, ast.Lambda)) and g is not fn for g in ast.walk(fn)) and (rel, fn.name) not in public:
                continue                  # neither a factory (nothing it returns outlives the call) nor an exported entry point: an internal
                                          # helper may exist to update the object it is given (new_index(next_index, free_slots))
            params = {a.arg for a in fn.args.args + fn.args.kwonlyargs + fn.args.posonlyargs}
            if fn.args.vararg:
                params.add(fn.args.vararg.arg)
            r.instances += 1
            if not params:
                r.ob(True)
                continue
            alias = set(params)

            def from_alias(v):
                if isinstance(v, ast.Name):
                    return v.id in alias
                if isinstance(v, ast.IfExp):
                    return from_alias(v.body) or from_alias(v.orelse)
                if isinstance(v, ast.BoolOp):
                    return any(from_alias(x) for x in v.values)
                return False
            # a name that is, somewhere in the factory, bound to something that is not the caller's object (pipeline = list(pipeline))
            # may mean the factory's own copy from there on: mutations through it are not judged
            for s in ast.walk(fn):
                if isinstance(s, ast.Assign) and not from_alias(s.value):
                    for tg in s.targets:
                        for x in ast.walk(tg):
                            if isinstance(x, ast.Name) and isinstance(x.ctx, ast.Store) and x.id in alias:
                                alias.discard(x.id)
            own = set(params) - alias
            changed = True
            while changed:
                changed = False
                for s in ast.walk(fn):
                    if isinstance(s, ast.Assign) and m.enclosing_function(s) is fn and from_alias(s.value):
                        for tg in s.targets:
                            if isinstance(tg, ast.Name) and tg.id not in alias and tg.id not in own and not any(
                                    isinstance(s2, ast.Assign) and s2 is not s and not from_alias(s2.value) and any(
                                        isinstance(x, ast.Name) and x.id == tg.id for t2 in s2.targets for x in ast.walk(t2)) for s2 in ast.walk(fn)):
                                alias.add(tg.id)
                                changed = True

            def visible(node, name):
                # the name still means the factory's variable at this node (not shadowed by a parameter / local of a nested function)
                f = m.enclosing_function(node)
                while f is not None and f is not fn:
                    scx = m.scopes.get(f)
                    if scx is not None and (name in scx.params or (name in scx.locals and name not in getattr(scx, "nonlocals", ()))):
                        return False
                    f = m.enclosing_function(f)
                return f is fn
            # ... nor replace a sequence it was given by a collapsed or reordered one: the caller's list of branches / stages / sources
            # means its elements at their positions, duplicates included (tee_map(op, op) has two branches)
            for s in ast.walk(fn):
                if not (isinstance(s, ast.Assign) and m.enclosing_function(s) is fn and len(s.targets) == 1 and isinstance(s.targets[0], ast.Name)):
                    continue
                col = None
                for c in ast.walk(s.value):
                    if isinstance(c, ast.Call):
                        dn = dotted_name(c.func) or ""
                        if dn in ("set", "frozenset", "sorted", "reversed", "dict.fromkeys") and c.args and isinstance(c.args[0], ast.Name) \
                                and c.args[0].id in (set(params) | alias):
                            col = (c, dn)
                if col is not None and col[1] == "reversed" and sum(
                        1 for c in ast.walk(fn) if isinstance(c, ast.Call) and ((dotted_name(c.func) == "reversed") or (
                            isinstance(c.func, ast.Attribute) and c.func.attr == "reverse"))) > 1:
                    raise AnalysisError("%s: %s reverses a sequence argument more than once; ARG-1 does not count reversals" % (m.where(s), fn.name))
                if col is not None and (s.targets[0].id in params or s.targets[0].id in alias):
                    r.ob(False, lambda s=s, col=col, fn=fn: Finding(
                        "ARG-1", "%s::%s{%s collapsed}" % (rel, fn.name, col[0].args[0].id), m.where(s),
                        "'%s' replaces the sequence the caller gave as '%s' by %s(...) of it: duplicates and / or positions are lost, and the number and "
                        "order of its elements are part of what the caller asked for (the same operator listed twice is two branches)" % (
                            ast.unparse(s)[:70], col[0].args[0].id, col[1])))
            for n in ast.walk(fn):
                hit = None
                if isinstance(n, ast.Call) and isinstance(n.func, ast.Attribute) and n.func.attr in MUTATORS and isinstance(n.func.value, ast.Name) \
                        and n.func.value.id in alias and visible(n, n.func.value.id):
                    hit = (n.func.value.id, ".%s(...)" % n.func.attr)
                elif isinstance(n, (ast.Assign, ast.AugAssign, ast.Delete)):
                    tgs = n.targets if isinstance(n, (ast.Assign, ast.Delete)) else [n.target]
                    for tg in tgs:
                        if isinstance(tg, ast.Subscript) and isinstance(tg.value, ast.Name) and tg.value.id in alias and visible(n, tg.value.id):
                            hit = (tg.value.id, "[...] = / del")
                        elif isinstance(n, ast.AugAssign) and isinstance(tg, ast.Name) and tg.id in alias and visible(n, tg.id) \
                                and isinstance(n.op, (ast.Add, ast.BitOr, ast.BitAnd, ast.Mult)) and not isinstance(n.value, ast.Constant):
                            hit = (tg.id, "augmented assignment (in place for a list / set / dict)")
                if hit is None:
                    continue
                r.ob(False, lambda n=n, hit=hit, fn=fn: Finding(
                    "ARG-1", "%s::%s{%s}" % (rel, fn.name, hit[0]), m.where(n),
                    "'%s' in %s changes, in place, an object the caller handed in ('%s' is a parameter of %s or a local alias of one: %s): the "
                    "caller's object is different after the call, so the same list given to a second operator, or the operator built twice, "
                    "does not mean what it says" % (ast.unparse(n)[:60], fn.name, hit[0], fn.name, hit[1])))
            r.ob(True)
    r.require_instances(1)
    return r


DROPPING_OPS = ("distinct", "distinct_until_changed", "filter", "filter_indexed", "take", "take_last", "take_last_buffer", "take_while",
                "take_while_indexed", "take_until", "take_until_with_time", "take_with_time", "take_last_with_time", "skip", "skip_last",
                "skip_while", "skip_while_indexed", "skip_until", "skip_until_with_time", "skip_with_time", "skip_last_with_time", "first",
                "first_or_default", "last", "last_or_default", "element_at", "element_at_or_default", "single", "single_or_default",
                "debounce", "throttle_first", "throttle_with_timeout", "throttle_with_mapper", "sample", "ignore_elements", "find",
                "find_index", "slice")


def rule_src1(ctx: Ctx) -> RuleResult:
    """SRC-1: an operator handles every item of the source it was applied to.  A subscribe function that subscribes, instead of the
    source, a pipeline built from it with an RxPY operator that drops items (distinct_until_changed, filter, take, skip, sample,
    debounce ...) never sees the dropped items: whatever the handlers do right, those items are missing from the output."""
    r = RuleResult("SRC-1", "an operator subscribes the source it was applied to, not a pipeline over it that drops items (distinct_until_changed, "
                            "filter, take / skip, sample, debounce, ...)")
    prog = ctx.program
    from .ag import _single_assignments
    for site in ctx.all_sites:
        rel = site.anchor_rel
        if ctx.scope is not None and rel not in ctx.scope:
            continue
        m = site.module
        for s_ in site.subscriptions:
            r.instances += 1
            recv = s_.call.func.value if isinstance(s_.call.func, ast.Attribute) else None
            seen = set()
            while isinstance(recv, ast.Name) and recv.id not in seen:
                seen.add(recv.id)
                env = _single_assignments(m, s_.call)
                if recv.id not in env:
                    break
                recv = env[recv.id]
            drops = []
            if recv is not None:
                for c in ast.walk(recv):
                    if isinstance(c, ast.Call):
                        dn = dotted_name(c.func)
                        ref = prog.resolve_dotted(m, dn) if dn else None
                        if ref and ref[0] in ("ext", "unknown") and isinstance(ref[1], str) and ref[1].startswith("rx.operators.") \
                                and ref[1].split(".")[-1] in DROPPING_OPS:
                            drops.append((c, ref[1]))
            r.ob(not drops, lambda drops=drops, site=site, s_=s_: Finding(
                "SRC-1", "%s{%s}" % (site.name, drops[0][1].split(".")[-1]), m.where(drops[0][0]),
                "%s subscribes %s, a pipeline over its source that goes through %s (%s): the items that operator drops never reach the handlers, so "
                "they are missing from what this operator writes or emits whatever its arguments" % (
                    site.short, ast.unparse(s_.call.func.value)[:40], drops[0][1], ast.unparse(drops[0][0])[:60])))
    r.require_instances(1)
    return r


def rule_dq1(ctx: Ctx) -> RuleResult:
    """DQ-1: no bounded deque holds data.  `deque(maxlen=n)` (or `deque(it, n)`) drops the oldest element silently when the n+1-th is
    appended: a statistic over 'all items so far', a queue of pending values or a carry-over kept in one is the statistic / queue /
    carry-over of the last n only, from the n+1-th element on and without any error."""
    r = RuleResult("DQ-1", "no collections.deque with a maxlen holds items or state (it drops the oldest element silently once full)")
    prog = ctx.program
    for rel, m in sorted(prog.by_relpath.items()):
        if (ctx.scope is not None and rel not in ctx.scope) or not rel.startswith("rxsci/"):
            continue
        r.instances += 1
        for n in ast.walk(m.tree):
            if not isinstance(n, ast.Call):
                continue
            dn = dotted_name(n.func)
            ref = prog.resolve_dotted(m, dn) if dn else None
            if not (ref and ref[0] in ("ext", "unknown") and isinstance(ref[1], str) and ref[1] == "collections.deque"):
                continue
            bounded = len(n.args) >= 2 or any(k.arg == "maxlen" and not (isinstance(k.value, ast.Constant) and k.value.value is None) for k in n.keywords)
            fn = m.enclosing_function(n)
            qn = m.scopes[fn].qualname if fn in m.scopes else "<module>"
            r.ob(not bounded, lambda n=n, qn=qn: Finding(
                "DQ-1", "%s::%s{deque-maxlen}" % (rel, qn), m.where(n),
                "'%s' is a bounded deque: once it is full every append drops the oldest element without an error, so from that element on what is "
                "computed from it (all the items of a key, the pending values of a queue) is computed from the most recent ones only" % ast.unparse(n)[:60]))
        r.ob(True)
    r.require_instances(1)
    return r


def rule_eq3(ctx: Ctx) -> RuleResult:
    """EQ-3: a parameter is never compared with True / False by value.  `count in (None, False)`, `count == False`: 0 and 0.0 are equal
    to False (1 and 1.0 to True), so a legitimate zero -- take(0), a timeout of 0, a size of 0 -- is taken for 'switched off'."""
    r = RuleResult("EQ-3", "a parameter is not compared with True / False by == or `in`: 0 == False and 1 == True, so a legitimate 0 / 1 would be taken for the flag")
    prog = ctx.program
    for rel, m in sorted(prog.by_relpath.items()):
        if (ctx.scope is not None and rel not in ctx.scope) or not rel.startswith("rxsci/"):
            continue
        r.instances += 1
        for n in ast.walk(m.tree):
            if not isinstance(n, ast.Compare) or len(n.ops) != 1 or not isinstance(n.left, ast.Name):
                continue
            # the name is a parameter of an enclosing function (what the caller configured), not a lambda's item
            owner = None
            for f in _enclosing_chain(m, n):
                scx = m.scopes.get(f)
                if scx is not None and n.left.id in scx.params:
                    owner = f
                    break
                if scx is not None and n.left.id in scx.locals:
                    break
            if owner is None or isinstance(owner, ast.Lambda):
                continue
            op, right = n.ops[0], n.comparators[0]
            hit = None
            if isinstance(op, (ast.In, ast.NotIn)) and isinstance(right, (ast.Tuple, ast.List, ast.Set)):
                bools = [e for e in right.elts if isinstance(e, ast.Constant) and isinstance(e.value, bool)]
                nums = [e for e in right.elts if isinstance(e, ast.Constant) and isinstance(e.value, (int, float)) and not isinstance(e.value, bool)]
                if bools and not nums:
                    hit = bools[0].value
            elif isinstance(op, (ast.Eq, ast.NotEq)) and isinstance(right, ast.Constant) and isinstance(right.value, bool):
                hit = right.value
            if hit is None:
                r.ob(True)
                continue
            r.ob(False, lambda n=n, hit=hit, owner=owner: Finding(
                "EQ-3", "%s::%s{%s}" % (rel, m.scopes[owner].qualname if owner in m.scopes else owner.name, n.left.id), m.where(n),
                "'%s' compares the parameter %s with %s by value: %s is equal to %s, so a caller's legitimate %s takes the branch meant for the flag; "
                "a flag is told apart with `is`" % (ast.unparse(n), n.left.id, hit, "0 (and 0.0)" if hit is False else "1 (and 1.0)", hit, 0 if hit is False else 1)))
        r.ob(True)
    r.require_instances(1)
    return r


def _public_functions(prog):
    """{(module path, function name)} of the functions a user reaches through the packages: names a package __init__ imports from a
    module, and the functions without a leading underscore of a module a package imports whole (rs.container.csv.load, rs.framing.line.unframe)"""
    out = set()
    import posixpath
    for rel, m in prog.by_relpath.items():
        if not rel.endswith("__init__.py"):
            continue
        pkg = posixpath.dirname(rel)
        for s in m.tree.body:
            if isinstance(s, ast.ImportFrom) and s.level == 1:
                if s.module:
                    target = posixpath.join(pkg, *s.module.split(".")) + ".py"
                    tinit = posixpath.join(pkg, *s.module.split("."), "__init__.py")
                    for a in s.names:
                        out.add((target, a.name))
                        out.add((tinit, a.name))
                else:
                    for a in s.names:
                        whole = posixpath.join(pkg, a.name + ".py")
                        wm = prog.by_relpath.get(whole)
                        if wm is not None:
                            out |= {(whole, f.name) for f in wm.tree.body if isinstance(f, ast.FunctionDef) and not f.name.startswith("_")}
            elif isinstance(s, ast.Import):
                for a in s.names:
                    if a.name.startswith("rxsci."):
                        whole = a.name.replace(".", "/") + ".py"
                        wm = prog.by_relpath.get(whole)
                        if wm is not None:
                            out |= {(whole, f.name) for f in wm.tree.body if isinstance(f, ast.FunctionDef) and not f.name.startswith("_")}
    return out


def rule_cache1(ctx: Ctx) -> RuleResult:
    """CACHE-1: no function applied to stream data is memoised by functools.lru_cache / functools.cache: the cache answers by hash and ==,
    so 1, 1.0 and True (0, 0.0, -0.0, False) get each other's results -- the text of whichever was formatted first, the parse of
    whichever was seen first."""
    r = RuleResult("CACHE-1", "no function applied per item is memoised by == / hash (functools.lru_cache, functools.cache): equal but distinguishable "
                              "values (1 / 1.0 / True, 0.0 / -0.0) would share one result")
    prog = ctx.program
    per_item = set()
    for site in ctx.all_sites:
        if site.subscribe_fn is not None:
            for g in ast.walk(site.subscribe_fn):
                if isinstance(g, (ast.FunctionDef, ast.Lambda)):
                    per_item.add(id(g))

    def is_cache(dec, m):
        d = dec.func if isinstance(dec, ast.Call) else dec
        dn = dotted_name(d)
        ref = prog.resolve_dotted(m, dn) if dn else None
        return bool(ref) and ref[0] in ("ext", "unknown") and isinstance(ref[1], str) and ref[1] in ("functools.lru_cache", "functools.cache")
    for rel, m in sorted(prog.by_relpath.items()):
        if (ctx.scope is not None and rel not in ctx.scope) or not rel.startswith("rxsci/"):
            continue
        r.instances += 1
        cached = {}
        for fn in ast.walk(m.tree):
            if isinstance(fn, ast.FunctionDef) and fn.args.args and any(is_cache(d, m) for d in fn.decorator_list):
                cached[fn.name] = fn
        for s in ast.walk(m.tree):
            # f = lru_cache(...)(g)
            if isinstance(s, ast.Assign) and len(s.targets) == 1 and isinstance(s.targets[0], ast.Name) and isinstance(s.value, ast.Call) \
                    and (is_cache(s.value.func, m) or (isinstance(s.value.func, ast.Call) and is_cache(s.value.func, m))):
                cached[s.targets[0].id] = s
        for name, d in sorted(cached.items()):
            # a memoised FACTORY: what it builds per call (the Subject of a grouping head, the closures and their variables) is then built
            # once per distinct argument list and shared by every operator value made with equal arguments
            if isinstance(d, ast.FunctionDef) and any(isinstance(g, (ast.FunctionDef, ast.Lambda)) and g is not d for g in ast.walk(d)):
                r.ob(False, lambda name=name, d=d: Finding(
                    "CACHE-1", "%s::%s{memoised factory}" % (rel, name), m.where(d),
                    "%s builds an operator (inner functions, per-operator objects such as the Subject that carries a grouping head's lifecycle events) "
                    "and is memoised by functools: two operators made with equal arguments are one object, so two of them alive in one pipeline "
                    "(nested or chained with the same parameters) share that state and receive each other's events" % name))
                continue

            def from_config(c):
                # every name in the arguments belongs to a scope outside the per-subscription functions (a factory parameter, a
                # module constant): the key of the cache is configuration, of which there are a few values, not data
                for a in list(c.args) + [k.value for k in c.keywords]:
                    for x in ast.walk(a):
                        if not isinstance(x, ast.Name):
                            continue
                        owner = None
                        for f in _enclosing_chain(m, c):
                            scx = m.scopes.get(f)
                            if scx is not None and (x.id in scx.params or x.id in scx.locals):
                                owner = f
                                break
                        if owner is not None and id(owner) in per_item:
                            return False
                return True
            uses = [c for c in ast.walk(m.tree) if isinstance(c, ast.Call) and isinstance(c.func, ast.Name) and c.func.id == name and (c.args or c.keywords)
                    and any(id(f) in per_item for f in _enclosing_chain(m, c)) and not from_config(c)]
            r.groups.add((rel, name))
            r.ob(not uses, lambda name=name, d=d, uses=uses: Finding(
                "CACHE-1", "%s::%s{memoised}" % (rel, name), m.where(d),
                "%s is memoised by functools (lru_cache / cache) and applied per item at %s: the cache looks its argument up by hash and ==, so "
                "values that are equal but not the same (1, 1.0, True; 0.0, -0.0, False) get the result computed for whichever came first -- "
                "'1.0' written for True, '0.0' for -0.0" % (name, m.where(uses[0]))))
        r.ob(True)
    r.require_instances(1)
    return r


def _enclosing_chain(m, node):
    f = m.enclosing_function(node)
    while f is not None:
        yield f
        f = m.enclosing_function(f)


RULES = [rule_sub1, rule_sub2, rule_sub3, rule_gen1, rule_gen3, rule_cfg1]
