"""Role resolution for tee_map (shared by TM-*, MX-7, AG-3 tee): which closure variable holds the branches, which
terms denote the number of branches, which loops / comprehensions run over all branches.  Nothing here depends on
the names the source uses."""
from __future__ import annotations

import ast

from ..loader import AnalysisError
from ..terms import show, subterms

REL = "rxsci/operators/tee_map.py"


def _no_epoch(t):
    if not isinstance(t, tuple) or not t:
        return t
    if t[0] == "call" and t[1] == ("builtin", "len") and len(t) == 4:
        return ("call", t[1], tuple(_no_epoch(x) for x in t[2]))
    return tuple(_no_epoch(x) if isinstance(x, tuple) else x for x in t)


class TeeModel:
    def __init__(self, ctx, site):
        self.ctx = ctx
        self.site = site
        self.m = site.module
        self.branches = None          # term of the collection of branch observables
        cols = set()
        for p in ctx.fn_paths(self.m, site.subscribe_fn, roles=site.roles, max_iter=1):
            loops = {e.loop: e for e in p.trace if e.k == "loopiter"}
            for e in p.trace:
                if e.k == "call" and e.d.get("method") in ("subscribe", "subscribe_"):
                    c = self.element_of(e.base, loops, e.d.get("comp_iters"))
                    if c is not None:
                        cols.add(c)
        self.problem = None
        if len(cols) != 1:
            self.problem = "the subscriptions are not made on the elements of one collection of branches (%s)" % sorted(show(c) for c in cols)
        else:
            self.branches = next(iter(cols))

    # ---- collections ---------------------------------------------------
    def _strip_iter(self, it):
        """(collection, form) for an iterable over a collection: C | enumerate(C) | range(len(C)) | range(count)"""
        if it is None:
            return None, None
        if it[0] == "call" and it[1] == ("builtin", "enumerate") and it[2]:
            return it[2][0], "enumerate"
        if it[0] == "call" and it[1] == ("builtin", "range") and len(it[2]) == 1:
            return it[2][0], "range"
        return it, "direct"

    def element_of(self, t, loops, comp_iters=None):
        """the collection t is an element of, on this path (loop variable, enumerate pair, indexed by a loop variable)"""
        # for s in C / for i, s in enumerate(C)
        if t[0] == "loopvar":
            lp = loops.get(t[1])
            c, form = self._strip_iter(lp.iter) if lp is not None else (None, None)
            return c if form == "direct" else None
        if t[0] == "sub" and t[1][0] == "loopvar" and t[2] == ("const", 1):
            lp = loops.get(t[1][1])
            c, form = self._strip_iter(lp.iter) if lp is not None else (None, None)
            return c if form == "enumerate" else None
        # C[i] with i over range(len(C)) / range(n)
        if t[0] == "sub" and t[2][0] == "loopvar":
            lp = loops.get(t[2][1])
            c, form = self._strip_iter(lp.iter) if lp is not None else (None, None)
            if form == "range" and (self._is_len_of(c, t[1]) or self._count_of_name(c, t[1])):
                return t[1]
            return None
        # inside a comprehension: [s.subscribe(...) for i, s in enumerate(C)]
        if t[0] == "compvar" and comp_iters:
            for target, it in comp_iters:
                names = [x.strip() for x in target.strip("()").split(",")]
                if t[2] in names:
                    c, form = self._strip_iter(it)
                    if form == "direct" and len(names) == 1:
                        return c
                    if form == "enumerate" and len(names) == 2 and names[1] == t[2]:
                        return c
        if t[0] == "sub" and t[2][0] == "compvar" and comp_iters:
            for target, it in comp_iters:
                if target.strip() == t[2][2]:
                    c, form = self._strip_iter(it)
                    if form == "range" and (self._is_len_of(c, t[1]) or self._count_of_name(c, t[1])):
                        return t[1]
        return None

    def _is_len_of(self, t, col):
        t = _no_epoch(t)
        return t[0] == "call" and t[1] == ("builtin", "len") and len(t[2]) == 1 and t[2][0] == col

    def _count_of_name(self, t, col):
        """t is a closure variable assigned once  len(<the variable col>)"""
        if t[0] != "free" or col[0] not in ("free", "param"):
            return False
        fn = self.site.subscribe_fn
        while fn is not None:
            sc = self.m.scopes[fn]
            if sc.qualname == t[2]:
                vals = []
                for n in ast.walk(fn):
                    if isinstance(n, ast.Assign) and self.m.enclosing_function(n) is fn and any(isinstance(x, ast.Name) and x.id == t[1] for x in n.targets):
                        vals.append(n.value)
                    elif isinstance(n, (ast.AugAssign,)) and isinstance(n.target, ast.Name) and n.target.id == t[1]:
                        vals.append(None)
                    elif isinstance(n, ast.Nonlocal) and t[1] in n.names:
                        vals.append(None)
                if len(vals) != 1 or vals[0] is None:
                    return False
                v = vals[0]
                return isinstance(v, ast.Call) and isinstance(v.func, ast.Name) and v.func.id == "len" and len(v.args) == 1 \
                    and isinstance(v.args[0], ast.Name) and v.args[0].id == col[1]
            fn = self.m.enclosing_function(fn)
        return False

    # ---- public --------------------------------------------------------
    def is_count(self, t):
        """t denotes the number of branches"""
        if self.branches is None:
            raise AnalysisError("%s: %s" % (self.site.name, self.problem))
        return self._is_len_of(t, self.branches) or self._count_of_name(t, self.branches)

    def over_all_branches(self, it):
        """the iterable runs once per branch"""
        c, form = self._strip_iter(it)
        if form in ("direct", "enumerate"):
            return c == self.branches
        if form == "range":
            return self.is_count(c)
        return False

    def count_atoms(self, t):
        return [x for x in subterms(t) if self.is_count(x)] + ([t] if self.is_count(t) else [])


def tee_model(ctx, site):
    key = ("tee_model", id(site))
    if key not in ctx._cache:
        ctx._cache[key] = TeeModel(ctx, site)
    return ctx._cache[key]
