"""C03 -- protocol preservation rules MX-1..MX-8 and WC-2.

Every multiplexed operator is shown to map a well-formed input stream to
well-formed output streams: the obligations below are evaluated on every
control path of every handler, per event kind and configuration valuation.
"""
from __future__ import annotations

import ast

from ..classify import KEYIDX, SAME
from ..engine import Ctx, Finding, RuleResult, cfg_str, trace_of
from ..loader import AnalysisError, dotted_name
from ..model import valuations
from ..terms import EV, EVKEY, EVSTORE, KINDS, show, subterms
from .common import (construct_id, decisions_on, emissions, is_grouping,
                     mk_finding, mux_emissions, summary, terminals)

ERROR_HANDLER_DIR = "rxsci/error/"


def site_class(ctx: Ctx, site) -> str:
    """flat | grouping | join | root | demux | sources | cast | probe-drop"""
    if all(s.passthrough for s in site.subscriptions) and site.subscriptions:
        return "cast"
    short = site.short
    rel = site.anchor_rel
    if rel == "rxsci/operators/multiplex.py" and short.startswith("mux_observable."):
        return "root"
    if rel == "rxsci/operators/multiplex.py" and short.startswith("demux_mux_observable."):
        return "demux"
    if rel == "rxsci/state/with_store.py" and short.startswith("with_store_mux_on_sources."):
        return "sources"
    if rel == "rxsci/state/with_store.py" and short.startswith("drop_probe_state_topology."):
        return "probe-drop"
    specs = site.handler_specs("on_next")
    if not specs:
        raise AnalysisError("%s: mux site %s has no on_next handler" % (site.where(), site.name))
    if any(v[0] != "obs" for sp in specs for v in sp.bound.values()):
        return "join"       # a handler shared by several subscriptions, told apart by a bound branch index
    if is_grouping(site):
        return "grouping"
    return "flat"


def classify_sites(ctx: Ctx):
    out = {}
    for s in ctx.mux_sites():
        out[s] = site_class(ctx, s)
    return out


# ----------------------------------------------------------------------
def _is_forward(m):
    """The handled event itself, or a copy in which only the store reference is replaced."""
    if m.event is None:
        return False
    if m.event.how == "same":
        return True
    t = m.event.term
    return m.event.how == "replace" and all(f == "store" for f, _ in t[2])


def _same(m, kind):
    return m.event is not None and m.event.kind == kind and m.event.keyclass == SAME


def rule_mx_flat(ctx: Ctx) -> RuleResult:
    """MX-1..MX-4 on flat, grouping, sources and probe-drop sites."""
    r = RuleResult("MX-1..4", "per-kind protocol preservation on every path of every mux handler")
    classes = classify_sites(ctx)
    for site, cls in classes.items():
        if cls in ("cast", "root", "demux", "join"):
            continue
        for spec in site.handler_specs("on_next"):
            r.instances += 1
            for kind, cfg, paths in ctx.all_paths(spec):
                for p in paths:
                    r.paths += 1
                    r.groups.add((spec.qualname, kind, cfg_str(cfg)))
                    _check_path(r, site, cls, spec, kind, cfg, p)
                if paths:
                    r.sample({"handler": spec.qualname, "kind": kind, "config": cfg, "class": cls,
                              "paths": [summary(p) for p in paths[:6]]}, limit=6)
    r.require_instances(24)
    return r


def _check_path(r, site, cls, spec, kind, cfg, p):
    ems = [m for m in emissions(p) if m.method == "on_next"]
    down_or_outer = [m for m in ems if m.role in ("down", "outer")]
    grouping = cls == "grouping"
    lifecycle_role = "outer" if grouping else "down"
    is_err_handler = site.anchor_rel.startswith(ERROR_HANDLER_DIR)

    def bad(msg, node=None, extra=None):
        return lambda: mk_finding("MX-%s" % {"Create": 1, "Completed": 2, "Next": 3}.get(kind, 4), spec, kind, cfg, p, msg,
                                  node=node, extra=extra)

    # no emission may have an unclassifiable key
    for m in down_or_outer:
        if m.event is None:
            r.ob(False, bad("a non-event value %s is emitted on a multiplexed stream" % show(m.eff.arg), m.eff.node, "nonevent"))
        elif m.event.kind not in ("Probe", "Other") and m.event.keyclass[0] == "UNKNOWN":
            r.ob(False, bad("emitted %s event with a key that is neither the event's key nor a child of it: %s" % (
                m.event.kind, show(m.event.key)), m.eff.node, "key"))
        else:
            r.ob(True)

    if kind == "Create":
        creates = [m for m in down_or_outer if _same(m, "Create")]
        r.ob(len(creates) == 1 and creates[0].role == lifecycle_role,
             bad("creation of a key must be forwarded exactly once to the %s stream; this path does: %s" % (lifecycle_role, summary(p)), extra="once"))
        others = [m for m in down_or_outer if m.event is not None and not _same(m, "Create")]
        r.ob(not others, bad("events other than the key's creation are emitted while handling its creation: %s" % summary(p), extra="others"))
    elif kind == "Completed":
        comps = [m for m in down_or_outer if _same(m, "Completed")]
        ok = len(comps) == 1 and comps[0].role == lifecycle_role
        r.ob(ok, bad("completion of a key must be forwarded exactly once to the %s stream; this path does: %s" % (lifecycle_role, summary(p)), extra="once"))
        if ok:
            last = down_or_outer[-1]
            r.ob(last is comps[0], bad("an event is emitted after the key's completion: %s" % summary(p), comps[0].eff.node, "last"))
            for m in down_or_outer[:-1]:
                e = m.event
                if e is None:
                    continue
                if grouping:
                    good = m.role == "down" and e.keyclass[0] == "CHILD" and e.kind in ("Completed", "Next", "Error")
                else:
                    good = e.keyclass == SAME and e.kind in ("Next", "Error")
                r.ob(good, bad("illegal event %s before the completion of the key" % m.brief(), m.eff.node, "before"))
    elif kind == "Next":
        for m in down_or_outer:
            e = m.event
            if e is None:
                continue
            if grouping:
                good = m.role == "down" and e.keyclass[0] == "CHILD" and e.kind in ("Create", "Next", "Completed", "Error")
            else:
                good = e.keyclass == SAME and e.kind in ("Next", "Error")
            r.ob(good, bad("while handling an item, %s is emitted (only items/errors of the same key%s are legal)" % (
                m.brief(), ", or child lifecycle events" if grouping else ""), m.eff.node, "kind"))
    elif kind == "Error":
        if is_err_handler:
            # consumed, mapped to exactly one item of the same key, or routed; checked in detail by ER-2
            good = all(m.event is not None and m.event.keyclass == SAME and m.event.kind in ("Next", "Error") for m in down_or_outer) \
                and len(down_or_outer) <= 1
            r.ob(good, bad("an error handler emits %s for one mux error" % summary(p), extra="handler"))
        elif grouping:
            fw = [m for m in down_or_outer if _same(m, "Error")]
            ok = len(fw) == 1 and fw[0].role == "outer" and down_or_outer[-1] is fw[0]
            r.ob(ok, bad("a mux error of the parent key must reach the outer stream exactly once, after the child events: %s" % summary(p), extra="once"))
            for m in down_or_outer[:-1]:
                e = m.event
                good = e is not None and m.role == "down" and e.keyclass[0] == "CHILD"
                r.ob(good, bad("illegal event %s while propagating a parent error" % m.brief(), m.eff.node, "before"))
        else:
            fw = [m for m in down_or_outer if _same(m, "Error")]
            r.ob(len(fw) == 1 and len(down_or_outer) == 1 and _is_forward(fw[0]),
                 bad("a mux error must be forwarded exactly once, unchanged: %s" % summary(p), extra="once"))
    elif kind == "Probe":
        fw = [m for m in down_or_outer if _is_forward(m)]
        if cls == "probe-drop":
            r.ob(not down_or_outer, bad("the topology probe must not leave with_store: %s" % summary(p), extra="probe"))
        else:
            want = {"down", "outer"} if grouping else {"down"}
            got = sorted(m.role for m in fw)
            r.ob(sorted(want) == got and len(down_or_outer) == len(fw),
                 bad("the topology probe must be forwarded exactly once to %s: %s" % ("/".join(sorted(want)), summary(p)), extra="probe"))
    else:  # Other
        fw = [m for m in down_or_outer if _is_forward(m)]
        r.ob(len(fw) == 1 and len(down_or_outer) == 1 and fw[0].role == "down",
             bad("an event of unknown type must be forwarded exactly once: %s" % summary(p), extra="other"))


# ----------------------------------------------------------------------
def rule_mx5(ctx: Ctx, heads_only=None) -> RuleResult:
    """MX-5: sandwich head / pipeline / demux; behaviour of the two demux handlers."""
    r = RuleResult("MX-5", "grouping sandwich: head, pipeline, demux(outer) with the head's own Subject")
    demux = ctx.site("rxsci/operators/multiplex.py", "demux_mux_observable._demux.on_subscribe")
    inner = outer = None
    for sub in demux.subscriptions:
        h = sub.handlers.get("on_next")
        if h is not None and h.how == "forward" and h.target == ("obs", "down") and h.method == "on_next" and sub.source_text != "source":
            outer = (sub, None)      # on_next=observer.on_next: every outer event is forwarded once, unchanged
            continue
        if h is None or h.how != "fn":
            continue
        if sub.source_text == "source":
            inner = (sub, h.spec)
        else:
            outer = (sub, h.spec)
    if inner is None or outer is None:
        raise AnalysisError("demux_mux_observable: expected one subscription to the inner source and one to the outer group")
    # the outer subscription must be to the parameter of demux_mux_observable
    m, fn = ctx.function("rxsci/operators/multiplex.py", "demux_mux_observable")
    outer_param = m.scopes[fn].params[0]
    r.instances += 1
    r.ob(outer[0].source_text == outer_param,
         lambda: Finding("MX-5", "demux_mux_observable{outer-subscription}", m.where(outer[0].call),
                         "the outer handler is subscribed to %s, not to the outer group parameter %s" % (outer[0].source_text, outer_param)))
    # outer subscription is made before the inner one (outer Create must be seen downstream first)
    r.ob(outer[0].call.lineno < inner[0].call.lineno,
         lambda: Finding("MX-5", "demux_mux_observable{subscription-order}", m.where(inner[0].call),
                         "the inner source is subscribed before the outer group: outer lifecycle events emitted at subscription would be lost"))
    spec = inner[1]
    for kind, cfg, paths in ctx.all_paths(spec):
        for p in paths:
            r.paths += 1
            r.groups.add((spec.qualname, kind))
            ems = emissions(p)
            if kind == "Next":
                ok = len(ems) == 1 and ems[0].event is not None and ems[0].event.kind == "Next" and \
                    ems[0].event.keyclass == ("PARENT",) and ems[0].event.payload == ("attr", EV, "item") and ems[0].role == "down"
                r.ob(ok, lambda: mk_finding("MX-5", spec, kind, cfg, p,
                                            "demux must re-key an inner item to its parent key and forward it once, unchanged; it does: %s" % summary(p)))
            elif kind == "Error":
                ok = len(ems) == 1 and ems[0].method == "on_error" and ems[0].eff.arg == ("attr", EV, "error") and ems[0].role == "down"
                r.ob(ok, lambda: mk_finding("MX-5", spec, kind, cfg, p,
                                            "an unhandled inner mux error must surface as on_error(error); demux does: %s" % summary(p)))
            else:
                r.ob(not ems, lambda: mk_finding("MX-5", spec, kind, cfg, p,
                                                 "inner lifecycle events must be dropped by demux (the outer stream carries them); it does: %s" % summary(p)))
    spec = outer[1]
    for kind, cfg, paths in (ctx.all_paths(spec) if spec is not None else ()):
        for p in paths:
            r.paths += 1
            r.groups.add((spec.qualname, kind))
            ems = emissions(p)
            ok = len(ems) == 1 and ems[0].method == "on_next" and ems[0].eff.arg == EV and ems[0].role == "down"
            r.ob(ok, lambda: mk_finding("MX-5", spec, kind, cfg, p,
                                        "every outer event must be forwarded exactly once, unchanged; on_next_outer does: %s" % summary(p)))
    # demux only LISTENS to the outer group: the Subject belongs to the operator value and carries the lifecycle events of every
    # subscription of the pipeline; a terminal call on it (on_completed / on_error / dispose) from demux ends it for all later ones
    for which in ("on_next", "on_completed", "on_error"):
        for spec in demux.handler_specs(which):
            kinds = [k for k in KINDS if k != "Other"] if which == "on_next" else (None,)
            for kind in kinds:
                for cfg in valuations(ctx.space(spec)):
                    for p in ctx.paths(spec, kind, cfg):
                        r.paths += 1
                        bad = [e for e in p.trace if e.k in ("emit", "call", "mutate") and e.d.get("method") in ("on_completed", "on_error", "dispose")
                               and any(x[0] in ("param", "free", "arg") and x[1] == outer_param for x in [e.d.get("target") or e.d.get("base") or ("none",)])]
                        r.ob(not bad, lambda p=p, bad=bad, spec=spec, kind=kind, cfg=cfg: mk_finding(
                            "MX-5", spec, kind, cfg, p,
                            "demux terminates the outer group (%s): the Subject is created once per operator value, so every later subscription of the "
                            "pipeline loses the creation and completion events of its parent keys" % bad[0].brief(), extra="outer-terminated"))
    # the four sandwiches
    heads = [("rxsci/operators/group_by.py", "group_by", "group_by_mux"),
             ("rxsci/data/roll.py", "roll", "roll_mux"),
             ("rxsci/data/split.py", "split", "split_mux"),
             ("rxsci/data/time_split.py", "time_split", "time_split_mux")]
    for rel, pub, head in heads:
        if heads_only is not None and pub not in heads_only:
            continue
        m, fn = ctx.function(rel, pub)
        hm, hfn = ctx.function(rel, head)
        r.instances += 1
        paths = ctx.fn_paths(m, fn, inline=False)
        rets = [p for p in paths if p.outcome == "return"]
        if not rets:
            raise AnalysisError("%s::%s has no return path" % (rel, pub))
        for p in rets:
            r.paths += 1
            v = p.value
            ok = False
            why = "return value is not rx.pipe(head, pipeline, demux_mux_observable(outer))"
            stages = None
            if v[0] == "call" and v[1] == ("glob", "rx.pipe") and len(v[2]) == 1 and v[2][0][0] == "star" and v[2][0][1][0] in ("tuple", "list") \
                    and not any(isinstance(x, tuple) and x and x[0] == "star" for x in v[2][0][1][1:]):
                # rx.pipe(*stages) with stages a tuple / list display written in the factory: the display's elements are the stages
                v = (v[0], v[1], tuple(v[2][0][1][1:])) + tuple(v[3:])
            if v[0] == "call" and v[1] == ("glob", "rx.pipe") and any(isinstance(x, tuple) and x and x[0] == "star" for x in v[2]):
                raise AnalysisError("%s: %s composes its stages from a list built at run time (%s); MX-5 reads rx.pipe(head, pipeline, demux) and the "
                                    "written-out application only" % (m.where(fn), pub, show(v)[:80]))
            if v[0] == "call" and v[1] == ("glob", "rx.pipe") and len(v[2]) == 3:
                stages = v[2]
            elif v[0] == "func" and isinstance(v[1], ast.FunctionDef) and len(m.scopes[v[1]].params) == 1:
                # the composition written out:  def _op(source): return demux(pipeline(head(source)))  with the locals of the factory
                env = {e.name: e.value for e in p.trace if e.k == "assign"}
                SRC = ("arg", m.scopes[v[1]].params[0])

                def subst(x):
                    if not isinstance(x, tuple):
                        return x
                    if x and x[0] == "free" and x[1] in env:
                        return env[x[1]]
                    if x and x[0] == "free" and x[1] in m.scopes[fn].params:
                        return ("arg", x[1])
                    return tuple(subst(y) for y in x)
                inner_rets = [q for q in ctx.fn_paths(m, v[1], inline=False) if q.outcome == "return"]
                if len(inner_rets) == 1 and inner_rets[0].value is not None:
                    w, chain = inner_rets[0].value, []
                    while w != SRC:
                        if w[0] == "call" and len(w[2]) == 1:
                            chain.append(subst(w[1]))
                        elif w[0] == "ucall" and len(w[2]) == 1:
                            chain.append(env.get(w[1], ("arg", w[1])))
                        else:
                            break
                        w = w[2][0]
                    if w == SRC and len(chain) == 3:
                        stages = tuple(reversed(chain))
            if stages is not None:
                a, b, c = stages
                if c[0] == "call" and c[1][0] == "func" and c[1][1].name == "demux_mux_observable" and len(c[2]) == 1:
                    o = c[2][0]
                    if a[0] == "sub" and o[0] == "sub" and a[1] == o[1] and a[2] == ("const", 0) and o[2] == ("const", 1) \
                            and a[1][0] == "call" and a[1][1][0] == "func" and a[1][1][1] is hfn:
                        ok = True
                    else:
                        why = "the Subject given to demux_mux_observable is not the one returned with the head operator (%s vs %s)" % (show(a), show(o))
                    if ok and b[0] not in ("arg", "ifexp", "call"):
                        ok = False
                        why = "the middle stage is not the user pipeline"
                    if ok and not any(x == ("arg", "pipeline") for x in subterms(b)):
                        ok = False
                        why = "the middle stage does not derive from the pipeline argument"
            r.ob(ok, lambda: Finding("MX-5", "%s::%s{sandwich}" % (rel, pub), m.where(fn), why, trace_of(p)))
        # the head factory returns (operator, the Subject its handler writes to)
        hp = ctx.fn_paths(hm, hfn, inline=False)
        for p in hp:
            if p.outcome != "return":
                continue
            r.paths += 1
            v = p.value
            ok = v[0] == "tuple" and len(v) == 3 and v[1][0] == "func" and v[2][0] == "call" and \
                v[2][1][0] == "glob" and v[2][1][1].endswith("Subject")
            # ... and that Subject is the variable with the outer role
            if ok:
                subj_names = [k[0] for k, role in _outer_roles(ctx, rel, v[1][1]).items()]
                ok = any(e.k == "assign" and e.name in subj_names and e.value == v[2] for e in p.trace)
            r.ob(ok, lambda: Finding("MX-5", "%s::%s{head-return}" % (rel, head), hm.where(hfn),
                                     "the head factory must return (operator, outer Subject); it returns %s" % show(v), trace_of(p)))
    r.require_instances(5 if heads_only is None else 1 + len(heads_only))
    return r


def _outer_roles(ctx, rel, head_fn):
    for s in ctx.mux_sites():
        if s.module.relpath != rel:
            continue
        f = s.subscribe_fn
        # the site whose subscribe function is nested in head_fn
        p = s.module.enclosing_function(f)
        while p is not None and p is not head_fn:
            p = s.module.enclosing_function(p)
        if p is head_fn:
            return {k: v for k, v in s.roles.items() if v == ("obs", "outer")}
    return {}


# ----------------------------------------------------------------------
def rule_mx6(ctx: Ctx) -> RuleResult:
    """MX-6: root lifecycle and probe-before-subscribe."""
    r = RuleResult("MX-6", "root: Create(ROOT) before subscribing, Completed(ROOT) before on_completed; probe before subscribing")
    site = ctx.site("rxsci/operators/multiplex.py", "mux_observable.__mux.on_subscribe")
    r.instances += 1
    m = site.module
    from .common import settled_params, with_settled
    settled = settled_params(ctx, "rxsci/operators/multiplex.py", "mux_observable")

    def nk(t):
        """the key term with a settled parameter read as its value: the root key is (0,), written out or named"""
        t = with_settled(t, settled)
        if t[0] == "const" and isinstance(t[1], tuple):
            t = ("tuple",) + tuple(("const", x) for x in t[1])
        return t
    ROOT = ("tuple", ("const", 0))
    paths = ctx.fn_paths(m, site.subscribe_fn, roles=site.roles)
    for p in paths:
        r.paths += 1
        seq = [e for e in p.trace if e.k == "emit" or (e.k == "call" and e.d.get("method") in ("subscribe", "subscribe_"))]
        subs = [k for k, e in enumerate(seq) if e.k == "call"]
        creates = [k for k, e in enumerate(seq) if e.k == "emit" and e.method == "on_next" and e.arg[0] == "mkevent"
                   and e.arg[1] == "Create" and nk(e.arg[2]) == ROOT]
        ok = len(subs) == 1 and len(creates) == 1 and creates[0] < subs[0]
        r.ob(ok, lambda: Finding("MX-6", "mux_observable{create-before-subscribe}", m.where(site.subscribe_fn),
                                 "the root key (0,) must be created exactly once before the source is subscribed", trace_of(p)))
    # on_next: exactly one Next(ROOT) carrying the item
    for spec in site.handler_specs("on_next"):
        for p in ctx.paths(spec, None, {}):
            r.paths += 1
            ems = emissions(p)
            ok = len(ems) == 1 and ems[0].method == "on_next" and ems[0].eff.arg[0] == "mkevent" and ems[0].eff.arg[1] == "Next" \
                and nk(ems[0].eff.arg[2]) == ROOT and ems[0].eff.arg[3] == EV
            r.ob(ok, lambda: mk_finding("MX-6", spec, None, {}, p, "the root must wrap every source item in exactly one Next((0,), item); it does: %s" % summary(p)))
    for spec in site.handler_specs("on_completed"):
        for p in ctx.paths(spec, None, {}):
            r.paths += 1
            ems = emissions(p)
            comp = [k for k, e in enumerate(ems) if e.method == "on_next" and e.eff.arg[0] == "mkevent" and e.eff.arg[1] == "Completed"
                    and nk(e.eff.arg[2]) == ROOT]
            term = [k for k, e in enumerate(ems) if e.method in ("on_completed", "on_error")]
            raised = any(e.raised for e in ems)
            if raised:
                ok = len(term) == 1 and ems[term[0]].method == "on_error"
                msg = "when the completion of the root key raises downstream, exactly on_error must follow"
            else:
                ok = len(comp) == 1 and len(term) == 1 and ems[term[0]].method == "on_completed" and comp[0] < term[0]
                msg = "Completed((0,)) must be emitted exactly once before on_completed"
            r.ob(ok, lambda: mk_finding("MX-6", spec, None, {}, p, "%s; the handler does: %s" % (msg, summary(p))))
    for spec in site.handler_specs("on_error"):
        for p in ctx.paths(spec, None, {}):
            r.paths += 1
            ems = emissions(p)
            ok = len(ems) == 1 and ems[0].method == "on_error" and ems[0].eff.arg == EV
            r.ob(ok, lambda: mk_finding("MX-6", spec, None, {}, p, "the root must forward a source error unchanged; it does: %s" % summary(p)))
    # with_store_mux: probe before subscribing the source
    ws = ctx.site("rxsci/state/with_store.py", "with_store_mux._with_store.on_subscribe")
    r.instances += 1
    for p in ctx.fn_paths(ws.module, ws.subscribe_fn, roles=ws.roles):
        r.paths += 1
        seq = [e for e in p.trace if e.k == "emit" or (e.k == "call" and e.d.get("method") in ("subscribe", "subscribe_", "set_topology"))]
        probes = [k for k, e in enumerate(seq) if e.k == "emit" and e.method == "on_next" and e.arg[0] == "mkevent" and e.arg[1] == "Probe"]
        subs = [k for k, e in enumerate(seq) if e.k == "call" and e.method in ("subscribe", "subscribe_")]
        topo = [k for k, e in enumerate(seq) if e.k == "call" and e.method == "set_topology"]
        ok = len(probes) == 1 and len(subs) == 1 and len(topo) == 1 and probes[0] < topo[0] < subs[0]
        r.ob(ok, lambda: Finding("MX-6", "with_store_mux{probe-before-subscribe}", ws.module.where(ws.subscribe_fn),
                                 "the state topology must be probed, then registered in the store, before the source is subscribed", trace_of(p)))
    # with_store on several sources: every subscriber is probed when it subscribes; the sources are subscribed only once the
    # topology gathered from all of them is registered in the store
    wss = ctx.site("rxsci/state/with_store.py", "with_store_mux_on_sources.on_subscribe")
    r.instances += 1
    saw_sub = False
    sq = wss.module.scopes[wss.subscribe_fn].qualname
    for p in ctx.fn_paths(wss.module, wss.subscribe_fn, roles=wss.roles):
        r.paths += 1
        if p.outcome == "raise":
            continue
        seq = [e for e in p.trace if e.k == "emit" or (e.k == "call" and e.d.get("method") in ("subscribe", "subscribe_", "set_topology"))]
        probes = [k for k, e in enumerate(seq) if e.k == "emit" and e.method == "on_next" and e.arg[0] == "mkevent" and e.arg[1] == "Probe"]
        subs = [k for k, e in enumerate(seq) if e.k == "call" and e.method in ("subscribe", "subscribe_")]
        topo = [k for k, e in enumerate(seq) if e.k == "call" and e.method == "set_topology"]
        ok = len(probes) == 1 and (not subs or (len(topo) == 1 and probes[0] < topo[0] < subs[0]))
        saw_sub = saw_sub or bool(subs)
        # one topology for all the sources: the object every subscriber is probed with is the one registered in the store, and it
        # is created once by the factory (a topology per subscriber would number the states of each source from 0 again, so the
        # stateful operators behind two sources would share their slots)
        if probes:
            pt = seq[probes[0]].arg[3]
            shared = pt is not None and pt[0] == "free" and len(pt) > 2 and not (pt[2] == sq or pt[2].startswith(sq + "."))
            same = not topo or (seq[topo[0]].args and seq[topo[0]].args[0] == pt)
            r.ob(shared and same, lambda p=p, pt=pt: Finding(
                "MX-6", "with_store_mux_on_sources{shared-topology}", wss.module.where(wss.subscribe_fn),
                "every source must be probed with the one topology that is registered in the store, created once for all sources; here the probe carries %s: "
                "with a topology per subscriber the state ids of each source start from 0 again and the stateful operators behind different sources share "
                "their slots" % (show(pt) if pt is not None else None), trace_of(p)))
        r.ob(ok, lambda p=p: Finding("MX-6", "with_store_mux_on_sources{probe-before-subscribe}", wss.module.where(wss.subscribe_fn),
                                     "each subscriber must be probed once, and the sources may be subscribed only after the topology is registered in the store "
                                     "(set_topology): stateful operators otherwise address states the store never created", trace_of(p)))
    r.ob(saw_sub, lambda: Finding("MX-6", "with_store_mux_on_sources{subscribe}", wss.module.where(wss.subscribe_fn), "no path subscribes the sources"))
    r.require_instances(3)
    return r


# ----------------------------------------------------------------------
def rule_mx7(ctx: Ctx) -> RuleResult:
    """MX-7: tee_map lifecycle de-duplication over its branches."""
    r = RuleResult("MX-7", "tee_map: Create forwarded by the first branch only, Completed by the last branch only")
    site = ctx.site("rxsci/operators/tee_map.py", "_process_many.subscribe_mux", kind="mux")
    specs = site.handler_specs("on_next")
    if len(specs) != 1 or not specs[0].bound:
        raise AnalysisError("tee_map.subscribe_mux: expected one on_next handler bound to the branch index")
    spec = specs[0]
    branch = next(iter(spec.bound.values()))
    r.instances += 1
    from .tee import tee_model
    from .linear import linform
    tm = tee_model(ctx, site)

    def last_branch(t):
        """t == (number of branches) - 1"""
        f = linform(t)
        if f is None or f[1] != -1 or len(f[0]) != 1:
            return False
        (atom, co), = f[0].items()
        return co == 1 and tm.is_count(atom)
    for kind, cfg, paths in ctx.all_paths(spec):
        for p in paths:
            r.paths += 1
            r.groups.add((spec.qualname, kind, cfg_str(cfg)))
            ems = mux_emissions(p)
            decs = [e for e in p.trace if e.k == "decision" and any(x == branch for x in subterms(e.test))]
            if kind in ("Create", "Completed"):
                fw = [x for x in ems if x.event is not None and x.event.kind == kind and x.event.keyclass == SAME]
                other = [x for x in ems if x not in fw]
                r.ob(not other, lambda: mk_finding("MX-7", spec, kind, cfg, p, "unexpected emission while handling %s: %s" % (kind, summary(p)), extra="other"))
                if fw:
                    # the forwarding path must be guarded by branch == <the one branch>
                    guards = [d for d in decs if d.test[0] == "cmp" and d.test[1] in ("Eq", "NotEq") and d.outcome == (d.test[1] == "Eq")]
                    good = False
                    for d in guards:
                        # the equality solved for the branch index:  i == n - 1,  i + 1 == n,  n == i + 1 ...
                        from .linear import diff
                        f = diff(d.test[2], d.test[3])
                        if f is None or branch not in f[0] or abs(f[0][branch]) != 1:
                            continue
                        sgn = -f[0][branch]
                        rest = {k: v * sgn for k, v in f[0].items() if k != branch}
                        cst = f[1] * sgn
                        if kind == "Create":
                            good = good or (not rest and cst == 0)
                        else:
                            good = good or (cst == -1 and len(rest) == 1 and list(rest.values()) == [1] and tm.is_count(list(rest)[0]))
                    want = "the first branch (index 0)" if kind == "Create" else "the last branch (index n-1, n = len(sources))"
                    r.ob(good and len(fw) == 1, lambda: mk_finding(
                        "MX-7", spec, kind, cfg, p,
                        "%s of a key is forwarded on a path that is not guarded by 'branch == %s': every branch (or the wrong one) would forward it" % (
                            kind, want), fw[0].eff.node, extra="guard"))
                else:
                    # a silent path must be the negation of such a guard
                    neg = [d for d in decs if d.test[0] == "cmp" and d.test[1] in ("Eq", "NotEq") and d.outcome != (d.test[1] == "Eq")]
                    r.ob(bool(neg), lambda: mk_finding("MX-7", spec, kind, cfg, p,
                                                       "%s of a key is dropped on a path not selected by the branch index" % kind, extra="drop"))
            elif kind == "Next":
                for x in ems:
                    good = x.event is not None and x.event.kind == "Next" and x.event.keyclass == SAME
                    r.ob(good, lambda: mk_finding("MX-7", spec, kind, cfg, p, "illegal emission %s while joining an item" % x.brief(), x.eff.node, extra="next"))
            else:
                fw = [x for x in ems if x.event is not None and x.event.how == "same"]
                r.ob(len(fw) == 1 and len(ems) == 1, lambda: mk_finding("MX-7", spec, kind, cfg, p, "pass-through events must be forwarded once per branch: %s" % summary(p), extra="pass"))
                r.notes.append("tee_map forwards one copy per branch of %s events (recorded, not a violation)" % kind) if \
                    ("tee_map forwards one copy per branch of %s events (recorded, not a violation)" % kind) not in r.notes else None
    r.require_instances(1)
    return r


# ----------------------------------------------------------------------
def rule_mx8(ctx: Ctx) -> RuleResult:
    """MX-8: terminal handlers of mux operators add no mux event (root excepted)."""
    r = RuleResult("MX-8", "on_completed/on_error handlers of mux operators emit no mux event")
    classes = classify_sites(ctx)
    for site, cls in classes.items():
        if cls in ("root", "cast"):
            continue
        for which in ("on_completed", "on_error"):
            for sub in site.subscriptions:
                h = sub.handlers.get(which)
                if h is None:
                    continue
                r.instances += 1
                if h.how == "forward":
                    ok = h.target == ("obs", "down") and h.method == which
                    if not ok and cls == "sources" and h.method == which:
                        # with_store on several sources keeps each subscriber's observer in its Source record
                        t = h.target
                        ok = (t[0] == "opaque" and t[1].endswith(".observer")) or (t[0] == "attr" and t[2] == "observer")
                    r.ob(ok, lambda: Finding("MX-8", "%s{%s-forward}" % (site.name, which), site.module.where(h.node),
                                             "%s is wired to %s.%s instead of the downstream observer's %s" % (which, show(h.target), h.method, which)))
                elif h.how == "fn":
                    spec = h.spec
                    for p in ctx.paths(spec, None, {}):
                        r.paths += 1
                        ems = emissions(p)
                        muxems = [x for x in ems if x.method == "on_next" and x.role in ("down", "outer")]
                        r.ob(not muxems, lambda: mk_finding("MX-8", spec, None, {}, p,
                                                            "the %s handler emits events on the multiplexed stream: %s" % (which, summary(p))))
                        terms = [x for x in ems if x.method in ("on_completed", "on_error") and x.role == "down"]
                        want = which
                        r.ob(len(terms) == 1 and terms[0].method == want and terms[0] is [x for x in ems if x.role == "down"][-1],
                             lambda: mk_finding("MX-8", spec, None, {}, p,
                                                "the %s handler must end with exactly one downstream %s: %s" % (which, want, summary(p)), extra="terminal"))
                elif h.how == "absent" and cls != "demux":
                    r.ob(False, lambda: Finding("MX-8", "%s{%s-absent}" % (site.name, which), site.where(),
                                                "the source's %s is not propagated downstream" % which))
    r.require_instances(50)
    return r


# ----------------------------------------------------------------------
def rule_wc2(ctx: Ctx) -> RuleResult:
    """WC-2: lifecycle events are constructed only by the root and the grouping heads."""
    r = RuleResult("WC-2", "OnCreateMux/OnCompletedMux constructed only in the root and the five grouping heads; OnErrorMux only in map/filter/scan")
    allowed_life = {
        "rxsci/operators/multiplex.py": ("mux_observable.",),
        "rxsci/operators/group_by.py": ("group_by_mux.",),
        "rxsci/data/roll.py": ("roll_mux.",),
        "rxsci/data/split.py": ("split_mux.",),
        "rxsci/data/time_split.py": ("time_split_mux.",),
    }
    allowed_err = {
        "rxsci/operators/map.py": ("map_mux.",),
        "rxsci/operators/filter.py": ("filter_mux.",),
        "rxsci/operators/scan.py": ("scan_mux.",),
    }
    prog = ctx.program
    for rel, m in sorted(prog.by_relpath.items()):
        for node in ast.walk(m.tree):
            if not isinstance(node, ast.Call):
                continue
            dn = dotted_name(node.func)
            if dn is None:
                continue
            last = dn.split(".")[-1]
            if last not in ("OnCreateMux", "OnCompletedMux", "OnErrorMux"):
                continue
            ref = prog.resolve_dotted(m, dn)
            if ref[0] != "assign" or not ref[1].name.startswith("rxsci"):
                continue
            fn = m.enclosing_function(node)
            qn = m.scopes[fn].qualname if fn is not None else "<module>"
            table = allowed_err if last == "OnErrorMux" else allowed_life
            ok = any(qn.startswith(pfx) for pfx in table.get(rel, ()))
            if not ok and last == "OnErrorMux":
                # OnErrorMux(key=..., error=i.error, store=...): the error is read from an event in hand -- i._replace(key=...) written out,
                # a copy and not an origination; the per-kind rules (MX-1..4) judge the copy like any emitted event
                e_arg = node.args[1] if len(node.args) > 1 else next((k.value for k in node.keywords if k.arg == "error"), None)
                ok = isinstance(e_arg, ast.Attribute) and e_arg.attr == "error" and isinstance(e_arg.value, ast.Name)
            if not ok and fn is not None:
                # a helper shared by several operators (mux_error(event, e)): every site that reaches it must be
                # one of the allowed originators
                from .common import reached_by_site
                chain = []
                f = fn
                while f is not None:
                    chain.append(f)
                    f = m.enclosing_function(f)
                owners = [s_ for s_, fns in reached_by_site(ctx, mux_only=True).items() if any(f in fns for f in chain)]
                ok = bool(owners) and all(any((s_.short + ".").startswith(pfx) for pfx in table.get(s_.anchor_rel, ())) for s_ in owners)
            if not ok and fn is not None:
                # a construction no analysed path executes (it sits under an option of the operator that is off by default -- an
                # extension, see Ctx.space) originates nothing for the callers the properties speak about
                from .common import reached_by_site
                chain = []
                f = fn
                while f is not None:
                    chain.append(f)
                    f = m.enclosing_function(f)
                sites_ = [s_ for s_, fns in reached_by_site(ctx, mux_only=True).items() if any(f in fns for f in chain)]
                if sites_ and ctx.extensions:
                    executed = False
                    for s_ in sites_:
                        for spec in s_.handler_specs("on_next"):
                            for kind, cfg, paths in ctx.all_paths(spec):
                                for p in paths:
                                    if any(getattr(e, "node", None) is not None and any(x is node for x in ast.walk(e.node)) for e in p.trace):
                                        executed = True
                    if not executed:
                        ok = True
            r.instances += 1
            r.ob(ok, lambda: Finding("WC-2", "%s::%s{%s}" % (rel, qn, last), m.where(node),
                                     "%s is constructed outside the operators allowed to originate it; the protocol argument "
                                     "(per-operator preservation) does not cover this site" % last))
    r.require_instances(14)
    return r


MUX_EVENT_CLASSES = ("OnNextMux", "OnCreateMux", "OnCompletedMux", "OnErrorMux", "ProbeStateTopology")


def rule_mx9(ctx: Ctx) -> RuleResult:
    """MX-9: mux events travel in MuxObservables only.  Every dual-mode operator chooses its implementation with
    isinstance(source, MuxObservable): an operator that handles mux events (it tells OnNextMux / OnCreateMux / ... apart) and sends
    them on through rx.create hands its successor a plain Observable of event tuples -- the successor takes its plain arm and applies
    the user's function to the events themselves.  Only the demultiplexer turns a mux stream into a plain one, and it emits items."""
    r = RuleResult("MX-9", "an operator that tells mux events apart and sends events on builds a MuxObservable (rx.create only where items leave the mux "
                           "stream: demultiplex)")
    for site in ctx.all_sites:
        rel = site.anchor_rel
        if ctx.scope is not None and rel not in ctx.scope:
            continue
        for spec in site.handler_specs("on_next"):
            fn, ev = spec.fn, spec.event_param
            tests = [n for n in ast.walk(fn) if isinstance(n, (ast.Attribute, ast.Name)) and (n.attr if isinstance(n, ast.Attribute) else n.id) in MUX_EVENT_CLASSES]
            if not tests:
                continue
            r.instances += 1
            if site.ctor != "create":
                r.ob(True)
                continue
            sent = []
            for c in ast.walk(fn):
                if isinstance(c, ast.Call) and isinstance(c.func, ast.Attribute) and c.func.attr == "on_next" and c.args:
                    a = c.args[0]
                    if (isinstance(a, ast.Name) and a.id == ev) or (isinstance(a, ast.Call) and (
                            (isinstance(a.func, ast.Attribute) and a.func.attr == "_replace") or (dotted_name(a.func) or "").split(".")[-1] in MUX_EVENT_CLASSES)):
                        sent.append(c)
            r.ob(not sent, lambda sent=sent, site=site, spec=spec: Finding(
                "MX-9", "%s{plain-observable-of-events}" % site.name, site.where(),
                "%s tells mux events apart (%s ...) and sends events on (%s) but builds its result with rx.create: what follows it sees a plain "
                "Observable, takes its plain arm (isinstance(source, MuxObservable) is False) and treats the event tuples as items" % (
                    spec.qualname, ast.unparse(tests[0]) if tests else "", ast.unparse(sent[0])[:50])))
    r.require_instances(ctx.scaled(20))
    return r


def _lv(ctx):
    from .lv import rule_lv
    return rule_lv(ctx)


def rule_ev1(ctx: Ctx) -> RuleResult:
    """EV-1 event typing: on the paths an event of a given kind takes through a mux handler, only the fields that kind has are
    read (OnCreateMux / OnCompletedMux: key, store; OnNextMux: key, item, store; OnErrorMux: key, error, store), and the key -- a
    tuple -- is not used as an object with methods."""
    r = RuleResult("EV-1", "mux handlers read only the fields the event kind has, on every path of that kind (no .item of an OnErrorMux, no method of the key tuple); "
                           "events sent on carry the store of the event being handled")
    classes = classify_sites(ctx)
    for site in ctx.sites:
        if site.ctor == "create":
            continue
        for spec in site.handler_specs("on_next"):
            r.instances += 1
            seen = set()
            for kind, cfg, paths in ctx.all_paths(spec, kinds=("Create", "Next", "Completed", "Error", "Probe")):
                for p in paths:
                    r.paths += 1
                    bad = [e for e in p.trace if e.k == "badfield"]
                    r.groups.add((spec.qualname, kind))
                    for e in bad:
                        sig = (id(e.node), kind)
                        if sig in seen:
                            continue
                        seen.add(sig)
                        r.ob(False, lambda e=e, kind=kind, cfg=cfg, p=p: mk_finding(
                            "EV-1", spec, kind, cfg, p, "an event of kind %s reaches '%s': %s (AttributeError when such an event arrives; the tests never send one here)" % (
                                kind, ("ev." + e.field) if not e.field.startswith("key.") else "ev." + e.field,
                                "the kind has no such field" if not e.field.startswith("key.") else "the key is a tuple"), node=e.node, extra=e.field))
                    if not bad:
                        r.ob(True)
                    # every event an operator sends on carries the store of the event it is handling (the operators downstream
                    # address their state through it); only with_store installs a store
                    if classes.get(site) in ("flat", "grouping", "join") and "with_store" not in site.short and kind != "Probe":
                        for m_ in mux_emissions(p, roles=("down", "outer")):
                            ev_ = m_.event
                            if ev_ is None or ev_.kind not in ("Create", "Next", "Completed", "Error") or ev_.how == "same":
                                continue
                            sig = (id(m_.eff.node), kind, "store")
                            if sig in seen:
                                continue
                            seen.add(sig)
                            r.ob(ev_.store == EVSTORE, lambda m_=m_, kind=kind, cfg=cfg, p=p: mk_finding(
                                "EV-1", spec, kind, cfg, p, "the event %s is sent on with store = %s instead of the store of the event being handled: the stateful "
                                "operators downstream address their state through it" % (m_.brief(), show(m_.event.store) if m_.event.store is not None else None),
                                node=m_.eff.node, extra="store"))
    r.require_instances(ctx.scaled(25))
    return r


RULES = [rule_ev1, rule_mx_flat, _lv, rule_mx5, rule_mx6, rule_mx7, rule_mx8, rule_wc2, rule_mx9]
