"""C09 -- scan / reduce: SD-1 (seed freshness), SC-1 (fold skeleton), AG-3 (scan
siblings), PU-1 (purity of accumulators and of mappers downstream of a scan)."""
from __future__ import annotations

import ast

from ..classify import KEYIDX, SAME
from ..engine import Ctx, Finding, RuleResult, cfg_str, trace_of
from ..loader import AnalysisError, dotted_name
from ..model import _lookup_def
from ..terms import EV, EVITEM, EVKEY, show, subterms
from .common import Emission, emissions, mk_finding, mux_emissions, summary
from .lv import _index_of_key, _is_notset

SCAN_REL = "rxsci/operators/scan.py"


def _normal(p):
    return not any(e.d.get("raised") for e in p.trace) and p.outcome != "raise"


def scan_specs(ctx: Ctx):
    mux = ctx.site(SCAN_REL, "scan_mux._scan.on_subscribe")
    obs = ctx.site(SCAN_REL, "scan_obs._scan.on_subscribe")
    return mux, obs


def _is_seed(t):
    return t[0] == "param" and t[1] == "seed"


def _seed_leaks(t, parent=None):
    """Occurrences of the seed parameter outside callable(seed), type(seed), seed(), deepcopy(seed)."""
    out = []
    if not isinstance(t, tuple) or not t:
        return out
    if isinstance(t[0], str) and _is_seed(t):
        ok = False
        if parent is not None and parent[0] == "call":
            f = parent[1]
            if f in (("builtin", "callable"), ("builtin", "type"), ("glob", "copy.deepcopy")):
                ok = True
        if not ok:
            out.append(parent if parent is not None else t)
        return out
    for x in t:
        if isinstance(x, tuple):
            out += _seed_leaks(x, t if (t and isinstance(t[0], str)) else parent)
    return out


def rule_sd1(ctx: Ctx) -> RuleResult:
    r = RuleResult("SD-1", "seed freshness: the seed reaches accumulator/terminator/state/output only through seed() or copy.deepcopy(seed)")
    mux, obs = scan_specs(ctx)
    for site in (mux, obs):
        for which in ("on_next", "on_completed"):
            for spec in site.handler_specs(which):
                r.instances += 1
                kinds = ("Next", "Completed", "Create", "Error", "Other") if (site is mux and which == "on_next") else (None,)
                for kind, cfg, paths in ctx.all_paths(spec, kinds=kinds):
                    for p in paths:
                        r.paths += 1
                        r.groups.add((spec.qualname, kind, cfg_str(cfg)))
                        leak = None
                        for e in p.trace:
                            terms = []
                            if e.k == "ucall":
                                terms = list(e.args)
                            elif e.k == "store":
                                terms = list(e.args)
                            elif e.k == "emit":
                                terms = [e.arg] if e.arg is not None else []
                            elif e.k in ("nonlocal", "assign"):
                                terms = [e.value]
                            elif e.k == "call" and e.func != ("glob", "copy.deepcopy"):
                                terms = list(e.args)
                            for t in terms:
                                lk = _seed_leaks(t)
                                if lk and e.k in ("assign",) and False:
                                    continue
                                if lk:
                                    leak = (e, lk[0])
                                    break
                            if leak:
                                break
                        # seed() is for factories, deepcopy(seed) for values: the 'callable' test decides which
                        seeded = [x for x in p.trace if (x.k == "ucall" and x.name == "seed" and not x.args)
                                  or (x.k == "call" and x.func == ("glob", "copy.deepcopy") and x.args and x.args[0][0] == "param" and x.args[0][1] == "seed")]
                        tested = False
                        for e in p.trace:
                            if e.k == "decision":
                                t0 = e.test
                                while t0[0] == "not":
                                    t0 = t0[1]
                                if t0[0] == "call" and t0[1] == ("builtin", "callable") and len(t0[2]) == 1 and t0[2][0][0] == "param":
                                    tested = True
                        if seeded:
                            r.ob(tested, lambda kind=kind, cfg=cfg, p=p, seeded=seeded: mk_finding(
                                "SD-1", spec, kind, cfg, p,
                                "%s without a callable(seed) test on this path: whether the seed is a factory or a value is not looked at, so one of the two "
                                "kinds of seed is handled as the other" % seeded[0].brief(), node=seeded[0].node, extra="untested"))
                        for e in p.trace:
                            if e.k != "decision":
                                continue
                            tt, pol = e.test, e.outcome
                            while tt[0] == "not":
                                tt, pol = tt[1], not pol
                            if not (tt[0] == "call" and tt[1] == ("builtin", "callable") and len(tt[2]) == 1 and tt[2][0][0] == "param"):
                                continue
                            sname = tt[2][0][1]
                            called = [x for x in p.trace if x.k == "ucall" and x.name == sname and not x.args]
                            copied = [x for x in p.trace if x.k == "call" and x.func == ("glob", "copy.deepcopy") and x.args and x.args[0][0] == "param" and x.args[0][1] == sname]
                            ok = (bool(called) and not copied) if pol else (bool(copied) and not called)
                            r.ob(ok, lambda e=e, pol=pol, called=called, copied=copied, kind=kind, cfg=cfg, p=p: mk_finding(
                                "SD-1", spec, kind, cfg, p,
                                "where callable(%s) is %s the fresh accumulator must come from %s; this path does %s: a seed value is called, or a seed factory is "
                                "copied and handed to the accumulator as if it were the value" % (
                                    sname, pol, "%s()" % sname if pol else "copy.deepcopy(%s)" % sname, [x.brief() for x in called + copied] or "neither"),
                                node=e.node, extra="callable"))
                            break
                        r.ob(leak is None, lambda: mk_finding(
                            "SD-1", spec, kind, cfg, p,
                            "the seed object itself flows into '%s' (through %s): every key and every lifetime would share and mutate the same "
                            "accumulator (a shallow copy is not enough: batch seeds ([], False))" % (leak[0].brief(), show(leak[1])),
                            node=leak[0].node, extra="seed"))
    # classification of the scan call sites of the repository (evidence)
    sites = scan_call_sites(ctx)
    classes = {}
    for m, call, seed in sites:
        cls = _seed_class(seed)
        classes.setdefault(cls, []).append("%s (%s)" % (m.where(call), ast.unparse(seed)[:40] if seed is not None else "?"))
    for cls, lst in sorted(classes.items()):
        r.notes.append("%d scan call site(s) with %s seed: %s" % (len(lst), cls, "; ".join(lst)))
    r.sample({"scan_call_sites": {k: v for k, v in classes.items()}})
    if len(sites) < 8:
        raise AnalysisError("SD-1: only %d rs.ops.scan call sites found (13 confirmed by reading; 2 more use rx.operators.scan)" % len(sites))
    r.require_instances(3)
    return r


def scan_call_sites(ctx: Ctx):
    out = []
    prog = ctx.program
    for rel, m in sorted(prog.by_relpath.items()):
        for node in ast.walk(m.tree):
            if not isinstance(node, ast.Call):
                continue
            dn = dotted_name(node.func)
            if dn is None or dn.split(".")[-1] != "scan":
                continue
            ref = prog.resolve_dotted(m, dn)
            if ref[0] == "def" and ref[1].relpath == SCAN_REL and ref[2].name == "scan":
                seed = None
                if len(node.args) > 1:
                    seed = node.args[1]
                for kw in node.keywords:
                    if kw.arg == "seed":
                        seed = kw.value
                out.append((m, node, _literal_of_local(m, node, seed)))
    return out


def _scan_state_type(ctx):
    """(data_type term, topo effect) of the state scan_mux declares for its accumulator"""
    from .st import state_vars
    mux, _ = scan_specs(ctx)
    spec = mux.handler_specs("on_next")[0]
    sv = state_vars(ctx, spec)
    if len(sv) != 1:
        raise AnalysisError("scan_mux: expected one state id, found %s" % sorted(sv))
    topo = list(sv.values())[0]
    kw = dict(topo.kwargs)
    return kw.get("data_type"), topo, spec


def rule_sd2(ctx: Ctx) -> RuleResult:
    """SD-2: the multiplexed scan keeps the accumulator of each key in a container chosen from type(seed): an int seed
    means array('q'), a bool seed array('B').  The plain scan has no such restriction, so an aggregate whose accumulator can
    take other values (anything computed from the items) must not be seeded with an int / bool literal."""
    from .linear import linform
    r = RuleResult("SD-2", "a scan seeded with an int / bool literal only ever accumulates ints (the mux state is a typed array chosen from type(seed))")
    dt, _, _ = _scan_state_type(ctx)
    if dt == ("const", "obj"):
        # the accumulator is kept as an object: any seed goes with any accumulator (SD-3 decides that part)
        r.instances += 1
        r.ob(True)
        r.notes.append("scan_mux keeps its accumulator in an object state: literal seeds put no restriction on the accumulator")
        r.require_instances(1)
        return r
    for m, call, seed in scan_call_sites(ctx):
        if not (isinstance(seed, ast.Constant) and isinstance(seed.value, int)):
            continue            # float seeds hold any real number, other seeds are stored as objects
        r.instances += 1
        fn = m.enclosing_function(call)
        acc = call.args[0] if call.args else next((k.value for k in call.keywords if k.arg == "accumulator"), None)
        accfn = _callable_def(ctx, m, acc, fn) if acc is not None else None
        if accfn is None:
            raise AnalysisError("%s: the accumulator of a scan seeded with %r is not a local function" % (m.where(call), seed.value))
        params = m.scopes[accfn].params
        A = ("arg", params[0])
        for p in ctx.fn_paths(m, accfn):
            r.paths += 1
            if p.outcome != "return" or p.value is None:
                continue
            f = linform(p.value)
            ok = f is not None and set(f[0]) <= {A} and all(float(v).is_integer() for v in list(f[0].values()) + [f[1]])
            r.groups.add((m.relpath, m.scopes[fn].qualname if fn is not None else "<module>"))
            r.ob(ok, lambda: Finding(
                "SD-2", "%s::%s{typed-seed}" % (m.relpath, m.scopes[fn].qualname if fn is not None else "<module>"), m.where(call),
                "the scan is seeded with the %s literal %r, so the multiplexed implementation stores each key's accumulator in a typed array of %ss, "
                "but the accumulator returns %s: on a MuxObservable a non-%s value raises (or is truncated) while the plain implementation accepts it" % (
                    type(seed.value).__name__, seed.value, type(seed.value).__name__, show(p.value), type(seed.value).__name__), trace_of(p)))
    r.require_instances(1)
    return r


def _literal_of_local(m, at, node):
    """seed = (False, None, NO_VALUE) ... scan(acc, seed=seed): the literal a local name is bound to (one assignment in
    the enclosing function), else the node itself"""
    if not isinstance(node, ast.Name):
        return node
    fn = m.enclosing_function(at)
    while fn is not None:
        vals = [n for n in ast.walk(fn) if isinstance(n, (ast.Assign, ast.AugAssign, ast.For, ast.NamedExpr)) and m.enclosing_function(n) is fn
                and any(isinstance(x, ast.Name) and x.id == node.id and isinstance(x.ctx, ast.Store) for x in ast.walk(n))]
        params = {a.arg for a in fn.args.args + fn.args.kwonlyargs + fn.args.posonlyargs} if isinstance(fn, ast.FunctionDef) else set()
        if node.id in params:
            return node
        if vals:
            if len(vals) == 1 and isinstance(vals[0], ast.Assign) and len(vals[0].targets) == 1 and isinstance(vals[0].targets[0], ast.Name) \
                    and isinstance(vals[0].value, (ast.Constant, ast.Tuple, ast.List, ast.Dict, ast.Set)):
                return vals[0].value
            return node
        fn = m.enclosing_function(fn)
    return node


def _seed_class(seed):
    if seed is None:
        return "missing"
    if isinstance(seed, ast.Constant):
        return "immutable literal"
    if isinstance(seed, ast.Tuple):
        if all(_seed_class(e) == "immutable literal" for e in seed.elts):
            return "immutable literal"
        return "mutable literal (relies on deepcopy)"
    if isinstance(seed, (ast.List, ast.Dict, ast.Set)):
        return "mutable literal (relies on deepcopy)"
    if isinstance(seed, (ast.Lambda, ast.Name, ast.Attribute)):
        return "factory / name"
    return "expression"


# ----------------------------------------------------------------------
def _value_role(t, reads, heapnames=("state",)):
    """state | seed | acc | term | item | other"""
    if t is None:
        return "none"
    if t in reads:
        return reads[t] if isinstance(reads, dict) else "state"
    if t[0] == "free" and t[1] in heapnames:
        return "state"
    if t[0] == "ucall":
        return {"seed": "seed", "accumulator": "acc", "terminator": "term"}.get(t[1], "user:" + t[1])
    if t[0] == "call" and t[1] == ("glob", "copy.deepcopy") and len(t[2]) == 1 and _is_seed(t[2][0]):
        return "seed"
    if t == EVITEM or t == EV:
        return "item"
    return "other:" + show(t)[:30]


def _feasible(p):
    """A read that follows a set_state of the same (state, key) on the path cannot be NOTSET."""
    written = set()
    after_write = set()
    for e in p.trace:
        if e.k == "store" and e.op == "set_state":
            written.add((e.state, e.key))
        elif e.k == "store" and e.op == "get_state" and (e.state, e.key) in written:
            after_write.add(e.result)
        elif e.k == "decision" and e.test[0] == "cmp" and (_is_notset(e.test[2]) or _is_notset(e.test[3])):
            rd = e.test[3] if _is_notset(e.test[2]) else e.test[2]
            if rd in after_write and (e.outcome == (e.test[1] in ("Is", "Eq"))):
                return False
    return True


def _plain_acc_var(ctx, specs):
    """the closure variable in which the plain scan keeps its accumulator: the one that receives the result of the
    accumulator call"""
    names = set()
    from ..model import valuations
    for sp in specs:
        for cfg in valuations(ctx.space(sp)):
            for p in ctx.paths(sp, None, cfg):
                for e in p.trace:
                    if e.k == "nonlocal" and e.value[0] == "ucall" and e.value[1] == "accumulator":
                        names.add(e.name)
    if len(names) != 1:
        raise AnalysisError("scan_obs: expected one closure variable receiving the accumulator result, found %s" % sorted(names))
    return next(iter(names))


def _skeleton(p, kind, is_mux, accvar="state"):
    """Abstract summary of a normal path of scan_mux / scan_obs."""
    reads = {}
    out = []
    last_stored = {}
    for e in p.trace:
        if e.k == "store" and e.op == "get_state":
            reads[e.result] = last_stored.get((e.state, e.key), "state")
        elif e.k == "store" and e.op == "set_state" and False:
            pass
        elif e.k == "ucall":
            if e.name == "seed":
                out.append("fresh-seed")
            else:
                out.append("%s(%s)" % (e.name, ",".join(_value_role(a, reads, (accvar,)) for a in e.args)))
        elif e.k == "call" and e.func == ("glob", "copy.deepcopy"):
            out.append("fresh-seed")
        elif e.k == "store" and e.op == "set_state":
            role = _value_role(e.extra[0], reads)
            last_stored[(e.state, e.key)] = role
            out.append("store(%s)" % role)
        elif e.k == "nonlocal" and e.name == accvar:
            out.append("store(%s)" % _value_role(e.value, reads, (accvar,)))
        elif e.k == "nonlocal" and not is_mux:
            out.append("store(other:%s)" % show(e.value))
        elif e.k == "emit":
            if e.method == "on_next":
                m = Emission(e, kind, 0)
                if is_mux:
                    if m.event is not None and m.event.kind == "Next":
                        out.append("emit(%s)" % _value_role(m.event.payload, reads))
                    elif m.event is not None and m.event.how == "same":
                        out.append("forward")
                    else:
                        out.append("emit?")
                else:
                    out.append("emit(%s)" % _value_role(e.arg, reads, (accvar,)))
            else:
                out.append(e.method)
    # writing the accumulator back and emitting it commute (no observable difference on normal paths)
    for k in range(len(out) - 1):
        if out[k].startswith("emit(") and out[k + 1].startswith("store(") and out[k][5:] == out[k + 1][6:]:
            out[k], out[k + 1] = out[k + 1], out[k]
    return tuple(out)


def rule_sc1(ctx: Ctx):
    r = RuleResult("SC-1", "fold skeleton of scan_mux per (reduce, terminator): load-or-fresh-seed, one accumulator call, store, emit iff streaming; completion")
    ra = RuleResult("AG-3", "scan_mux and scan_obs have the same fold skeleton per configuration")
    mux, obs = scan_specs(ctx)
    spec = mux.handler_specs("on_next")[0]
    ospec_next = obs.handler_specs("on_next")[0]
    ospec_comp = obs.handler_specs("on_completed")[0]
    r.instances += 1
    ra.instances += 1
    from ..model import valuations
    accvar = _plain_acc_var(ctx, [ospec_next, ospec_comp])
    space = ctx.space(spec)
    if {n for n in space if not ctx.is_extension(spec, n)} != {"reduce", "terminator"}:
        raise AnalysisError("scan_mux: configuration parameters tested are %s, expected reduce and terminator" % sorted(space))
    for cfg in valuations(space):
        reduce_ = cfg["reduce"] == "True"
        term = cfg["terminator"] == "Obj"
        # ---- Next ----------------------------------------------------
        sk_mux_next = set()
        for p in ctx.paths(spec, "Next", cfg):
            r.paths += 1
            r.groups.add((spec.qualname, "Next", cfg_str(cfg)))
            if not _normal(p):
                continue
            sk = _skeleton(p, "Next", True)
            sk_mux_next.add(sk)
            reads = [e for e in p.trace if e.k == "store" and e.op == "get_state"]
            notset = [e for e in p.trace if e.k == "decision" and e.test[0] == "cmp" and reads and reads[0].result in (e.test[2], e.test[3])
                      and (_is_notset(e.test[2]) or _is_notset(e.test[3]))]
            fresh = bool(notset) and (notset[0].outcome == (notset[0].test[1] in ("Is", "Eq")))
            src = "seed" if fresh else "state"
            want = (["fresh-seed"] if fresh else []) + ["accumulator(%s,item)" % src, "store(acc)"] + ([] if reduce_ else ["emit(acc)"])
            r.ob(bool(reads) and bool(notset) and list(sk) == want, lambda sk=sk, want=want: mk_finding(
                "SC-1", spec, "Next", cfg, p, "an item must be folded as %s; this path does %s" % (want, list(sk)), extra="next"))
            # key fidelity of the accumulator state
            for e in p.trace:
                if e.k == "store" and e.op in ("get_state", "set_state"):
                    r.ob(e.key == EVKEY, lambda e=e: mk_finding("SC-1", spec, "Next", cfg, p, "accumulator state addressed with %s instead of the event key" % show(e.key),
                                                                node=e.node, extra="key"))
            # the new accumulator is in the store before it is shown to anyone: the emission calls into the rest of the pipeline, which may
            # raise (the item then counts as folded or the key's later values are all short of it) or push the next item back in
            ws = [k for k, e in enumerate(p.trace) if e.k == "store" and e.op == "set_state"]
            es = [k for k, e in enumerate(p.trace) if e.k == "emit" and e.method == "on_next"]
            if ws and es:
                r.ob(max(ws) < min(es), lambda: mk_finding(
                    "SC-1", spec, "Next", cfg, p, "the running value is emitted before the accumulator is written back: an exception raised downstream (caught "
                    "here as this item's error) or an item pushed back synchronously finds the state of the previous item", extra="store-before-emit"))
        # ---- Completed -------------------------------------------------
        sk_mux_comp = set()
        for p in ctx.paths(spec, "Completed", cfg):
            r.paths += 1
            r.groups.add((spec.qualname, "Completed", cfg_str(cfg)))
            if not _normal(p) or not _feasible(p):
                continue
            sk = [x for x in _skeleton(p, "Completed", True)]
            sk_mux_comp.add(tuple(x for x in sk if x != "forward"))
            # decode expected sequence from the NOTSET decisions along the path
            decs = [e for e in p.trace if e.k == "decision" and e.test[0] == "cmp" and (_is_notset(e.test[2]) or _is_notset(e.test[3]))]
            want = []
            k = 0
            if term:
                fresh = decs[k].outcome == (decs[k].test[1] in ("Is", "Eq")) if k < len(decs) else False
                k += 1
                want += (["fresh-seed"] if fresh else []) + ["terminator(%s)" % ("seed" if fresh else "state"), "store(term)"]
                if not reduce_:
                    want.append("emit(term)")
            if reduce_:
                fresh = decs[k].outcome == (decs[k].test[1] in ("Is", "Eq")) if k < len(decs) else False
                k += 1
                want += (["fresh-seed"] if fresh else []) + ["emit(%s)" % ("seed" if fresh else ("term" if term else "state"))]
            want.append("forward")
            r.ob(sk == want and k == len(decs), lambda sk=sk, want=want: mk_finding(
                "SC-1", spec, "Completed", cfg, p, "the completion of a key must do %s; this path does %s" % (want, sk), extra="completed"))
        # ---- siblings --------------------------------------------------
        sk_obs_next = set()
        for p in ctx.paths(ospec_next, None, cfg):
            ra.paths += 1
            if _normal(p):
                sk_obs_next.add(tuple(x for x in _skeleton(p, None, False, accvar) if x != "store(other:True)"))
        sk_obs_comp = set()
        for p in ctx.paths(ospec_comp, None, cfg):
            ra.paths += 1
            if _normal(p):
                sk_obs_comp.add(tuple(x for x in _skeleton(p, None, False, accvar) if x not in ("store(other:True)", "on_completed")))
        ra.groups.add(("scan siblings", cfg_str(cfg)))
        # a sibling comparison is no verdict when one of the siblings goes through code the analysis could not resolve
        unres = next(({"unresolved": ctx.unresolved[s.qualname]} for s in (spec, ospec_next, ospec_comp) if s.qualname in ctx.unresolved), None)
        ra.ob(sk_mux_next == sk_obs_next, lambda: Finding(
            "AG-3", "scan_mux/scan_obs[Next]{%s}" % cfg_str(cfg), ospec_next.module.where(ospec_next.fn),
            "per-item behaviour differs between the multiplexed and the plain scan for %s: mux %s vs plain %s" % (
                cfg_str(cfg), sorted(sk_mux_next), sorted(sk_obs_next)), detail=unres))
        ra.ob(sk_mux_comp == sk_obs_comp, lambda: Finding(
            "AG-3", "scan_mux/scan_obs[Completed]{%s}" % cfg_str(cfg), ospec_comp.module.where(ospec_comp.fn),
            "completion behaviour differs between the multiplexed and the plain scan for %s: mux %s vs plain %s" % (
                cfg_str(cfg), sorted(sk_mux_comp), sorted(sk_obs_comp)), detail=unres))
        r.sample({"config": cfg, "next": sorted(map(list, sk_mux_next)), "completed": sorted(map(list, sk_mux_comp))})
    # AG-3b for scan: the plain sibling decides 'no accumulator yet' by a flag of its own (or a private marker), never by looking at
    # the accumulator, which holds user data (an accumulator may legitimately be None / False / 0)
    from .common import subscribe_inits
    sfn = obs.subscribe_fn
    init_false = {name for name, v in subscribe_inits(obs).items() if isinstance(v, ast.Constant) and v.value is False}
    for ospec in (ospec_next, ospec_comp):
        for cfg in valuations(ctx.space(ospec)):
            for p in ctx.paths(ospec, None, cfg):
                if not _normal(p):
                    continue
                fresh = any((e.k == "ucall" and e.name == "seed") or (e.k == "call" and e.func == ("glob", "copy.deepcopy")) for e in p.trace)
                folds = [e for e in p.trace if e.k == "ucall" and e.name != "seed"]
                if not folds:
                    continue
                guards = []
                for e in p.trace:
                    if e.k != "decision":
                        continue
                    tt, pol = e.test, e.outcome
                    while tt[0] == "not":
                        tt, pol = tt[1], not pol
                    frees = [x for x in subterms(tt) if x[0] == "free"]
                    if frees:
                        guards.append((e, tt, pol, frees))
                ra.groups.add(("scan_obs unset test", ospec.label, cfg_str(cfg), fresh))
                good, why = False, "no test of a closure variable decides between the seed and the accumulator"
                for e, tt, pol, frees in guards:
                    names = {x[1] for x in frees}
                    if accvar in names:
                        other = None
                        if tt[0] == "cmp" and tt[1] in ("Is", "IsNot"):
                            other = tt[3] if tt[2][0] == "free" else tt[2]
                        private = other is not None and other[0] == "modvar" and _private_marker(ctx, ospec.module, other)
                        if private:
                            # ... and the variable starts as that very marker: a marker the accumulator variable is never set to is never found
                            init = subscribe_inits(obs).get(accvar)
                            idn = dotted_name(init) if init is not None else None
                            if idn is None or idn.split(".")[-1] != str(other[1]).split(".")[-1]:
                                good, why = False, "'%s' looks for the marker %s in the accumulator variable, which starts as %s and is never set to that marker: " \
                                                   "the test never holds, so the first fold (or the terminator of an empty source) gets %s instead of the seed" % (
                                                       show(e.test), str(other[1]).split(".")[-1], ast.unparse(init) if init is not None else "nothing",
                                                       ast.unparse(init) if init is not None else "an unset variable")
                                break
                        if not private:
                            good, why = False, "'%s' looks at the accumulator itself: an accumulator equal to that value (user data) is taken for 'no accumulator yet' " \
                                               "or the other way round, while the multiplexed scan uses the private marker STATE_NOTSET" % show(e.test)
                            break
                        good = True
                    elif names <= init_false:
                        # a flag that starts False: 'flag false' must mean 'fresh seed'
                        flag_true = pol if tt[0] == "free" else (pol == (tt[1] in ("Is", "Eq")) if tt[0] == "cmp" and ("const", True) in (tt[2], tt[3]) else
                                                                  (pol != (tt[1] in ("Is", "Eq")) if tt[0] == "cmp" and ("const", False) in (tt[2], tt[3]) else None))
                        if flag_true is None:
                            good, why = False, "the test '%s' of the flag is not a truth test" % show(e.test)
                            break
                        good = flag_true != fresh
                        why = "the flag %s is %s on a path that %s" % (sorted(names), flag_true, "takes a fresh seed" if fresh else "folds from the stored accumulator")
                        if not good:
                            break
                ra.ob(good, lambda p=p, why=why, ospec=ospec, cfg=cfg: mk_finding("AG-3b", ospec, None, cfg, p, "scan on an Observable: %s" % why, extra="unset-test"))
                # the flag is raised whenever an accumulator is stored
                stored = [e for e in p.trace if e.k == "nonlocal" and e.name == accvar]
                raised = [e for e in p.trace if e.k == "nonlocal" and e.name in init_false and e.value == ("const", True)]
                if stored and init_false:
                    ra.ob(bool(raised), lambda p=p, ospec=ospec, cfg=cfg: mk_finding(
                        "AG-3b", ospec, None, cfg, p, "scan on an Observable stores an accumulator without raising its 'has accumulator' flag: the next item folds from the seed again",
                        extra="flag"))
    # the plain sibling must complete exactly once after its emissions
    for cfg in valuations(ctx.space(ospec_comp)):
        for p in ctx.paths(ospec_comp, None, cfg):
            ems = emissions(p)
            terms = [m for m in ems if m.method == "on_completed"]
            ra.ob(len(terms) == 1 and ems[-1] is terms[0], lambda: mk_finding(
                "AG-3", ospec_comp, None, cfg, p, "scan_obs.on_completed must end with exactly one on_completed: %s" % summary(p), extra="terminal"))
    r.require_instances(1)
    return [r, ra]


# ----------------------------------------------------------------------
# E5: effect classification of callbacks
MUT_KINDS = ("mutate", "substore", "subdel", "attrstore")


def root_of(t):
    while t[0] in ("sub", "attr", "mcall") and len(t) > 1 and isinstance(t[1], tuple):
        if t[0] == "mcall":
            break
        t = t[1]
    return t


def callback_effects(ctx: Ctx, module, fn):
    """{'param_mutations': {param: [eff]}, 'free_mutations': {name: [eff]}, 'returns': [terms], 'paths': n}"""
    paths = ctx.fn_paths(module, fn)
    pm, fm, rets = {}, {}, []
    for p in paths:
        for e in p.trace:
            if e.k in MUT_KINDS:
                rt = root_of(e.base)
                if rt[0] == "arg":
                    pm.setdefault(rt[1], []).append(e)
                elif rt[0] in ("free", "param", "modvar"):
                    fm.setdefault(rt[1], []).append(e)
            elif e.k == "nonlocal":
                fm.setdefault(e.name, []).append(e)
        if p.outcome == "return" and p.value is not None:
            rets.append(p.value)
    return {"param_mutations": pm, "free_mutations": fm, "returns": rets, "paths": len(paths)}


def _callable_def(ctx, m, node, encl, anywhere=False):
    """FunctionDef / Lambda for a callback argument, or None (external / parameter)."""
    if isinstance(node, ast.Lambda):
        return node
    if isinstance(node, ast.Name):
        d = _lookup_def(m, encl, node.id)
        if d is not None:
            return d
    dn = dotted_name(node) if (node is not None and anywhere) else None
    if dn is not None:
        # a function of another module (from ._common import sqrt_or_none): callers get its module with ctx.module_of
        try:
            ref = ctx.program.resolve_dotted(m, dn)
        except Exception:
            return None
        if ref[0] == "def":
            return ref[2]
    return None


def _resolved_op(ctx, m, call):
    dn = dotted_name(call.func)
    if dn is None:
        return None
    ref = ctx.program.resolve_dotted(m, dn)
    if ref[0] == "def":
        return "%s.%s" % (ref[1].name, ref[2].name)
    if ref[0] in ("ext", "unknown"):
        return ref[1]
    return None


def rule_pu1(ctx: Ctx, files=None, rule_id="PU-1") -> RuleResult:
    r = RuleResult(rule_id, "accumulators mutate neither the item nor free state; mappers downstream of a scan do not mutate the live accumulator")
    prog = ctx.program
    n_acc = n_down = 0
    for rel, m in sorted(prog.by_relpath.items()):
        if files is not None and rel not in files:
            continue
        for node in ast.walk(m.tree):
            if not isinstance(node, ast.Call):
                continue
            op = _resolved_op(ctx, m, node)
            encl = m.enclosing_function(node)
            if op == "rxsci.operators.scan.scan":
                acc = node.args[0] if node.args else None
                for kw in node.keywords:
                    if kw.arg == "accumulator":
                        acc = kw.value
                fn = _callable_def(ctx, m, acc, encl) if acc is not None else None
                if fn is None:
                    continue
                n_acc += 1
                r.instances += 1
                eff = callback_effects(ctx, m, fn)
                r.paths += eff["paths"]
                params = m.scopes[fn].params
                r.groups.add((m.qualname(fn),))
                item_params = params[1:]
                bad = [(p_, e) for p_, es in eff["param_mutations"].items() if p_ in item_params for e in es]
                r.ob(not bad, lambda: Finding(rule_id, "%s{item-mutation}" % m.qualname(fn), bad[0][1].where(),
                                              "the accumulator mutates its item argument '%s' (%s): other tee_map branches and later operators "
                                              "see the modified item" % (bad[0][0], bad[0][1].brief())))
                badf = [(n, e) for n, es in eff["free_mutations"].items() for e in es]
                r.ob(not badf, lambda: Finding(rule_id, "%s{free-state}" % m.qualname(fn), badf[0][1].where(),
                                               "the accumulator mutates free state '%s' (%s): that state is shared by all keys and lifetimes" % (
                                                   badf[0][0], badf[0][1].brief())))
            # pipes: a scan followed by map/filter callbacks in the same pipe(...)
            is_pipe = (isinstance(node.func, ast.Attribute) and node.func.attr == "pipe") or op == "rx.pipe"
            if not is_pipe:
                continue
            seen_scan = None
            for a in node.args:
                if not isinstance(a, ast.Call):
                    continue
                aop = _resolved_op(ctx, m, a)
                if aop is None:
                    continue
                if _is_scan_like(ctx, aop):
                    seen_scan = aop
                    continue
                if seen_scan and aop in ("rxsci.operators.map.map", "rxsci.operators.filter.filter", "rxsci.operators.starmap.starmap"):
                    cb = a.args[0] if a.args else None
                    fn = _callable_def(ctx, m, cb, encl) if cb is not None else None
                    if fn is None:
                        continue
                    n_down += 1
                    r.instances += 1
                    eff = callback_effects(ctx, m, fn)
                    r.paths += eff["paths"]
                    r.groups.add((m.qualname(fn),))
                    bad = [(p_, e) for p_, es in eff["param_mutations"].items() for e in es]
                    r.ob(not bad, lambda: Finding(
                        rule_id, "%s{accumulator-mutation}" % m.qualname(fn), bad[0][1].where(),
                        "'%s' is mapped over the output of %s and mutates its argument (%s); in streaming mode that argument is the live "
                        "accumulator kept in the state store, so every later value is computed from the damaged accumulator" % (
                            m.scopes[fn].qualname, seen_scan.split(".")[-1], bad[0][1].brief())))
                    if aop.endswith("map.map"):
                        # a mapper that changes the item type ends the exposure of the accumulator
                        seen_scan = None
    r.notes.append("%d accumulator(s) and %d callback(s) downstream of a scan classified" % (n_acc, n_down))
    if files is None:
        r.require_instances(18)
    return r


def _is_scan_like(ctx, opname):
    """Operators that emit their live accumulator: scan itself and thin wrappers returning scan(...)."""
    if opname == "rxsci.operators.scan.scan":
        return True
    return opname in ("rxsci.data.to_list.to_list", "rxsci.operators.count.count")


def _private_marker(ctx, m, t):
    from .ag import _is_private_marker
    return _is_private_marker(ctx, m, t)


def rule_sc2(ctx: Ctx) -> RuleResult:
    """The folds that count and collect: count adds exactly 1 per item whatever the item is; to_list / to_array add the item
    itself, once, at the end of the collection, and return that collection."""
    r = RuleResult("SC-2", "count adds exactly 1 per item whatever the item; to_list / to_array append the item itself, once, and return the collection")
    from .seq import _accumulator_of
    for rel, op, what in (("rxsci/operators/count.py", "count", "count"), ("rxsci/data/to_list.py", "to_list_mux", "collect"),
                          ("rxsci/data/to_array.py", "to_array", "collect")):
        m, call, accfn, seed, termfn = _accumulator_of(ctx, rel, op)
        if accfn is None:
            raise AnalysisError("SC-2: %s::%s: the accumulator is not a function defined in the module" % (rel, op))
        r.instances += 1
        params = m.scopes[accfn].params
        ACC, ITEM = ("arg", params[0]), ("arg", params[1])
        cid = "%s::%s{accumulator}" % (rel, op)
        for p in ctx.fn_paths(m, accfn):
            r.paths += 1
            r.groups.add((rel, len(r.groups)))
            if p.outcome != "return" or p.value is None:
                r.ob(p.outcome == "raise" and False, lambda: Finding("SC-2", cid, m.where(accfn), "an accumulator path returns no value", trace_of(p)))
                continue
            onitem = [e for e in p.trace if e.k == "decision" and any(x == ITEM for x in subterms(e.test))]
            r.ob(not onitem, lambda: Finding("SC-2", cid, onitem[0].where(), "%s treats items differently according to the test '%s' on the item: "
                                             "every item counts / is collected, whatever its value" % (op, show(onitem[0].test)), trace_of(p)))
            v = p.value
            muts = [e for e in p.trace if e.k == "mutate"]
            if what == "count":
                ok = v in (("binop", "Add", ACC, ("const", 1)), ("binop", "Add", ("const", 1), ACC)) and not muts
                r.ob(ok, lambda: Finding("SC-2", cid, m.where(accfn), "count must return its accumulator plus 1 for every item; it returns %s" % show(v), trace_of(p)))
                sd = _literal_seed(seed)
                r.ob(sd == 0 and type(sd) is int, lambda: Finding("SC-2", "%s::%s{seed}" % (rel, op), m.where(call), "count must start from the int 0; "
                                                                  "the seed is %s" % (ast.unparse(seed) if seed is not None else "missing")))
            else:
                adds = [e for e in muts if e.base == ACC and e.method == "append" and len(e.args) == 1 and e.args[0] == ITEM]
                ok = v == ACC and len(muts) == 1 and len(adds) == 1
                if not ok and not muts:
                    # acc + [i] builds a new collection: same contents
                    ok = v in (("binop", "Add", ACC, ("list", ITEM)),)
                r.ob(ok, lambda: Finding("SC-2", cid, m.where(accfn), "%s must append the item itself, once, to its accumulator and return the accumulator; "
                                         "it returns %s after %s" % (op, show(v), [e.brief() for e in muts] or "no mutation"), trace_of(p)))
    r.require_instances(3)
    return r


def _literal_seed(node):
    if isinstance(node, ast.Constant):
        return node.value
    return None


RULES = [rule_sd1, rule_sd2, rule_sc1, rule_sc2, rule_pu1]
