"""LV -- typestate of child keys in the five grouping heads (C03, C05, C06, C07).

For a generic child c of the handled (parent) key the analysis tracks
  P(c) in {dead, live}   the protocol state seen by the inner pipeline,
  S(c) in {dead, live}   the liveness recorded in the state store,
and checks the inductive invariant "while the parent is live S = P for every
child; while it is not, P = dead" on every path of every kind:

  kind              entry assumption            required
  Next              S = P (both values)         legal child events; S = P at exit
  parent Create     P = dead, S arbitrary       no child event; S = dead at exit for the whole family
  parent Completed  S = P (both values)         child events only for live children; P = dead for the
  / Error                                       whole family before the outer event, which comes last

The store value that encodes liveness is read through a per-operator liveness
table (frozen from reading, cross-checked against the Probe branch).
"""
from __future__ import annotations

import itertools

from ..classify import KEYIDX, linear_index, offset_range, ring_coverage
from ..engine import Ctx, Finding, RuleResult, cfg_str, trace_of
from ..loader import AnalysisError
from ..terms import EV, EVKEY, show, subterms
from .common import Emission, mk_finding

NOTSET = "rxsci.state.markers.STATE_NOTSET"

LIVENESS = [
    dict(rel="rxsci/data/split.py", suffix="split_mux._split.on_subscribe", state="state", kind="marker",
         why="split: a segment is open iff the stored predicate is set"),
    dict(rel="rxsci/data/time_split.py", suffix="time_split_mux._time_split.on_subscribe", state="state_start", kind="marker",
         why="time_split: a window is open iff its reference timestamp is set"),
    dict(rel="rxsci/data/roll.py", suffix="roll_mux._roll_count.subscribe", state="state", kind="count", dead=0, states=1,
         why="tumbling roll: a window is open iff the in-window counter is > 0 ('uint', default 0)"),
    dict(rel="rxsci/data/roll.py", suffix="roll_mux._roll.subscribe", state="state_w", kind="slot", dead=-1, states=2,
         why="sliding roll: a slot holds the start index of its open window, -1 when free (int, default -1)"),
    dict(rel="rxsci/operators/group_by.py", suffix="group_by_mux._group_by.on_subscribe", state="state", kind="mapper",
         why="group_by: a group is live iff its key is in the parent's map"),
]


def _is_state(t, name):
    return t is not None and t[0] == "free" and t[1] == name


def _is_notset(t):
    return t[0] == "modvar" and t[1] == NOTSET


class LV:
    def __init__(self, ctx: Ctx, entry: dict, r: RuleResult, rule_id="LV"):
        self.ctx = ctx
        self.e = entry
        self.r = r
        self.rule = rule_id
        self.site = ctx.site(entry["rel"], entry["suffix"], kind="mux", states=entry.get("states"))
        specs = self.site.handler_specs("on_next")
        if len(specs) != 1:
            raise AnalysisError("%s: expected one on_next handler" % self.site.name)
        self.spec = specs[0]
        self.kind = entry["kind"]
        # the liveness state variable is found by its role, not by its name
        if self.kind == "slot":
            from .grp import roll_state_names
            self.state = roll_state_names(ctx, self.site)[1]
        elif entry["rel"] == "rxsci/data/time_split.py":
            from .grp import time_split_state_names
            self.state = time_split_state_names(ctx, self.site, self.spec)[0]
        else:
            self.state = ctx.only_state(self.site)
        self.families = set()
        self.assumptions = []

    # ---- table cross-check ------------------------------------------
    def check_table(self):
        found = None
        for kind, cfg, paths in self.ctx.all_paths(self.spec, kinds=("Probe",)):
            for p in paths:
                for e in p.trace:
                    if e.k == "nonlocal" and e.name == self.state and e.value[0] == "stateid":
                        for t in p.trace:
                            if t.k == "topo" and t.result == e.value:
                                found = t
        if found is None:
            raise AnalysisError("liveness table: %s no longer creates state variable '%s' in its Probe branch" % (self.site.name, self.state))
        kw = dict(found.kwargs)
        dt = kw.get("data_type")
        dv = kw.get("default_value")
        k = self.kind
        ok = True
        if k == "mapper":
            ok = found.op == "create_mapper"
        elif k == "marker":
            ok = found.op == "create_state" and (dv is None or dv == ("const", None))
        elif k == "count":
            ok = dt == ("const", "uint") and dv == ("const", self.e["dead"])
        elif k == "slot":
            ok = dt == ("builtin", "int") and dv == ("const", self.e["dead"])
        self.r.ob(ok, lambda: Finding(self.rule, "%s{liveness-table}" % self.spec.qualname, found.where(),
                                      "the liveness state '%s' is declared as %s(data_type=%s, default_value=%s), which does not encode "
                                      "'%s'" % (self.state, found.op, show(dt) if dt else None, show(dv) if dv else None, self.e["why"])))

    # ---- child identification ---------------------------------------
    def child_of_state_key(self, op, key, extra):
        """Child addressed by a store operation on the liveness state; 'ALL' for whole-family ops."""
        if self.kind == "mapper":
            if op in ("get_map", "add_map", "del_map") and key == EVKEY and extra:
                return ("mapkey", extra[0])
            if op in ("add_key", "del_key") and _index_of_key(key) == KEYIDX:
                return "ALL"
            if op == "iterate_map":
                return None
            return ("unknown", key)
        idx = _index_of_key(key)
        if idx is None:
            return ("unknown", key)
        return ("idx", idx)

    def child_of_emission(self, idx):
        if self.kind == "mapper":
            if idx[0] == "store" and idx[1] in ("get_map", "add_map") and _is_state(idx[2], self.state) and idx[3] == EVKEY and idx[4]:
                return ("mapkey", idx[4][0])
            return ("unknown", idx)
        return ("idx", idx)

    def family_of(self, child, loop_iters):
        """single | ring(D) | map | None (cannot be classified -> ST-6 reports)"""
        if child[0] == "mapkey":
            return ("map",)
        if child[0] == "idx":
            li = linear_index(child[1], loop_iters)
            if li == ("keyidx",):
                return ("single",)
            if li is not None and li[0] == "scaled":
                if offset_range(li[2], li[1], loop_iters) is not None:
                    return ("ring", li[1])
        return None

    def _covers(self, child, fam, loop_iters):
        """Does handling this (generic) child handle every member of its family?"""
        if fam[0] == "ring":
            return child[0] == "idx" and ring_coverage(child[1], loop_iters)
        if fam[0] == "map":
            # generic group of a loop over iterate_map, or a whole-map reset
            lv = _loopvars(child)
            return bool(lv) and any(_is_iterate_map(loop_iters.get(l)) for l in lv)
        return True

    # ---- simulation --------------------------------------------------
    def run(self):
        r = self.r
        r.instances += 1
        self.check_table()
        created_families = set()
        per_kind = {}
        for kind, cfg, paths in self.ctx.all_paths(self.spec, kinds=("Next", "Create", "Completed", "Error")):
            for p in paths:
                r.paths += 1
                r.groups.add((self.spec.qualname, kind, cfg_str(cfg)))
                self.analyse_path(kind, cfg, p, created_families, per_kind)
        # family coverage: every family opened in Next must be reset at Create and flushed at Completed/Error
        for fam in sorted(created_families, key=str):
            for kind in ("Create", "Completed", "Error"):
                cov = per_kind.get((kind, fam), False)
                what = "re-initialised when the parent key is created" if kind == "Create" else "closed when the parent key ends (%s)" % kind
                r.ob(cov, lambda: Finding(self.rule, "%s[%s]{family-%s}" % (self.spec.qualname, kind, fam[0]),
                                          self.spec.module.where(self.spec.fn),
                                          "children of the family %s are opened while handling items but are not all %s" % (_fam_str(fam), what)))
        for a in self.assumptions:
            if a not in r.assumptions:
                r.assumptions.append(a)

    def analyse_path(self, kind, cfg, p, created_families, per_kind):
        r = self.r
        loop_iters = {}
        loop_of_var = {}
        for e in p.trace:
            if e.k == "loopiter" and e.iter is not None:
                loop_iters[e.loop] = e.iter
        # paths that skip a range() loop are not separate behaviours: the loop is the quantifier over slots
        skip = False
        for e in p.trace:
            if e.k == "loopexit" and e.n == 0 and e.iter is not None and e.iter[0] == "call" and e.iter[1] == ("builtin", "range"):
                skip = True
        # collect children in order of first appearance
        children = []
        for e in p.trace:
            c = self._child_of_effect(e, kind)
            if c is not None and c != "ALL" and c not in children:
                children.append(c)
        unknown = [c for c in children if c[0] == "unknown"]
        for c in unknown:
            r.ob(False, lambda: mk_finding(self.rule, self.spec, kind, cfg, p,
                                           "a child key or a liveness-state key cannot be related to the handled key: %s" % show(c[1]), extra="child-id"))
        children = [c for c in children if c[0] != "unknown"]
        if skip and kind != "Next":
            return
        if skip:
            # Next paths that skip the slot loop still must not emit wrongly before it; analyse them too
            pass
        # entry assumptions
        options = []
        for c in children:
            lv = _loopvars(c)
            if kind == "Create":
                opts = [("dead", "dead"), ("live", "dead")]          # (S, P): stale S, P dead
            elif lv and any(_is_iterate_map(loop_iters.get(l)) for l in lv):
                opts = [("live", "live")]
            else:
                opts = [("dead", "dead"), ("live", "live")]
            options.append(opts)
        feasible = 0
        for combo in itertools.product(*options) if options else [()]:
            st = {c: list(sp) for c, sp in zip(children, combo)}
            res = self._simulate(kind, cfg, p, st, loop_iters, created_families, per_kind, skip)
            if res:
                feasible += 1
        return feasible

    def _child_of_effect(self, e, kind):
        if e.k == "store" and _is_state(e.state, self.state):
            return self.child_of_state_key(e.op, e.key, e.extra)
        if e.k == "emit" and e.method == "on_next":
            m = Emission(e, kind, 0)
            if m.event is not None and m.event.keyclass[0] == "CHILD" and m.role == "down":
                return self.child_of_emission(m.event.keyclass[1])
        return None

    def _simulate(self, kind, cfg, p, st, loop_iters, created_families, per_kind, skip):
        """Returns False when the entry assumption is infeasible for this path."""
        r = self.r
        all_dead = False        # whole family reset by add_key/del_key on the parent key
        outer_seen = False
        reads = {}              # store read term -> child
        problems = []
        flushed_loops = set()
        assumed = set()

        def fail(msg, node, extra):
            problems.append((msg, node, extra))

        for e in p.trace:
            if e.k == "store" and _is_state(e.state, self.state):
                c = self.child_of_state_key(e.op, e.key, e.extra)
                if c == "ALL":
                    for k in st:
                        st[k][0] = "dead"
                    all_dead = True
                    fam = ("map",)
                    if kind == "Create":
                        per_kind[(kind, fam)] = True
                    continue
                if c is None or c[0] == "unknown":
                    continue
                if e.op in ("add_key", "del_key"):
                    st[c][0] = "dead"
                    if kind == "Create":
                        fam = self.family_of(c, loop_iters)
                        if fam is not None and self._covers(c, fam, loop_iters):
                            per_kind[(kind, fam)] = True
                elif e.op == "set_state":
                    v = e.extra[0] if e.extra else None
                    st[c][0] = self._liveness_of_value(v, reads, c)
                elif e.op == "add_map":
                    st[c][0] = "live"
                    reads[e.result] = ("index", c)
                elif e.op in ("get_state", "get_map"):
                    reads[e.result] = ("value", c)
            elif e.k == "decision":
                verdict = self._refine(e.test, e.outcome, st, reads)
                if verdict is False:
                    return False
            elif e.k == "emit" and e.method == "on_next":
                m = Emission(e, kind, 0)
                if m.event is None:
                    continue
                if m.role == "outer":
                    outer_seen = True
                    if kind in ("Completed", "Error"):
                        for c, (S, P) in st.items():
                            if P != "dead":
                                fail("the parent's %s is sent to the outer stream while child %s is still live downstream" % (kind, _child_str(c)), e.node, "outer-before-children")
                    continue
                if m.role != "down" or m.event.keyclass[0] != "CHILD":
                    continue
                c = self.child_of_emission(m.event.keyclass[1])
                if c[0] == "unknown":
                    continue
                if outer_seen and kind in ("Completed", "Error"):
                    fail("child event %s is emitted after the parent's %s reached the outer stream" % (m.brief(), kind), e.node, "after-outer")
                S, P = st[c]
                ek = m.event.kind
                if kind == "Create":
                    fail("child event %s is emitted while the parent key is being created" % m.brief(), e.node, "child-at-create")
                if ek == "Create":
                    if P != "dead":
                        if self._assume_free(c, p, loop_iters):
                            assumed.add(c)
                        else:
                            fail("creation of child %s while it may still be live downstream (no test shows it is closed)" % _child_str(c), e.node, "create-live")
                    st[c][1] = "live"
                    if kind == "Next":
                        fam = self.family_of(c, loop_iters)
                        if fam is not None:
                            created_families.add(fam)
                        else:
                            fail("the index of child %s is not ev.key[0], ev.key[0]*D + t with t in [0, D), nor an allocated group index: "
                                 "two live children may share a state slot" % _child_str(c), e.node, "index")
                elif ek == "Next" or (ek == "Error" and kind != "Error"):
                    if P != "live":
                        fail("%s for child %s which is not live downstream (no creation precedes it on this path and its stored "
                             "state says closed)" % (ek, _child_str(c)), e.node, "next-dead")
                elif ek == "Completed" or (ek == "Error" and kind == "Error"):
                    # a parent's mux error is propagated to its children as their terminal event
                    if P != "live":
                        fail("%s of child %s which is not live downstream" % ("completion" if ek == "Completed" else "terminal error", _child_str(c)), e.node, "complete-dead")
                    st[c][1] = "dead"
                    if kind in ("Completed", "Error"):
                        fam = self.family_of(c, loop_iters)
                        if fam is not None and self._covers(c, fam, loop_iters):
                            per_kind[(kind, fam)] = True
            elif e.k == "loopiter":
                # every child tracked so far must satisfy S = P so that the generic child may alias it
                for c, (S, P) in st.items():
                    if _loopvars(c) and e.loop in _loopvars(c):
                        continue
                    if not _loopvars(c) and S != P and S != "?" and kind == "Next":
                        fail("at the entry of the loop over children, child %s has stored liveness %s but is %s downstream" % (_child_str(c), S, P), e.node, "loop-entry")
        # an assumed-free slot must really have been live in this scenario to matter
        # exit obligations
        for c, (S, P) in st.items():
            if kind == "Next":
                if S != P:
                    fail("at the end of the item, child %s is %s downstream but its stored state says %s" % (
                        _child_str(c), P, "unknown" if S == "?" else S), p.trace[-1].node if p.trace else self.spec.fn, "exit-next")
            elif kind == "Create":
                if S != "dead" and not all_dead:
                    fail("after the creation of the parent key, stale state of child %s survives (stored state not reset)" % _child_str(c),
                         self.spec.fn, "exit-create")
            else:
                if P != "dead":
                    fail("after the parent's %s, child %s is still live downstream (never completed)" % (kind, _child_str(c)), self.spec.fn, "exit-completed")
        if kind in ("Completed", "Error"):
            # the single/ring/map families: a live child must get its completion; dead ones none.  The
            # "tested" families are recorded so that family coverage can be checked.
            for c in st:
                fam = self.family_of(c, loop_iters)
                if fam is not None and self._covers(c, fam, loop_iters):
                    per_kind[(kind, fam)] = True
            if all_dead and self.kind == "mapper":
                per_kind[(kind, ("map",))] = True
        for c in assumed:
            a = ("%s: when a window is opened (n %% stride == 0) the ring slot (n // stride) %% density is free, because "
                 "density = ceil(window / stride) (ring arithmetic is not decided statically)" % self.site.short)
            if a not in self.assumptions:
                self.assumptions.append(a)
        seen = set()
        for msg, node, extra in problems:
            if extra in seen:
                continue
            seen.add(extra)
            r.ob(False, lambda m=msg, n=node, x=extra: mk_finding(self.rule, self.spec, kind, cfg, p, m, node=n, extra=x))
        if not problems:
            r.ob(True)
        return True

    # ---- abstract values ---------------------------------------------
    def _liveness_of_value(self, v, reads, child):
        if v is None:
            return "?"
        k = self.kind
        if k == "marker":
            return "dead" if _is_notset(v) else "live"
        dead = self.e["dead"]
        from .linear import linform
        f = linform(v)
        if f is not None:
            co, c = f
            if not co:
                return "dead" if c == dead else "live"
            # values read from 'uint' counters are >= 0: a non-negative combination plus a constant > dead is live
            if all(a in reads or (a[0] == "store" and a[1] == "get_state") for a in co) and all(x > 0 for x in co.values()):
                if c > dead:
                    return "live"
                if k == "slot" and c >= 0:
                    return "live"
        return "?"

    def _refine(self, test, outcome, st, reads):
        """Use a decision to refine / contradict S.  Returns False if infeasible."""
        if test[0] != "cmp":
            return None
        op, a, b = test[1], test[2], test[3]
        if self.kind in ("marker", "mapper"):
            for x, y in ((a, b), (b, a)):
                if x in reads and reads[x][0] == "value" and _is_notset(y) and op in ("Is", "IsNot", "Eq", "NotEq"):
                    c = reads[x][1]
                    is_notset = outcome if op in ("Is", "Eq") else (not outcome)
                    want = "dead" if is_notset else "live"
                    if st[c][0] == "?":
                        st[c][0] = want
                        return True
                    return st[c][0] == want
            return None
        dead = self.e["dead"]
        for x, y, o in ((a, b, op), (b, a, _flip(op))):
            if x in reads and reads[x][0] == "value":
                yr = self._range_of(y)
                if yr is None:
                    continue
                c = reads[x][1]
                S = st[c][0]
                poss = _possible(o, yr, S, dead)
                if outcome not in poss:
                    return False
                if S == "?":
                    pd = _possible(o, yr, "dead", dead)
                    pl = _possible(o, yr, "live", dead)
                    if outcome in pd and outcome not in pl:
                        st[c][0] = "dead"
                    elif outcome in pl and outcome not in pd:
                        st[c][0] = "live"
                return True
        return None

    def _range_of(self, y):
        """(lo, hi) of a comparison operand: a numeric constant, or a factory parameter with a validated lower bound."""
        if y[0] == "const" and isinstance(y[1], (int, float)) and not isinstance(y[1], bool):
            return (y[1], y[1])
        if y[0] == "param" and y[1] in self._param_bounds():
            return (self._param_bounds()[y[1]], None)
        return None

    def _param_bounds(self):
        """window / stride are >= 1: roll() raises ValueError otherwise (checked on the source)."""
        if hasattr(self, "_pb"):
            return self._pb
        import ast
        self._pb = {}
        if self.e["rel"] == "rxsci/data/roll.py":
            m = self.site.module
            b = m.bindings.get("roll")
            if b is not None and b[0] == "def":
                for n in b[1].body:
                    if isinstance(n, ast.If) and len(n.body) == 1 and isinstance(n.body[0], ast.Raise):
                        t = ast.unparse(n.test)
                        for name in ("window", "stride"):
                            if t in ("%s <= 0" % name, "%s < 1" % name, "0 >= %s" % name):
                                self._pb[name] = 1
        return self._pb

    def _assume_free(self, c, p, loop_iters):
        """The one explicit assumption: the slot chosen for a new sliding window is free."""
        if self.kind != "slot" or c[0] != "idx":
            return False
        li = linear_index(c[1])
        if li is None or li[0] != "scaled":
            return False
        D, rest = li[1], li[2]
        # rest must be (n // stride) % density with n read from a 'uint' counter of the same key
        if not (rest[0] == "binop" and rest[1] == "Mod" and rest[3] == D):
            return False
        q = rest[2]
        if not (q[0] == "binop" and q[1] == "FloorDiv" and q[2][0] == "store" and q[2][1] == "get_state" and _index_of_key(q[2][3]) == KEYIDX):
            return False
        n, stride = q[2], q[3]
        # guarded by (n % stride) == 0
        mod = ("binop", "Mod", n, stride)

        def is_multiple(e):
            """the decision says n % stride == 0: as ==/!= 0 (either operand order) or as the truth value of n % stride"""
            t = e.test
            if t == mod:
                return not e.outcome
            if t[0] == "cmp" and t[1] in ("Eq", "NotEq") and {t[2], t[3]} == {mod, ("const", 0)}:
                return e.outcome == (t[1] == "Eq")
            return False
        if not any(e.k == "decision" and is_multiple(e) for e in p.trace):
            return False
        # density = ceil(window / stride) in the enclosing factory (shape check)
        return _density_is_ceil(self.site, D, stride)


def _density_is_ceil(site, D, stride):
    """D, the number of slots per key, is ceil(W / stride) for a factory parameter W: either D is that expression
    (a single-assignment constant of the factory, propagated by the executor) or D is a local of the factory computed
    by the two-statement idiom  D = W // stride; if W % stride: D += 1."""
    import ast
    from .linear import quotient_shape
    q = quotient_shape(D)
    if q is not None:
        co = dict(q[1][0])
        return q[0] == "ceil" and q[2] == stride and q[1][1] == 0 and len(co) == 1 and list(co.values()) == [1] \
            and list(co)[0][0] == "param"
    if D[0] != "free" or stride[0] != "param":
        return False
    name, owner, sname = D[1], D[2], stride[1]
    m = site.module
    fn = m.enclosing_function(site.subscribe_fn)
    while fn is not None and m.scopes[fn].qualname != owner:
        fn = m.enclosing_function(fn)
    if fn is None:
        return False
    params = set(m.scopes[fn].params)
    W = None
    a = b = False
    for st in fn.body:
        if isinstance(st, ast.Assign) and len(st.targets) == 1 and isinstance(st.targets[0], ast.Name) and st.targets[0].id == name:
            v = st.value
            if isinstance(v, ast.BinOp) and isinstance(v.op, ast.FloorDiv) and isinstance(v.left, ast.Name) and v.left.id in params \
                    and isinstance(v.right, ast.Name) and v.right.id == sname and not a:
                W = v.left.id
                a = True
            else:
                return False
        elif isinstance(st, ast.If) and not st.orelse and len(st.body) == 1 and W is not None:
            if ast.unparse(st.test) in ("%s %% %s" % (W, sname), "%s %% %s != 0" % (W, sname), "%s %% %s > 0" % (W, sname)) \
                    and ast.unparse(st.body[0]) in ("%s += 1" % name, "%s = %s + 1" % (name, name)):
                b = True
        elif any(isinstance(x, ast.Name) and x.id == name and isinstance(x.ctx, ast.Store) for x in ast.walk(st)
                 if not isinstance(st, (ast.FunctionDef, ast.Lambda))):
            if not isinstance(st, ast.FunctionDef):
                return False
    return a and b


def _index_of_key(key):
    if key is None:
        return None
    if key == EVKEY:
        return KEYIDX
    if key[0] == "tuple" and len(key) == 3 and key[2] == EVKEY:
        return key[1]
    return None


def _loopvars(c):
    return {x[1] for x in subterms(c) if x[0] == "loopvar"}


def _is_iterate_map(it):
    return it is not None and it[0] == "store" and it[1] == "iterate_map"


def _flip(op):
    return {"Lt": "Gt", "Gt": "Lt", "LtE": "GtE", "GtE": "LtE"}.get(op, op)


def _possible(op, yr, S, dead):
    """Possible outcomes of (v op y) for v dead (== dead) or live (v != dead, v >= 0; counters and start
    indices are unsigned) and y anywhere in the interval yr = (lo, hi), hi None = unbounded."""
    INF = float("inf")
    if S == "dead":
        vlo = vhi = dead
    elif S == "live":
        vlo, vhi = max(dead + 1, 0), INF
    else:
        return {True, False}
    ylo, yhi = yr[0], (INF if yr[1] is None else yr[1])
    out = set()
    if op == "Eq":
        if max(vlo, ylo) <= min(vhi, yhi):
            out.add(True)
        if not (vlo == vhi == ylo == yhi):
            out.add(False)
    elif op == "NotEq":
        if max(vlo, ylo) <= min(vhi, yhi):
            out.add(False)
        if not (vlo == vhi == ylo == yhi):
            out.add(True)
    elif op == "Lt":
        if vlo < yhi:
            out.add(True)
        if vhi >= ylo:
            out.add(False)
    elif op == "LtE":
        if vlo <= yhi:
            out.add(True)
        if vhi > ylo:
            out.add(False)
    elif op == "Gt":
        if vhi > ylo:
            out.add(True)
        if vlo <= yhi:
            out.add(False)
    elif op == "GtE":
        if vhi >= ylo:
            out.add(True)
        if vlo < yhi:
            out.add(False)
    else:
        return {True, False}
    return out


def _child_str(c):
    if c[0] == "mapkey":
        return "group(%s)" % show(c[1])
    return "index %s" % show(c[1])


def _fam_str(f):
    if f[0] == "ring":
        return "ev.key[0]*%s + [0, %s)" % (show(f[1]), show(f[1]))
    if f[0] == "single":
        return "ev.key[0]"
    return "group indices of the parent's map"


def rule_lv(ctx: Ctx, only=None, rule_id="LV") -> RuleResult:
    r = RuleResult(rule_id, "typestate of child keys (create / items / completion) in the grouping heads")
    for entry in LIVENESS:
        if only is not None and entry["suffix"] not in only:
            continue
        LV(ctx, entry, r, rule_id).run()
    r.require_instances(len(LIVENESS) if only is None else len(only))
    return r
