"""C02 -- state confinement per key lifetime: ST-1..ST-6, WC-1."""
from __future__ import annotations

import ast

from ..classify import KEYIDX, linear_index, offset_range, ring_coverage
from ..engine import Ctx, Finding, RuleResult, cfg_str, trace_of
from ..loader import AnalysisError
from ..terms import EV, EVKEY, show, subterms
from .common import Emission, emissions, is_grouping, mk_finding, mux_emissions
from .lv import _index_of_key
from .mx import classify_sites

CLOSURE_ROOTS = ("free", "param", "modvar", "glob", "bound")


def root_of(t):
    while t[0] in ("sub", "attr"):
        t = t[1]
    return t


def join_tables(ctx, spec):
    """Names of the closure containers of a join handler that are addressed by an index derived from the key."""
    names = set()
    for kind, cfg, paths in ctx.all_paths(spec, kinds=("Next", "Completed", "Create")):
        for p in paths:
            li_ = _loop_iters(p)
            for e in p.trace:
                if e.k == "substore" and e.base[0] == "free":
                    li = linear_index(e.index, li_)
                    if li is not None and li[0] == "scaled":
                        names.add(e.base[1])
    # tables grown in lock-step with them at key creation
    for kind, cfg, paths in ctx.all_paths(spec, kinds=("Create",)):
        for p in paths:
            apps = [e.base[1] for e in p.trace if e.k == "mutate" and e.method == "append" and e.base[0] == "free"]
            if names & set(apps):
                names |= set(apps)
    return names


def _range_skipped(p):
    """True if a for-loop over range(...) ran zero times on this path (the
    loop is the quantifier over slots, not an optional path)."""
    for e in p.trace:
        if e.k == "loopexit" and e.n == 0 and e.iter is not None and e.iter[0] == "call" and e.iter[1] == ("builtin", "range"):
            return True
    return False


def _loop_iters(p):
    return {e.loop: e.iter for e in p.trace if e.k == "loopiter" and e.iter is not None}


def state_vars(ctx: Ctx, spec):
    """{name: topo effect} for the state ids created in the Probe branch of a handler."""
    out = {}
    for kind, cfg, paths in ctx.all_paths(spec, kinds=("Probe",)):
        for p in paths:
            for e in p.trace:
                if e.k == "nonlocal" and e.value[0] == "stateid":
                    for t in p.trace:
                        if t.k == "topo" and t.result == e.value:
                            out[e.name] = t
    return out


# ----------------------------------------------------------------------
def rule_st1(ctx: Ctx) -> RuleResult:
    r = RuleResult("ST-1", "no per-key data in closures: mux handlers write no closure variable outside the Probe branch")
    classes = classify_sites(ctx)
    for site, cls in classes.items():
        if cls == "cast":
            continue
        for spec in site.handler_specs("on_next"):
            r.instances += 1
            allowed = {}
            if cls == "join":
                # the join tables: closure containers addressed by key[0]*n + <branch / slot> (covered by ST-5)
                for name in join_tables(ctx, spec):
                    allowed[name] = "tee_map join table (covered by ST-5)"
            for kind, cfg, paths in ctx.all_paths(spec, kinds=("Create", "Next", "Completed", "Error", "Other") if cls != "root" else (None,)):
                for p in paths:
                    r.paths += 1
                    r.groups.add((spec.qualname, kind, cfg_str(cfg)))
                    bad = None
                    for e in p.trace:
                        if e.k == "nonlocal":
                            bad = (e, "rebinds the closure variable '%s'" % e.name)
                        elif e.k in ("substore", "subdel", "mutate", "attrstore"):
                            base = e.base
                            rt = root_of(base)
                            if rt[0] in CLOSURE_ROOTS:
                                if rt[0] == "free" and rt[1] in allowed:
                                    continue
                                if rt[0] == "bound" and cls == "sources":
                                    continue
                                bad = (e, "mutates the closure object %s (%s)" % (show(base), e.brief()))
                        if bad:
                            break
                    r.ob(bad is None, lambda: mk_finding(
                        "ST-1", spec, kind, cfg, p,
                        "the handler %s while handling a %s event: data kept there is shared by all keys and all lifetimes" % (bad[1], kind),
                        node=bad[0].node, extra=(bad[0].d.get("name") or show(root_of(bad[0].d.get("base"))))))
    r.require_instances(28)
    return r


# ----------------------------------------------------------------------
def rule_st2_3_4(ctx: Ctx):
    r2 = RuleResult("ST-2", "every state id created in the Probe branch is add_key'd on every path of the key's creation")
    r3 = RuleResult("ST-3", "indices addressed during a lifetime are included in the indices initialised at creation")
    r4 = RuleResult("ST-4", "no state access after del_key on a path")
    classes = classify_sites(ctx)
    nstates = 0
    for site, cls in classes.items():
        if cls in ("cast", "root", "demux", "sources", "probe-drop"):
            continue
        for spec in site.handler_specs("on_next"):
            svars = state_vars(ctx, spec)
            if not svars:
                continue
            nstates += len(svars)
            r2.instances += len(svars)
            r3.instances += len(svars)
            r4.instances += 1
            init = {name: set() for name in svars}       # families initialised at Create
            for kind, cfg, paths in ctx.all_paths(spec, kinds=("Create",)):
                full = [p for p in paths if not _range_skipped(p)] or paths
                for p in full:
                    r2.paths += 1
                    r2.groups.add((spec.qualname, kind, cfg_str(cfg)))
                    li = _loop_iters(p)
                    for name in svars:
                        adds = [e for e in p.trace if e.k == "store" and e.op == "add_key" and e.state is not None
                                and e.state[0] == "free" and e.state[1] == name and not e.d.get("raised")]
                        r2.ob(bool(adds), lambda n=name: mk_finding(
                            "ST-2", spec, kind, cfg, p,
                            "state '%s' is not (re)initialised with add_key on this path of the key's creation: a reused key slot "
                            "keeps the value of its previous lifetime" % n, extra=n))
                        for e in adds:
                            fam = _family(_index_of_key(e.key), li)
                            if fam is not None and fam[0] == "ring" and not ring_coverage(_index_of_key(e.key), li):
                                r3.ob(False, lambda e=e, n=name: mk_finding(
                                    "ST-3", spec, kind, cfg, p, "state '%s' is initialised in a loop that does not enumerate all slots of the key's ring: %s" % (
                                        n, show(e.key)), node=e.node, extra=n + "-partial-init"))
                                fam = None
                            if fam is not None:
                                init[name].add(fam)
                            else:
                                r3.ob(False, lambda e=e, n=name: mk_finding(
                                    "ST-3", spec, kind, cfg, p, "add_key of state '%s' uses an index that cannot be related to the event key: %s" % (
                                        n, show(e.key)), node=e.node, extra=n + "-addkey"))
            for kind, cfg, paths in ctx.all_paths(spec, kinds=("Next", "Completed", "Error")):
                for p in paths:
                    r3.paths += 1
                    r3.groups.add((spec.qualname, kind, cfg_str(cfg)))
                    li = _loop_iters(p)
                    deleted = set()
                    for e in p.trace:
                        if e.k != "store" or e.state is None or e.state[0] != "free" or e.state[1] not in svars:
                            continue
                        name = e.state[1]
                        if e.op == "iterate_map":
                            continue
                        idx = _index_of_key(e.key)
                        fam = _family(idx, li)
                        ok = fam is not None and any(_included(fam, f) for f in init[name])
                        r3.ob(ok, lambda e=e, n=name, fam=fam: mk_finding(
                            "ST-3", spec, kind, cfg, p,
                            "%s of state '%s' addresses index %s, which is not among the indices initialised when the key is created (%s)" % (
                                e.op, n, show(idx) if idx is not None else show(e.key),
                                ", ".join(_fam_str(f) for f in sorted(init[n], key=str)) or "none"),
                            node=e.node, extra=n))
                        kk = (name, e.key)
                        if e.op == "del_key":
                            deleted.add(kk)
                        elif e.op in ("get_state", "set_state", "get_map", "add_map") and kk in deleted:
                            r4.ob(False, lambda e=e, n=name: mk_finding(
                                "ST-4", spec, kind, cfg, p, "%s of state '%s' after del_key of the same key on this path" % (e.op, n),
                                node=e.node, extra=n))
                    r4.ob(True)
                    r4.paths += 1
    r2.notes.append("%d state ids found in Probe branches" % nstates)
    r2.require_instances(ctx.scaled(18))
    r3.require_instances(ctx.scaled(18))
    return [r2, r3, r4]


def _family(idx, loop_iters):
    if idx is None:
        return None
    li = linear_index(idx, loop_iters)
    if li == ("keyidx",):
        return ("single",)
    if li is not None and li[0] == "scaled":
        if offset_range(li[2], li[1], loop_iters) is not None:
            return ("ring", li[1])
    return None


def _included(fam, init_fam):
    return fam == init_fam


def _fam_str(f):
    if f[0] == "ring":
        return "key[0]*%s + [0, %s)" % (show(f[1]), show(f[1]))
    return "key[0]"


# ----------------------------------------------------------------------
def rule_st5(ctx: Ctx) -> RuleResult:
    """tee_map join table: indices written during a lifetime are reset when it ends (or begins)."""
    r = RuleResult("ST-5", "tee_map join table: every slot written during a key lifetime is reset when the key is created (which covers a lifetime ended by an error) and never while an error passes; every store lands in the handled key's own slots")
    site = ctx.site("rxsci/operators/tee_map.py", "_process_many.subscribe_mux", kind="mux")
    specs = site.handler_specs("on_next")
    if len(specs) != 1 or not specs[0].bound:
        raise AnalysisError("tee_map.subscribe_mux: expected one on_next handler bound to the branch index")
    spec = specs[0]
    branch = next(iter(spec.bound.values()))
    r.instances += 1
    for cfgname in ("zip", "combine"):
        pass
    space = ctx.space(spec)
    from ..model import valuations
    for cfg in valuations(space):
        written = {}      # container -> set of index-set descriptors
        sample_node = {}
        for p in ctx.paths(spec, "Next", cfg):
            r.paths += 1
            li = _loop_iters(p)
            for e in p.trace:
                if e.k == "substore" and root_of(e.base)[0] == "free":
                    name = root_of(e.base)[1]
                    d = _slot_set(e.index, branch, li, p, guard_only=False)
                    if _clearing(e.value):
                        continue      # clearing writes (zip emission) are resets, not data
                    written.setdefault(name, set()).add(d)
                    sample_node[name] = e
        if not written:
            continue
        r.groups.add((spec.qualname, cfg_str(cfg)))
        reset = {name: set() for name in written}
        by_kind = {kind: {name: [] for name in written} for kind in ("Completed", "Create", "Error")}
        counts = {w[1] for ws in written.values() for w in ws if w[0] in ("range", "one")}
        # the loops that clear slots (by the statement they are): such a loop walks the n slots of the key, and running it zero times is not a
        # path of the program (there is at least one branch)
        reset_loops = set()
        for kind in ("Completed", "Create", "Error"):
            for p in ctx.paths(spec, kind, cfg):
                cur = None
                for e in p.trace:
                    if e.k == "loopiter":
                        cur = id(e.node)
                    elif e.k == "loopexit":
                        cur = None
                    elif cur is not None and e.k == "substore" and root_of(e.base)[0] == "free" and root_of(e.base)[1] in written and _clearing(e.value):
                        reset_loops.add(cur)
        for kind in ("Completed", "Create", "Error"):
            for p in ctx.paths(spec, kind, cfg):
                r.paths += 1
                fw = [m for m in mux_emissions(p) if m.event is not None and m.event.kind == kind]
                if not fw:
                    continue
                if any(e.k == "loopexit" and e.n == 0 and (id(e.node) in reset_loops or (
                        e.iter is not None and e.iter[0] == "call" and e.iter[1] == ("builtin", "range") and len(e.iter[2]) == 1 and e.iter[2][0] in counts))
                       for e in p.trace):
                    continue
                li = _loop_iters(p)
                here = {name: set() for name in written}
                for e in p.trace:
                    if e.k == "substore" and root_of(e.base)[0] == "free" and _clearing(e.value):
                        name = root_of(e.base)[1]
                        if name in reset:
                            d = _slot_set(e.index, branch, li, p, guard_only=True)
                            here[name].add(d)
                            if kind != "Error":
                                reset[name].add(d)
                for name in written:
                    by_kind[kind][name].append(here[name])      # what THIS forwarding path resets
        # every store into a join table addresses the slots of the key being handled (key[0]*n + ...): a store at an index that is not built on
        # the key's base lands in the slots of another key, whatever it was meant to reset
        tables = set(written)
        for kind in ("Next", "Completed", "Create", "Error"):
            for p in ctx.paths(spec, kind, cfg):
                li = _loop_iters(p)
                for e in p.trace:
                    if e.k == "substore" and e.base[0] == "free" and e.base[1] in tables:
                        d = _slot_set(e.index, branch, li, p, guard_only=False)
                        r.ob(d[0] != "unknown", lambda e=e, kind=kind: Finding(
                            "ST-5", "%s{%s,foreign-slot}" % (spec.qualname, root_of(e.base)[1]), e.where(),
                            "while handling a %s event the join table is written at %s, an index that is not one of the handled key's own slots key[0]*n + "
                            "[0, n): the store lands in the slots of another key, which may be in the middle of its lifetime (config %s)" % (
                                kind, show(e.index), cfg_str(cfg))))
        # a lifetime also ends with the key's error (every other stateful operator drops the key's state on OnErrorMux, the grouping heads
        # reopen the same key index afterwards): the reset must cover that end too -- at creation (which covers every end), or at both
        # completion and error
        # ... and not when a mux error passes: map / filter / scan emit OnErrorMux for ONE failing item of a key that stays alive (the error is
        # dropped or replaced downstream and the key goes on), so clearing the key's slots there wipes the values the other branches hold for a
        # lifetime that has not ended
        for name in written:
            for here in by_kind["Error"][name]:
                r.ob(not here, lambda n=name, here=here: Finding(
                    "ST-5", "%s{%s,cleared-on-error}" % (spec.qualname, n), sample_node[n].where(),
                    "join table '%s': slots %s are cleared while a mux error of the key is handled. A mux error is the failure of one item (map, filter, scan "
                    "emit it and the key goes on once the error is ignored or mapped downstream): the values and flags of the other branches are lost in "
                    "the middle of a lifetime (config %s)" % (n, ", ".join(_set_str(x) for x in sorted(here, key=str)), cfg_str(cfg))))
        for name, wsets in written.items():
            for w in wsets:
                if w[0] == "unknown" or not any(_covers(x, w) for x in reset[name]):
                    continue        # reported below
                # ... on every path of the kind that sends the event on (a reset under a condition -- only when the tables grow -- is no reset)
                at = {kind: bool(by_kind[kind][name]) and all(any(_covers(x, w) for x in here) for here in by_kind[kind][name]) for kind in by_kind}
                r.ob(at["Create"], lambda n=name, w=w, at=at: Finding(
                    "ST-5", "%s{%s,error-end}" % (spec.qualname, n), sample_node[n].where(),
                    "join table '%s': the slots %s of a key are reset when the key completes, but not -- on every path that sends the event on -- when it "
                    "is created, so a lifetime that ended with an error (a window of roll closed by a mux error) is not covered: the values the branches left behind are joined with the items of "
                    "the next lifetime served by the same key index (config %s)" % (n, _set_str(w), cfg_str(cfg)),
                    ["written in Next: %s[%s]" % (n, show(sample_node[n].index))]))
        for name, wsets in written.items():
            for w in wsets:
                ok = w[0] != "unknown" and any(_covers(x, w) for x in reset[name])
                r.ob(ok, lambda n=name, w=w: Finding(
                    "ST-5", "%s{%s}" % (spec.qualname, n), sample_node[n].where(),
                    "join table '%s': during a key lifetime the slots %s are written (one per branch), but when the lifetime "
                    "ends only %s %s reset: values of the other branches leak into the next lifetime served by the same key index "
                    "(config %s)" % (n, _set_str(w), ", ".join(_set_str(x) for x in sorted(reset[n], key=str)) or "no slots", "are" if reset[n] else "are",
                                     cfg_str(cfg)),
                    ["written in Next: %s[%s]" % (n, show(sample_node[n].index))]))
    r.require_instances(1)
    return r


def _clearing(v):
    """the stored value is a reset: None / False / 0, or -- for a slice store -- a sequence made of one of them ([None] * n, array('B', [False] * n),
    bytes(n))"""
    if v[0] == "const" and v[1] in (None, False, 0):
        return True
    if v[0] == "binop" and v[1] == "Mult":
        return any(x[0] == "list" and len(x) == 2 and _clearing(x[1]) for x in (v[2], v[3]))
    if v[0] == "call" and v[1] in (("glob", "array.array"), ("builtin", "list"), ("builtin", "tuple")) and v[2]:
        return _clearing(v[2][-1])
    if v[0] == "call" and v[1] in (("builtin", "bytes"), ("builtin", "bytearray")) and len(v[2]) == 1 and v[2][0][0] != "const":
        return True
    return False


def _slot_set(index, branch, loop_iters, p, guard_only):
    """Describe base*n + X as a set of slots of the key: ('range', n) | ('one', term) | ('unknown', index)."""
    if index[0] == "slice" and len(index) >= 3 and index[1] is not None and index[2] is not None and (len(index) < 4 or index[3] in (None, ("const", 1))):
        # table[key*D : key*D + D] = ...  -- the key's whole slice (the value's length is the assignment's own business: a list of
        # another length changes the table's length, which TM-5 / MS rules would see)
        lo = linear_index(index[1], loop_iters)
        if lo is not None and lo[0] == "scaled" and lo[2] == ("const", 0):
            from .linear import diff
            dd = diff(index[2], index[1])
            if dd is not None and dict(dd[0]) == {lo[1]: 1} and dd[1] == 0:
                return ("range", lo[1])
        return ("unknown", index)
    li = linear_index(index, loop_iters)
    if li is None or li[0] != "scaled":
        return ("unknown", index)
    D, rest = li[1], li[2]
    if rest == ("fullrange", D):
        return ("range", D)
    if rest == branch:
        # restricted by an equality guard on the branch index?
        for e in p.trace:
            if e.k == "decision" and e.outcome and e.test[0] == "cmp" and e.test[1] == "Eq":
                a, b = e.test[2], e.test[3]
                if a == branch or b == branch:
                    other = b if a == branch else a
                    return ("one", D, other)
        return ("range", D)     # every branch runs this code with its own index 0..n-1
    if offset_range(rest, D, loop_iters) is not None and rest[0] == "loopvar":
        return ("range", D)
    if rest[0] == "const":
        return ("one", D, rest)
    return ("unknown", index)


def _covers(reset, written):
    if reset[0] == "range" and written[0] in ("range", "one") and reset[1] == written[1]:
        return True
    if reset[0] == "one" and written[0] == "one" and reset == written:
        return True
    return False


def _set_str(s):
    if s[0] == "range":
        return "key[0]*%s + [0, %s)" % (show(s[1]), show(s[1]))
    if s[0] == "one":
        return "key[0]*%s + %s" % (show(s[1]), show(s[2]))
    return "<%s>" % show(s[1])


# ----------------------------------------------------------------------
def rule_st6(ctx: Ctx) -> RuleResult:
    r = RuleResult("ST-6", "child indices of grouping operators are injective (allocated, the parent's own, or parent*D + [0, D))")
    classes = classify_sites(ctx)
    for site, cls in classes.items():
        if cls != "grouping":
            continue
        for spec in site.handler_specs("on_next"):
            r.instances += 1
            svars = state_vars(ctx, spec)
            ring_D = set()
            for kind, cfg, paths in ctx.all_paths(spec, kinds=("Create",)):
                for p in paths:
                    li = _loop_iters(p)
                    for e in p.trace:
                        if e.k == "store" and e.op == "add_key":
                            fam = _family(_index_of_key(e.key), li)
                            if fam is not None and fam[0] == "ring":
                                ring_D.add(fam[1])
            for kind, cfg, paths in ctx.all_paths(spec, kinds=("Next", "Completed", "Error")):
                for p in paths:
                    r.paths += 1
                    r.groups.add((spec.qualname, kind, cfg_str(cfg)))
                    li = _loop_iters(p)
                    for m in mux_emissions(p, roles=("down",)):
                        if m.event is None or m.event.keyclass[0] != "CHILD":
                            continue
                        idx = m.event.keyclass[1]
                        ok = False
                        if idx[0] == "store" and idx[1] in ("add_map", "get_map") and idx[2] is not None and idx[2][0] == "free" \
                                and idx[2][1] in svars and idx[3] == EVKEY:
                            ok = True
                        else:
                            fam = _family(idx, li)
                            if fam == ("single",):
                                ok = True
                            elif fam is not None and fam[0] == "ring" and fam[1] in ring_D:
                                ok = True
                        r.ob(ok, lambda idx=idx, m=m: mk_finding(
                            "ST-6", spec, kind, cfg, p,
                            "child key index %s is not injective over live children: it must be an index allocated by add_map, the parent's "
                            "own index, or parent*D + t with t in [0, D) for the D slots initialised at creation" % show(idx),
                            node=m.eff.node, extra="index"))
    r.require_instances(ctx.scaled(5))
    return r


# ----------------------------------------------------------------------
def rule_wc1(ctx: Ctx) -> RuleResult:
    r = RuleResult("WC-1", "frame: only MemoryStore writes its arrays; the store is only called from mux on_next handlers")
    prog = ctx.program
    # the mux on_next handlers and every function they reach (a flush routine shared by the Completed and Error
    # branches, per-event functions chosen through a dispatch table, handlers handed to a shared operator template)
    from .common import reached_functions
    handler_fns = {f for f in reached_functions(ctx, mux_only=True)}
    for site in ctx.mux_sites():
        handler_fns.discard(site.subscribe_fn)
    ops = {"add_key", "del_key", "get_state", "set_state", "add_map", "del_map", "get_map", "iterate_map", "iterate_state"}
    for rel, m in sorted(prog.by_relpath.items()):
        for node in ast.walk(m.tree):
            if isinstance(node, ast.Call) and isinstance(node.func, ast.Attribute) and node.func.attr in ops \
                    and isinstance(node.func.value, ast.Attribute) and node.func.value.attr == "store":
                fn = m.enclosing_function(node)
                # allow helpers nested in / called from a handler: walk up
                f = fn
                ok = False
                while f is not None:
                    if f in handler_fns:
                        ok = True
                        break
                    f = m.enclosing_function(f)
                r.instances += 1
                r.ob(ok, lambda node=node, fn=fn: Finding(
                    "WC-1", "%s{store-call}" % m.qualname(fn) if fn is not None else rel, m.where(node),
                    "the state store is called outside a multiplexed on_next handler: the per-kind confinement argument does not cover this call"))
            if rel != "rxsci/state/memory_store.py" and isinstance(node, (ast.Assign, ast.AugAssign, ast.Delete)):
                targets = node.targets if isinstance(node, (ast.Assign, ast.Delete)) else [node.target]
                for t in targets:
                    base = t
                    while isinstance(base, ast.Subscript):
                        base = base.value
                    if isinstance(base, ast.Attribute) and base.attr in ("values", "free_slots", "next_index") and t is not base:
                        r.instances += 1
                        r.ob(False, lambda t=t: Finding("WC-1", "%s{array-write}" % rel, m.where(t),
                                                        "the store's arrays are written outside MemoryStore"))
    r.require_instances(60)
    return r


def rule_st7(ctx: Ctx) -> RuleResult:
    """ST-7: the default value of a state is stored, as the same object, in the slot of every key (MemoryStore.add_key):
    it must not be a mutable object built when the state is declared."""
    r = RuleResult("ST-7", "state defaults are immutable: a default_value built by a constructor or a container literal is one object shared by all keys and lifetimes")
    for site in ctx.mux_sites():
        for name, t in ctx.probe_states(site):
            kw = dict(t.kwargs)
            d = kw.get("default_value")
            if d is None:
                continue
            r.instances += 1
            r.groups.add((site.name, name))

            def mutable(x):
                if x[0] in ("list", "dict", "set", "comp"):
                    return True
                if x[0] == "call" and x[1][0] in ("builtin", "glob") and x[1][1].split(".")[-1] in (
                        "list", "dict", "set", "deque", "bytearray", "array", "defaultdict", "OrderedDict", "Counter"):
                    return True
                if x[0] == "tuple":
                    return any(mutable(y) for y in x[1:])
                return False
            r.ob(not mutable(d), lambda site=site, name=name, d=d, t=t: Finding(
                "ST-7", "%s{%s}" % (site.name, name), t.where(),
                "the state '%s' is declared with default_value=%s: the store puts this one object in the slot of every key, so what one key "
                "(or one lifetime of a key) adds to it is seen by all the others" % (name, show(d))))
    r.require_instances(ctx.scaled(3))
    return r


def rule_st8(ctx: Ctx) -> RuleResult:
    """Every store operation of a mux handler names a state id first and a key second: the state argument is never taken
    from the event, the key argument is (derived from) the event's key and never a state id."""
    r = RuleResult("ST-8", "every store call of a mux handler passes (state id, key ...): the state id does not come from the event, the key does")
    classes = classify_sites(ctx)
    for site, cls in classes.items():
        if cls in ("cast", "root", "demux", "sources", "probe-drop"):
            continue
        for spec in site.handler_specs("on_next"):
            svars = state_vars(ctx, spec)
            if not svars:
                continue
            r.instances += 1
            seen = set()
            for kind, cfg, paths in ctx.all_paths(spec, kinds=("Create", "Next", "Completed", "Error")):
                for p in paths:
                    r.paths += 1
                    for e in p.trace:
                        if e.k != "store" or e.state is None:
                            continue
                        sig = (id(e.node), kind)
                        if sig in seen:
                            continue
                        seen.add(sig)
                        r.groups.add((spec.qualname, e.op, len(r.groups)))
                        st_from_event = any(x == EV for x in subterms(e.state))
                        key_is_state = e.key is not None and (e.key[0] == "stateid" or (e.key[0] == "free" and e.key[1] in svars))
                        key_from_event = e.key is None or any(x == EV for x in subterms(e.key)) or e.op == "clear"
                        # the state argument IS one of the handler's state variables (None, a constant or a value computed on the way
                        # addresses no state, or somebody else's)
                        st_is_var = e.state[0] == "stateid" or (e.state[0] == "free" and e.state[1] in svars)
                        ok = not st_from_event and not key_is_state and key_from_event and st_is_var
                        r.ob(ok, lambda e=e, kind=kind, cfg=cfg, p=p: mk_finding(
                            "ST-8", spec, kind, cfg, p,
                            "%s is called with state = %s and key = %s: the first argument must be the state id created in the Probe branch and the second "
                            "the key of the event (the call fails, or addresses another state, when such an event arrives)" % (
                                e.op, show(e.state), show(e.key) if e.key is not None else None), node=e.node, extra="args"))
    r.require_instances(ctx.scaled(12))
    return r


RULES = [rule_st1, rule_st2_3_4, rule_st5, rule_st6, rule_st7, rule_st8, rule_wc1]
