"""C15 (framing), C16 (compression), C17 (incremental codecs): writer/reader
agreement, inclusive boundary comparisons, carry-over discipline, flush-before-
completion obligations."""
from __future__ import annotations

import ast

from ..engine import Ctx, Finding, RuleResult, cfg_str, trace_of
from ..loader import AnalysisError, dotted_name
from ..model import valuations
from ..terms import EV, show, subterms
from .common import emissions, mk_finding, summary
from .linear import linform, normalise_cmp


def _normal(p):
    return not any(e.d.get("raised") for e in p.trace) and p.outcome != "raise"


def _h(ctx, rel, suffix, which="on_next"):
    site = ctx.site(rel, suffix)
    specs = site.handler_specs(which)
    return site, (specs[0] if specs else None)


def _defaults(m, fn):
    a = fn.args
    pos = [x.arg for x in a.args]
    out = {}
    for name, d in zip(pos[len(pos) - len(a.defaults):], a.defaults):
        out[name] = ast.unparse(d)
    for x, d in zip(a.kwonlyargs, a.kw_defaults):
        if d is not None:
            out[x.arg] = ast.unparse(d)
    return out


def _consts(t):
    return [x[1] for x in subterms(t) if x[0] == "const"]


# ======================================================================
# C15
def _fold_num(t, params, atoms):
    """numeric value of an arithmetic / comparison term with the given parameter values and atom values; None if not foldable"""
    if t in atoms:
        return atoms[t]
    h = t[0]
    if h == "const":
        return t[1] if isinstance(t[1], (int, float, bool)) else None
    if h in ("param", "arg", "free"):
        return params.get(t[1])
    if h == "binop":
        a, b = _fold_num(t[2], params, atoms), _fold_num(t[3], params, atoms)
        if a is None or b is None:
            return None
        try:
            return {"Add": lambda: a + b, "Sub": lambda: a - b, "Mult": lambda: a * b, "Pow": lambda: a ** b, "FloorDiv": lambda: a // b,
                    "LShift": lambda: a << b, "Mod": lambda: a % b}[t[1]]()
        except Exception:
            return None
    if h == "unop" and len(t) == 3:
        a = _fold_num(t[2], params, atoms)
        return None if a is None else (-a if t[1] == "USub" else None)
    if h == "cmp":
        a, b = _fold_num(t[2], params, atoms), _fold_num(t[3], params, atoms)
        if a is None or b is None:
            return None
        return {"Gt": a > b, "GtE": a >= b, "Lt": a < b, "LtE": a <= b, "Eq": a == b, "NotEq": a != b}.get(t[1])
    if h == "not":
        a = _fold_num(t[1], params, atoms)
        return None if a is None else (not a)
    if h == "call" and t[1] == ("builtin", "int") and len(t[2]) == 1:
        return _fold_num(t[2][0], params, atoms)
    return None


def rule_fr1(ctx: Ctx):
    """line framing only (the CSV file reader is file.read -> decode -> line.unframe -> csv.load)"""
    return rule_framing(ctx)[0]


def _same_statement(a, b):
    return a is b or (getattr(a, "lineno", -1) == getattr(b, "lineno", -2) and getattr(a, "col_offset", -1) == getattr(b, "col_offset", -2)
                      and isinstance(a, ast.stmt) and isinstance(b, ast.stmt))


def rule_framing(ctx: Ctx):
    r = RuleResult("FR-1", "line framing: same delimiter written and split; carry-over kept and prepended; non-empty remainder flushed at completion")
    r2 = RuleResult("FR-2", "length-prefix framing: same prefix width / byte order defaults on both sides; payload after prefix; carry-over discipline")
    rc = RuleResult("CMP-2", "length-prefix unframe: the two 'enough bytes available' comparisons are inclusive (>=)")
    L = "rxsci/framing/line.py"
    # ---- line.frame ------------------------------------------------------
    from .common import settled_params, with_settled
    site, spec = _h(ctx, L, "frame._frame.on_subscribe")
    r.instances += 1
    wdelim = None
    wconsts = settled_params(ctx, L, "frame")
    for p in ctx.paths(spec, None, {}):
        r.paths += 1
        ems = [m for m in emissions(p) if m.method == "on_next"]
        ok = len(ems) == 1
        if ok:
            v = with_settled(ems[0].eff.arg, wconsts)
            cs = [c for c in _consts(v) if isinstance(c, str) and c != ""]
            has_item = any(x == EV for x in subterms(v))
            ok = has_item and len(cs) == 1
            if ok:
                wdelim = cs[0]
                # the delimiter follows the item
                ok = _item_then_delim(v)
        r.ob(ok, lambda: mk_finding("FR-1", spec, None, {}, p, "frame must emit item + delimiter exactly once per item; it emits %s" % summary(p), extra="frame"))
    # ---- line.unframe ------------------------------------------------------
    site, spec = _h(ctx, L, "unframe._unframe.on_subscribe")
    r.instances += 1
    rdelim = None
    rconsts = settled_params(ctx, L, "unframe")
    carry_names = set()
    for p in ctx.paths(spec, None, {}, max_iter=1):
        carry_names |= {e.name for e in p.trace if e.k == "nonlocal"}
    if len(carry_names) != 1:
        raise AnalysisError("line.unframe: expected one closure variable holding the unterminated remainder, found %s" % sorted(carry_names))
    CARRY = next(iter(carry_names))
    for p in ctx.paths(spec, None, {}, max_iter=1):
        r.paths += 1
        if not _normal(p):
            continue
        term = [mm for mm in emissions(p) if mm.method in ("on_error", "on_completed")]
        r.ob(not term, lambda term=term: mk_finding(
            "FR-1", spec, None, {}, p, "unframe signals %s while handling a chunk: a chunk of any content and length is legitimate, and after a terminal "
            "event the lines of this and of every later chunk are lost" % term[0].method, node=term[0].eff.node, extra="terminal"))
        splits = [e for e in p.trace if e.k == "call" and e.d.get("method") == "split" and e.base == EV]
        sarg = with_settled(splits[0].args[0], rconsts) if len(splits) == 1 and len(splits[0].args) == 1 else None
        ok = sarg is not None and sarg[0] == "const"
        if not ok:
            r.ob(False, lambda: mk_finding("FR-1", spec, None, {}, p, "the chunk must be split once on the line delimiter", extra="split"))
            continue
        rdelim = sarg[1]
        lines = splits[0].result
        # carry-over prepended to the first piece
        pre = [e for e in p.trace if e.k == "substore" and e.base == lines and e.index == ("const", 0)]
        ok = len(pre) == 1 and pre[0].value[0] == "binop" and pre[0].value[1] == "Add" and pre[0].value[2][0] == "free" and pre[0].value[2][1] == CARRY \
            and pre[0].value[3][0] == "sub" and pre[0].value[3][1] == lines and pre[0].value[3][2] == ("const", 0)
        r.ob(ok, lambda: mk_finding("FR-1", spec, None, {}, p,
                                    "the carry-over of the previous chunk must be prepended to the first piece of the new chunk (carry + lines[0]); "
                                    "writes: %s" % [e.brief() for e in pre], extra="prepend"))
        # new carry-over = last piece (lines[-1] or lines.pop()), on every path, after the prepend
        nl = [e for e in p.trace if e.k == "nonlocal" and e.name == CARRY]
        pops = [e for e in p.trace if e.k == "mutate" and e.base == lines and e.method == "pop" and not e.args]

        def is_last_piece(v):
            if any(x[0] == "sub" and x[1] == lines and x[2] == ("const", -1) for x in subterms(v)):
                return True
            return any(x == e.result for e in pops for x in subterms(v))
        ok = len(nl) == 1 and is_last_piece(nl[0].value) and (not pre or p.trace.index(nl[0]) > p.trace.index(pre[0]))
        if ok and pre and not pops:
            # ... and it must be READ after the prepend: in `lines[0], acc = acc + lines[0], lines[-1]` the right-hand side is evaluated
            # first, so for a chunk without delimiter (one piece) the carry-over is the piece without the previous carry-over
            ok = not _same_statement(nl[0].node, pre[0].node)
        r.ob(ok, lambda: mk_finding("FR-1", spec, None, {}, p, "the last (unterminated) piece must become the new carry-over; assignments: %s" % [e.brief() for e in nl], extra="carry"))
        # the carry-over is in place before the first line of the chunk is handed on: the subscriber may complete the source, or push the
        # next chunk, from inside that call, and the completion flush / the next chunk must find this chunk's remainder
        ems_ = [k for k, e in enumerate(p.trace) if e.k == "emit" and e.method == "on_next"]
        if nl and ems_:
            r.ob(p.trace.index(nl[-1]) < ems_[0], lambda: mk_finding(
                "FR-1", spec, None, {}, p, "the carry-over is updated after the lines of the chunk were emitted: a subscriber that completes the source (or feeds the "
                "next chunk) when it sees a line finds the remainder of the previous chunk -- the real tail is lost, an old one is delivered again",
                node=nl[-1].node, extra="carry-before-emit"))
        # complete lines: all pieces but the last, each emitted once, in order
        loops = [e for e in p.trace if e.k == "loopiter"]
        if loops:
            it = loops[0].iter
            def all_but_last(hi):
                # lines[:-1]  /  lines[0:len(lines) - 1]
                if hi == ("const", -1):
                    return True
                f2 = linform(hi) if hi is not None else None
                if f2 is None or f2[1] != -1 or len(f2[0]) != 1:
                    return False
                (atom2, co2), = f2[0].items()
                return co2 == 1 and atom2[0] == "call" and atom2[1] == ("builtin", "len") and atom2[2][0] == lines
            ok = it[0] == "sub" and it[1] == lines and it[2][0] == "slice" and it[2][1] in (None, ("const", 0)) and all_but_last(it[2][2])
            index_loop = False
            if not ok and it[0] == "call" and it[1] == ("builtin", "range") and len(it[2]) == 1:
                # for index in range(len(lines) - 1): emit lines[index]
                f_ = linform(it[2][0])
                if f_ is not None and f_[1] == -1 and len(f_[0]) == 1:
                    (atom, co_), = f_[0].items()
                    index_loop = ok = co_ == 1 and atom[0] == "call" and atom[1] == ("builtin", "len") and atom[2][0] == lines
            if not ok and it == lines:
                # the last piece was popped off before the loop
                ok = bool(pops) and p.trace.index(pops[0]) < p.trace.index(loops[0])
            ems = [m for m in emissions(p) if m.method == "on_next"]
            if index_loop:
                a_ = ems[0].eff.arg if len(ems) == 1 else None
                ok = ok and a_ is not None and a_[0] == "sub" and a_[1] == lines and a_[2] == loops[0].var
            else:
                ok = ok and len(ems) == 1 and ems[0].eff.arg[0] == "loopvar"
            r.ob(ok, lambda: mk_finding("FR-1", spec, None, {}, p, "every piece but the last must be emitted once, in order; loop over %s emits %s" % (show(it), summary(p)), extra="emit"))
    r.ob(wdelim is not None and wdelim == rdelim, lambda: Finding(
        "FR-1", "%s{delimiter}" % L, L + ":1", "frame writes the delimiter %r but unframe splits on %r" % (wdelim, rdelim)))
    site, spec = _h(ctx, L, "unframe._unframe.on_subscribe", "on_completed")
    if spec is None:
        r.ob(False, lambda: Finding("FR-1", "%s::unframe{on_completed}" % L, site.where(), "unframe has no completion handler: a trailing unterminated line is lost"))
    else:
        for p in ctx.paths(spec, None, {}):
            r.paths += 1
            ems = emissions(p)
            d = [e for e in p.trace if e.k == "decision"]
            nonempty = None
            for e in d:
                nf = normalise_cmp(e.test, e.outcome)
                if nf is not None and len(nf[1]) == 1 and nf[1][0][0][0] == "call" and nf[1][0][0][1] == ("builtin", "len"):
                    op, co, c = nf
                    s_ = 1 if co[0][1] > 0 else -1
                    op2 = op if s_ == 1 else {"GtE": "LtE", "LtE": "GtE", "Gt": "Lt", "Lt": "Gt"}.get(op, op)
                    c2 = c * s_
                    if (op2 == "Gt" and c2 == 0) or (op2 == "GtE" and c2 == -1) or (op2 == "NotEq" and c2 == 0):
                        nonempty = True
                    elif (op2 == "LtE" and c2 == 0) or (op2 == "Lt" and c2 == -1) or (op2 == "Eq" and c2 == 0):
                        nonempty = False
                elif e.test[0] == "free" and e.test[1] == CARRY:
                    nonempty = e.outcome
            if nonempty is None:
                r.ob(False, lambda: mk_finding("FR-1", spec, None, {}, p, "completion does not test whether a remainder is pending", extra="flush-test"))
            elif nonempty:
                ok = len(ems) == 2 and ems[0].method == "on_next" and ems[0].eff.arg[0] == "free" and ems[0].eff.arg[1] == CARRY and ems[1].method == "on_completed"
                r.ob(ok, lambda: mk_finding("FR-1", spec, None, {}, p, "a pending remainder must be delivered before completion; the handler does: %s" % summary(p), extra="flush"))
            else:
                ok = len(ems) == 1 and ems[0].method == "on_completed"
                r.ob(ok, lambda: mk_finding("FR-1", spec, None, {}, p, "without remainder only on_completed is due; the handler does: %s" % summary(p), extra="no-flush"))

    # ---- length prefix -----------------------------------------------------
    P = "rxsci/framing/length_prefix.py"
    m = ctx.program.module(P)
    mf, ffn = ctx.function(P, "frame")
    mu, ufn = ctx.function(P, "unframe")
    r2.instances += 1
    df, du = _defaults(mf, ffn), _defaults(mu, ufn)
    r2.ob(df.get("prefix_size") == du.get("prefix_size") and df.get("byteorder") == du.get("byteorder") and df.get("prefix_size") is not None,
          lambda: Finding("FR-2", "%s{defaults}" % P, mf.where(ffn), "frame defaults %s differ from unframe defaults %s" % (df, du)))
    site, spec = _h(ctx, P, "frame._frame.on_subscribe")
    for p in ctx.paths(spec, None, {}):
        r2.paths += 1
        if not _normal(p):
            continue
        ems = [e for e in emissions(p) if e.method == "on_next"]
        ok = len(ems) == 1
        if ok:
            v = ems[0].eff.arg
            ok = v[0] == "binop" and v[1] == "Add" and v[3] == EV and v[2][0] == "mcall" and v[2][2] == "to_bytes"
            if ok:
                pre = v[2]
                lenarg = any(x == ("call", ("builtin", "len"), (EV,), x[3] if len(x) > 3 else None) or (x[0] == "call" and x[1] == ("builtin", "len") and x[2][0] == EV)
                             for x in subterms(pre[1]))
                args = pre[3]
                a0 = args[0] if args and args[0][0] != "kw" else next((a[2] for a in args if a[0] == "kw" and a[1] == "length"), None)
                bo = [a for a in args if a[0] == "kw" and a[1] == "byteorder"] or ([args[1]] if len(args) > 1 and args[1][0] != "kw" else [])
                ok = lenarg and a0 is not None and a0[0] == "param" and a0[1] == "prefix_size" and bool(bo) and \
                    any(x[0] == "param" and x[1] == "byteorder" for x in subterms(bo[0]))
        r2.ob(ok, lambda: mk_finding("FR-2", spec, None, {}, p,
                                     "frame must emit len(item).to_bytes(prefix_size, byteorder) followed by the item; it emits %s" % (show(ems[0].eff.arg) if ems else "nothing"), extra="frame"))
    # the size guard of frame may only reject items whose length does not fit in prefix_size bytes: for every prefix size the
    # largest representable length 2**(8*prefix_size) - 1 must pass (the bound is folded numerically for prefix sizes 1, 2, 4, 8)
    for p in ctx.paths(spec, None, {}):
        if not _normal(p):
            continue
        errs = [e for e in emissions(p) if e.method == "on_error"]
        if not errs:
            continue
        LEN = ("call", ("builtin", "len"), (EV,))
        for e in p.trace:
            if e.k != "decision" or p.trace.index(e) > p.trace.index(errs[0].eff):
                continue
            from .seq import _no_epoch
            tt = _no_epoch(e.test)
            if not any(x == LEN for x in subterms(tt)):
                continue
            bad_for = []
            for ps in (1, 2, 4, 8):
                maxlen = 2 ** (8 * ps) - 1
                v = _fold_num(tt, {"prefix_size": ps}, {LEN: maxlen})
                if v is None:
                    raise AnalysisError("length_prefix.frame: the size guard %s cannot be folded for prefix_size=%d" % (show(e.test), ps))
                if bool(v) == e.outcome:
                    bad_for.append((ps, maxlen))
            r2.ob(not bad_for, lambda e=e, bad_for=bad_for, p=p: mk_finding(
                "FR-2", spec, None, {}, p, "the size guard '%s' (taken %s) rejects an item whose length still fits in the prefix: %s; such an item is "
                "representable and must be framed" % (show(e.test), e.outcome, ", ".join("prefix_size=%d, %d bytes" % x for x in bad_for)), node=e.node, extra="guard"))
    site, spec = _h(ctx, P, "unframe._unframe.on_subscribe")
    r2.instances += 1
    rc.instances += 1
    seen_avail = seen_payload = False
    carry_names = set()
    for p in ctx.paths(spec, None, {}, max_iter=1):
        carry_names |= {e.name for e in p.trace if e.k == "nonlocal"}
    if len(carry_names) != 1:
        raise AnalysisError("length_prefix.unframe: expected one closure variable holding the unconsumed bytes, found %s" % sorted(carry_names))
    CARRY = next(iter(carry_names))

    def is_size(k):
        return k[0] == "mcall" and k[2] == "from_bytes"

    def is_prefix(k):
        return k[0] == "param" and k[1] == "prefix_size"
    for p in ctx.paths(spec, None, {}, max_iter=2):
        r2.paths += 1
        rc.paths += 1
        if not _normal(p):
            continue
        view = ByteView(p)
        sizes = [e for e in p.trace if e.k == "call" and e.d.get("method") == "from_bytes"]
        frames = [mm for mm in emissions(p) if mm.method == "on_next"]
        # a chunk is any piece of the stream: unframe has nothing to refuse in it, and ends the stream only when its source does
        term = [mm for mm in emissions(p) if mm.method in ("on_error", "on_completed")]
        r2.ob(not term, lambda term=term: mk_finding(
            "FR-2", spec, None, {}, p, "unframe signals %s while handling a chunk (%s): how the stream is cut into chunks is not the sender's choice -- a chunk "
            "of any length is legitimate -- and after a terminal event the frames of this and of every later chunk are lost" % (
                term[0].method, "; ".join(e.brief() for e in p.trace if e.k == "decision")[:120]), node=term[0].eff.node, extra="terminal"))
        nl = [e for e in p.trace if e.k == "nonlocal" and e.name == CARRY]
        Pt = None
        for x in [t for e in sizes for a_ in e.args for t in subterms(a_)] + [t for e in p.trace if e.k == "decision" for t in subterms(e.test)]:
            if is_prefix(x):
                Pt = x
        if Pt is None:
            raise AnalysisError("length_prefix.unframe: the prefix_size parameter does not appear on a path")
        Pf = ({Pt: 1}, 0)

        def offset(k):
            """start of frame k: k prefixes and the k delivered payloads"""
            f = ({Pt: k} if k else {}, 0)
            for e_ in sizes[:k]:
                f = _ladd(f, ({e_.result: 1}, 0))
            return f
        bufs = set()
        # the parsed size uses prefix_size bytes at the start of the frame, and the byteorder parameter
        for k, e in enumerate(sizes):
            iv = view.resolve(e.args[0]) if e.args else None
            ok = iv is not None and iv[1] == offset(k) and iv[2] == _ladd(offset(k), Pf) and \
                any(x[0] == "param" and x[1] == "byteorder" for a_ in e.args[1:] for x in subterms(a_))
            if iv is not None:
                bufs.add(iv[0])
            r2.ob(ok, lambda e=e, k=k: mk_finding("FR-2", spec, None, {}, p,
                                                  "the size of frame %d must be parsed from the prefix_size bytes that start it (after the frames already "
                                                  "delivered), with the byteorder parameter: %s" % (k, e.brief()), node=e.node, extra="size"))
        # emitted payload k = the size_k bytes that follow prefix k
        for k, mm in enumerate(frames):
            iv = view.resolve(mm.eff.arg)
            ok = iv is not None and k < len(sizes) and iv[1] == _ladd(offset(k), Pf) and iv[2] == _ladd(_ladd(offset(k), Pf), ({sizes[k].result: 1}, 0))
            if iv is not None:
                bufs.add(iv[0])
            r2.ob(ok, lambda mm=mm: mk_finding("FR-2", spec, None, {}, p, "the emitted frame must be exactly 'size' bytes read after the prefix; emitted %s" % show(mm.eff.arg),
                                               node=mm.eff.node, extra="payload"))
        # carry-over = everything after the delivered frames
        if not p.truncated:
            iv = view.resolve(nl[0].value) if len(nl) == 1 else None
            ok = iv is not None and iv[1] == offset(len(frames)) and iv[2] is None
            if iv is not None:
                bufs.add(iv[0])
            r2.ob(ok, lambda: mk_finding("FR-2", spec, None, {}, p,
                                         "after parsing, exactly the unconsumed bytes (from offset = sum of prefix_size + size of the delivered frames) must become "
                                         "the carry-over; carry-over: %s" % [e.brief() for e in nl], extra="carry"))
        # one buffer: the carry-over followed by the new chunk
        parts = [view.parts(b_) for b_ in bufs]
        ok = len(bufs) == 1 and len(parts[0]) == 2 and parts[0][0][0] == "free" and parts[0][0][1] == CARRY and parts[0][1] == EV
        r2.ob(ok, lambda: mk_finding("FR-2", spec, None, {}, p, "the buffer must hold the carry-over followed by the new chunk; it holds %s" % [[show(x) for x in ps] for ps in parts], extra="buffer"))
        for pos, e in enumerate(p.trace):
            if e.k != "decision":
                continue
            nf0 = normalise_cmp(e.test, True)
            if nf0 is None:
                continue
            co0 = dict(nf0[1])
            ps = [k for k in co0 if is_prefix(k)]
            sz = [k for k in co0 if is_size(k)]
            others = [k for k in co0 if not is_prefix(k) and not is_size(k)]
            if (not ps and not sz) or len(others) != 1:
                continue
            # what follows decides whether this outcome means 'enough bytes': the loop goes on / the frame is emitted
            # the outcome means 'enough bytes' when the iteration goes on to do what needs them: parse the size
            # (prefix test) or emit the payload (payload test) before the loop is left
            start_ = pos + 1
            nx = p.trace[start_] if start_ < len(p.trace) else None
            cut_ = nx is not None and nx.k == "loopexit" and nx.d.get("cut")
            if nx is not None and nx.k == "loopiter":
                start_ += 1          # the test is the loop condition: its iteration starts right after it
            end_ = next((k_ for k_ in range(start_, len(p.trace)) if p.trace[k_].k in ("loopiter", "loopexit")), len(p.trace))
            seg = p.trace[start_:end_]
            cp0 = (-co0[ps[0]] * (1 if co0[others[0]] > 0 else -1)) if ps else 0
            is_payload_test = bool(sz) and cp0 == len(sz)
            if cut_:
                enough = True        # the enumeration stops here, the loop itself would go on
            elif is_payload_test:
                enough = any(x.k == "emit" and x.method == "on_next" for x in seg)
            else:
                enough = any(x.k == "call" and x.d.get("method") == "from_bytes" for x in seg)
            op, co, c = normalise_cmp(e.test, e.outcome)
            co = dict(co)
            ln = others[0]
            s_ = 1 if co[ln] > 0 else -1
            op2 = op if s_ == 1 else {"GtE": "LtE", "LtE": "GtE", "Gt": "Lt", "Lt": "Gt"}.get(op, op)
            # available = len - consumed, consumed = k*prefix_size + (sizes of the k delivered frames)
            # prefix test :  len - (k+1)*prefix_size - sum(k sizes)   >= 0
            # payload test:  len - (k+1)*prefix_size - sum(k+1 sizes) >= 0
            cp = (-co[ps[0]] * s_) if ps else 0
            shape = co[ln] * s_ == 1 and all(co[k] * s_ == -1 for k in sz) and c == 0
            # the frame the test is about: as many sizes were parsed before it as frames were started
            parsed = [x.result for x in p.trace[:pos] if x.k == "call" and x.d.get("method") == "from_bytes"]
            k_emitted = len([x for x in p.trace[:pos] if x.k == "emit" and x.method == "on_next"])
            if len(parsed) == k_emitted:
                # prefix test of frame k = number of frames delivered so far: len - (k+1)*prefix - (sizes of the k delivered frames) >= 0
                what = "prefix"
                seen_avail = True
                shape = shape and cp == k_emitted + 1 and set(sz) == set(parsed)
            else:
                # payload test of frame k (its size was just parsed): len - (k+1)*prefix - (sizes of frames 0..k) >= 0
                what = "payload"
                seen_payload = True
                shape = shape and cp == len(parsed) and set(sz) == set(parsed)
            want = "GtE" if enough else "Lt"
            rc.groups.add((what, enough, len(rc.groups)))
            rc.ob(op2 == want and shape, lambda e=e, what=what, op2=op2, enough=enough: mk_finding(
                "CMP-2", spec, None, {}, p,
                "the 'enough bytes for the %s' test '%s' (taken %s, %s) must amount to  available - needed >= 0  (inclusive): here the relation that holds is "
                "'buffer length ... %s 0'; a frame that ends exactly at the end of the buffer is not delivered until more data arrives (or never, at the end "
                "of the stream)" % (what, show(e.test), e.outcome, "frame delivered / loop continues" if enough else "loop left", op2),
                node=e.node, extra=what))
    if not (seen_avail and seen_payload) and not rc.findings:
        raise AnalysisError("length_prefix.unframe: the availability comparisons were not found")
    # completion: an incomplete trailing frame is never delivered
    for sub in site.subscriptions:
        h = sub.handlers.get("on_completed")
        r2.ob(h is not None and h.how == "forward" and h.method == "on_completed", lambda: Finding(
            "FR-2", "%s::unframe{on_completed}" % P, site.where(), "unframe must only forward completion (an incomplete trailing frame is never delivered)"))
    r.require_instances(2)
    r2.require_instances(2)
    rc.require_instances(1)
    return [r, r2, rc]


def _ladd(f, g, sign=1):
    co = dict(f[0])
    for k, v in g[0].items():
        co[k] = co.get(k, 0) + sign * v
    return ({k: v for k, v in co.items() if v != 0}, f[1] + sign * g[1])


class ByteView:
    """Byte buffers of one path, whatever the idiom: a BytesIO object written then read through its cursor
    (write / seek / read), the bytes it returns (getvalue), concatenations (a + b, b''.join([a, b])), slices.  Every term
    that denotes bytes taken from a buffer gets the interval [lo, hi) it covers (linear forms; hi None = to the end)."""

    def __init__(self, path):
        self.content = {}      # buffer object -> parts written, in order
        self.cursor = {}       # buffer object -> linear form
        self.interval = {}     # term -> (buffer, lo, hi)
        self.alias = {}        # term -> buffer object whose whole content it is
        self.unknown = set()   # buffers moved by a seek that is not understood
        zero = ({}, 0)
        for e in path.trace:
            if e.k == "mutate" and e.method == "write" and e.args:
                self.content.setdefault(e.base, []).append(e.args[0])
            elif e.k == "mutate" and e.method == "seek" and e.args:
                whence = e.args[1] if len(e.args) > 1 else None
                if whence is not None and whence[0] == "kw":
                    whence = whence[2]
                f = linform(e.args[0])
                if f is None or not (whence is None or whence == ("glob", "io.SEEK_SET") or whence == ("const", 0)):
                    self.unknown.add(e.base)
                else:
                    self.cursor[e.base] = f
            elif e.k == "call" and e.d.get("method") == "read":
                lo = self.cursor.get(e.base, zero)
                args = [a for a in e.args if a[0] != "kw"]
                n = linform(args[0]) if args else None
                hi = _ladd(lo, n) if n is not None else None
                self.interval[e.result] = (e.base, lo, hi)
                if hi is not None:
                    self.cursor[e.base] = hi
                else:
                    self.unknown.add(e.base)
            elif e.k == "call" and e.d.get("method") in ("getvalue", "getbuffer"):
                self.alias[e.result] = e.base

    def buffer_of(self, x):
        if x in self.alias:
            return self.alias[x]
        return x

    def parts(self, buf):
        if buf in self.content:
            return list(self.content[buf])
        if buf[0] == "binop" and buf[1] == "Add":
            return self.parts(buf[2]) + self.parts(buf[3])
        if buf[0] == "mcall" and buf[2] == "join" and buf[1][0] == "const" and buf[1][1] in (b"", "") and buf[3] and buf[3][0][0] in ("list", "tuple"):
            out = []
            for x in buf[3][0][1:]:
                out += self.parts(x)
            return out
        return [buf]

    def resolve(self, t):
        """(buffer, lo, hi) of a term denoting bytes of a buffer, or None"""
        if t in self.interval:
            b, lo, hi = self.interval[t]
            return None if b in self.unknown and False else (b, lo, hi)
        if t[0] == "sub" and t[2][0] == "slice" and len(t[2]) == 3:
            lo = linform(t[2][1]) if t[2][1] is not None else ({}, 0)
            hi = linform(t[2][2]) if t[2][2] is not None else None
            if lo is None or (t[2][2] is not None and hi is None):
                return None
            return (self.buffer_of(t[1]), lo, hi)
        return None


def _item_then_delim(v):
    """value is item followed by a constant delimiter (join([i, d]) or i + d)"""
    if v[0] == "binop" and v[1] == "Add":
        return v[2] == EV and v[3][0] == "const"
    if v[0] == "mcall" and v[2] == "join" and v[3] and v[3][0][0] in ("list", "tuple"):
        parts = v[3][0][1:]
        return len(parts) == 2 and parts[0] == EV and parts[1][0] == "const" and v[1] == ("const", "")
    return False


# ======================================================================
# C16
def _codec_skeleton(ctx, rel, fname, which):
    """summaries of the handler paths of <fname>._<fname>.on_subscribe.<which>"""
    site = ctx.site(rel, "%s._%s.on_subscribe" % (fname, fname))
    specs = site.handler_specs(which)
    if not specs:
        raise AnalysisError("%s::%s has no %s handler" % (rel, fname, which))
    spec = specs[0]
    out = []
    for cfg in valuations(ctx.space(spec)):
        for p in ctx.paths(spec, None, cfg):
            steps = []
            for e in p.trace:
                if e.k == "call" and e.d.get("method") in ("compress", "decompress", "flush"):
                    steps.append("%s(%s)%s" % (e.method, "item" if e.args and e.args[0] == EV else "", "!" if e.d.get("raised") else ""))
                elif e.k == "decision":
                    steps.append("[%s %s]" % ("eof" if any(x[0] == "attr" and x[2] == "eof" for x in subterms(e.test)) else "?", e.outcome))
                elif e.k == "emit":
                    arg = e.arg
                    what = ""
                    if e.method == "on_next":
                        what = "codec-output" if arg is not None and arg[0] == "mcall" and arg[2] in ("compress", "decompress", "flush") else "other"
                    steps.append("%s(%s)%s" % (e.method, what, "!" if e.d.get("raised") else ""))
                elif e.k == "except":
                    steps.append("except")
            out.append((spec, cfg, p, tuple(steps)))
    return site, out


def _eof_and_empty_facts(p, upto=None):
    """(eof, empty): what the decisions of the path (up to an effect) say about 'the codec reached its end-of-stream' and 'the chunk
    is empty'; None where the path says nothing"""
    eof = empty = None
    for e in p.trace:
        if upto is not None and e is upto:
            break
        if e.k != "decision":
            continue
        tt, pol = e.test, e.outcome
        while tt[0] == "not":
            tt, pol = tt[1], not pol
        if tt[0] == "attr" and tt[2] == "eof":
            eof = pol
            continue
        v = _nonempty_test(e.test, e.outcome, EV)
        if v in (True, False):
            empty = not v
    return eof, empty


def _ended_and_empty(p):
    eof, empty = _eof_and_empty_facts(p)
    return eof is True and empty is True


def _not_ended_or_not_empty(p, call):
    eof, empty = _eof_and_empty_facts(p, upto=call)
    return eof is False or empty is False


def rule_compression(ctx: Ctx):
    r1 = RuleResult("OB-1/2", "compression: every chunk goes through the one codec object and its output is emitted; flush output emitted before on_completed")
    r3 = RuleResult("OB-3", "decompress: completing without end-of-stream marker ends in on_error only; exactly one terminal per path")
    r5 = RuleResult("AG-5/6", "gzip wbits agree on both sides and carry the gzip flag; z and zstd have the same skeletons")
    skels = {}
    skips, guarded = {}, {}
    for rel in ("rxsci/compression/z.py", "rxsci/compression/zstd.py"):
        for fname in ("compress", "decompress"):
            meth = fname
            # codec object created once per subscription, in the subscribe function
            site = ctx.site(rel, "%s._%s.on_subscribe" % (fname, fname))
            r1.instances += 1
            var = "%sor object" % fname
            # the codec object: a local of the subscribe function assigned once, unconditionally, from a call (so one
            # object per subscription); the handlers must call that object and no other
            created, elsewhere = set(), set()
            for n in ast.walk(site.subscribe_fn):
                if isinstance(n, ast.Nonlocal):
                    elsewhere |= set(n.names)
                elif isinstance(n, ast.Assign):
                    top = n in site.subscribe_fn.body and len(n.targets) == 1 and isinstance(n.targets[0], ast.Name) and isinstance(n.value, ast.Call)
                    for t in n.targets:
                        for x in ast.walk(t):
                            if isinstance(x, ast.Name) and site.module.enclosing_function(n) is site.subscribe_fn:
                                (created if top else elsewhere).add(x.id)
            created -= elsewhere
            # ... also when the creation is written under a test the subscribe function decides the same way on every path (an option
            # of the operator at its default): assigned exactly once on every path, from a call
            per = []
            for p_ in ctx.fn_paths(site.module, site.subscribe_fn):
                cnt = {}
                for e in p_.trace:
                    if e.k == "assign":
                        cnt.setdefault(e.name, []).append(e.value)
                per.append(cnt)
            if per:
                created |= {n_ for n_ in per[0] if n_ not in elsewhere - {n_} and all(
                    len(c.get(n_, [])) >= 1 and all(v_[0] in ("call", "mcall") for v_ in c[n_]) for c in per)
                    and not any(isinstance(x, ast.Nonlocal) and n_ in x.names for x in ast.walk(site.subscribe_fn))}
            # ... or a slot of a state holder created there (state.codec = zlib.decompressobj(...))
            from .common import subscribe_inits
            created |= {name for name, v in subscribe_inits(site).items() if ("." in name or "[" in name) and isinstance(v, ast.Call)}
            used = set()
            for which in ("on_next", "on_completed"):
                if not site.handler_specs(which):
                    hows = {h.how for s_ in site.subscriptions for k_, h in s_.handlers.items() if k_ == which}
                    if which == "on_completed" and hows and hows <= {"forward", "absent"}:
                        # the end of the source goes to the subscriber as it comes: nothing the codec still holds is flushed, and a
                        # stream that stops before its end-of-stream marker completes like a whole one
                        r1.ob(False, lambda: Finding(
                            "OB-1", "%s::%s{completion-unhandled}" % (rel, fname), site.where(),
                            "%s hands the completion of its source to the subscriber without a handler of its own (%s): %s" % (
                                fname, "/".join(sorted(hows)), "the last bytes the compressor holds are never emitted" if fname == "compress" else
                                "a stream cut before its end-of-stream marker completes like a whole one instead of ending in on_error")))
                        skels[(rel, fname, which)] = ["<no handler>"]
                        continue
                site, sk = _codec_skeleton(ctx, rel, fname, which)
                skels[(rel, fname, which)] = sorted(s[3] for s in sk)
                for spec, cfg, p, steps in sk:
                    r1.paths += 1
                    r1.groups.add((rel, fname, which, steps))
                    ems = emissions(p)
                    raised = any(e.d.get("raised") for e in p.trace)
                    # every codec call is on the one codec object
                    for e in p.trace:
                        if e.k == "call" and e.d.get("method") in ("compress", "decompress", "flush"):
                            used.add(e.base)
                            r1.ob(e.base[0] == "free" and e.base[1] in created, lambda e=e: mk_finding(
                                "OB-1", spec, None, cfg, p, "%s is called on %s instead of the subscription's %s" % (e.method, show(e.base), var), node=e.node, extra="object"))
                    if which == "on_next":
                        if raised:
                            ok = ems and ems[-1].method == "on_error" and len([x for x in ems if not x.raised]) == 1
                            r1.ob(bool(ok), lambda: mk_finding("OB-1", spec, None, cfg, p, "a codec failure must surface as exactly one on_error: %s" % summary(p), extra="error"))
                        else:
                            calls = [e for e in p.trace if e.k == "call" and e.d.get("method") == meth]
                            if not calls and not ems and fname == "decompress" and _ended_and_empty(p):
                                # an empty chunk after the end of the compressed stream: nothing to decode, nothing to emit
                                skips[(rel, fname)] = skips.get((rel, fname), 0) + 1
                                r1.ob(True)
                                continue
                            if calls and fname == "decompress":
                                guarded[(rel, fname)] = guarded.get((rel, fname), True) and _not_ended_or_not_empty(p, calls[0])
                            ok = len(calls) == 1 and tuple(calls[0].args) == (EV,) and len(ems) == 1 and ems[0].method == "on_next" and ems[0].eff.arg == calls[0].result
                            r1.ob(ok, lambda: mk_finding("OB-1", spec, None, cfg, p,
                                                         "every chunk must be passed once to the %s's %s and the result emitted; this path: %s" % (var, meth, list(steps)), extra="chunk"))
                    else:
                        terms = [x for x in ems if x.method in ("on_completed", "on_error")]
                        eof = [e for e in p.trace if e.k == "decision" and any(x[0] == "attr" and x[2] == "eof" for x in subterms(e.test))]
                        if raised:
                            ok = len([t for t in terms if not t.raised]) == 1 and ems[-1].method == "on_error"
                            r3.ob(ok, lambda: mk_finding("OB-3", spec, None, cfg, p, "a failure while finishing must end in exactly one on_error: %s" % summary(p), extra="error"))
                            continue
                        r3.paths += 1
                        r3.ob(len(terms) == 1 and ems[-1] is terms[0], lambda: mk_finding(
                            "OB-3", spec, None, cfg, p, "exactly one terminal event, last, on every normal path; this path: %s" % summary(p), extra="one-terminal"))
                        at_eof = True
                        if fname == "decompress":
                            if not eof:
                                r3.ob(False, lambda: mk_finding("OB-3", spec, None, cfg, p,
                                                                "completion is not conditioned on the decompressor's end-of-stream flag: a truncated stream completes normally", extra="eof-test"))
                                continue
                            t = eof[0].test
                            truthy = eof[0].outcome
                            at_eof = truthy if t[0] == "attr" else (truthy if not (t[0] == "not") else not truthy)
                        if at_eof:
                            fl = [e for e in p.trace if e.k == "call" and e.d.get("method") == "flush"]
                            outs = [x for x in ems if x.method == "on_next"]
                            ok = len(fl) == 1 and len(outs) == 1 and outs[0].eff.arg == fl[0].result and terms and terms[0].method == "on_completed" \
                                and outs[0].pos < terms[0].pos
                            r1.ob(ok, lambda: mk_finding("OB-2", spec, None, cfg, p,
                                                         "at completion the codec must be flushed and the flushed bytes emitted before on_completed; this path: %s" % list(steps), extra="flush"))
                        else:
                            ok = len(ems) == 1 and ems[0].method == "on_error"
                            r3.ob(ok, lambda: mk_finding("OB-3", spec, None, cfg, p,
                                                         "a stream that ends before its end-of-stream marker must end in on_error only; this path: %s" % summary(p), extra="truncated"))
            r1.ob(len(used) == 1, lambda: Finding("OB-1", "%s::%s{codec-object}" % (rel, fname), site.where(),
                                                  "the handlers must use one %s created once per subscription in the subscribe function; they call %s" % (
                                                      var, sorted(show(u) for u in used))))
    # OB-4 library fact: a zstandard decompressobj raises ("cannot use a decompressobj multiple times") on ANY call made after its frame
    # ended, even with b''; zlib's accepts it.  A re-chunking of the compressed bytes may end with an empty chunk, so the zstd
    # handler must not hand an empty chunk to the decompressor once the stream has ended.
    r4 = RuleResult("OB-4", "zstd.decompress: an empty chunk that arrives after the end of the compressed stream is ignored (the zstandard object raises on any "
                            "call after its frame ended), so that every re-chunking, also one that ends with an empty chunk, completes")
    r4.instances += 1
    zs = ("rxsci/compression/zstd.py", "decompress")
    r4.ob(skips.get(zs, 0) >= 1 and guarded.get(zs, False), lambda: Finding(
        "OB-4", "rxsci/compression/zstd.py::decompress{after-eof}", "rxsci/compression/zstd.py:1",
        "every chunk, also an empty one that follows the last byte of the frame, is handed to the zstandard decompression object, which raises ZstdError "
        "once its frame has ended: the stream [compressed, b''] ends with on_error instead of completing (the same bytes in one chunk complete)"))

    def _strip(sk_list):
        # the 'ended and empty: ignore' path and the guard decisions in front of the codec call are not part of the shared skeleton
        out = []
        for s in sk_list:
            s2 = tuple(x for x in s if not x.startswith("["))
            if s2:
                out.append(s2)
        return sorted(set(out))
    # AG-6 sibling codecs
    for fname in ("compress", "decompress"):
        for which in ("on_next", "on_completed"):
            a = skels[("rxsci/compression/z.py", fname, which)]
            b = skels[("rxsci/compression/zstd.py", fname, which)]
            if which == "on_next":
                a, b = _strip(a), _strip(b)
            r5.instances += 1
            r5.groups.add((fname, which))
            r5.ob(a == b, lambda a=a, b=b, fname=fname, which=which: Finding(
                "AG-6", "z/zstd %s.%s" % (fname, which), "rxsci/compression/zstd.py:1",
                "z.%s and zstd.%s differ in their %s handler: z %s vs zstd %s" % (fname, fname, which, a, b)))
    # AG-5 wbits
    zm = ctx.program.module("rxsci/compression/z.py")
    global _WBITS_MODULE
    _WBITS_MODULE = zm
    wb = {}
    for n in ast.walk(zm.tree):
        if isinstance(n, ast.Call) and dotted_name(n.func) in ("zlib.compressobj", "zlib.decompressobj"):
            for kw in n.keywords:
                if kw.arg == "wbits":
                    wb[dotted_name(n.func)] = (_fold_wbits(kw.value), n)
            if dotted_name(n.func) == "zlib.decompressobj" and n.args:
                wb[dotted_name(n.func)] = (_fold_wbits(n.args[0]), n)
            # compressobj(level, method, wbits, ...): the window is the third positional argument
            if dotted_name(n.func) == "zlib.compressobj" and len(n.args) >= 3:
                wb[dotted_name(n.func)] = (_fold_wbits(n.args[2]), n)
    r5.instances += 1
    vals = {k: v[0] for k, v in wb.items()}
    ok = set(vals) == {"zlib.compressobj", "zlib.decompressobj"} and len(set(vals.values())) == 1 and \
        all(isinstance(v, int) and 25 <= v <= 31 for v in vals.values())
    r5.ob(ok, lambda: Finding("AG-5", "rxsci/compression/z.py{wbits}", "rxsci/compression/z.py:1",
                              "compressobj and decompressobj must use the same wbits with the gzip flag (MAX_WBITS | 16 = 31); found %s" % vals))
    r1.require_instances(4)
    r5.require_instances(5)
    return [r1, r3, r4, r5]


_WBITS_MODULE = None


def _fold_wbits(node):
    if isinstance(node, ast.Constant) and isinstance(node.value, int):
        return node.value
    if isinstance(node, ast.Attribute) and dotted_name(node) == "zlib.MAX_WBITS":
        return 15
    if isinstance(node, ast.Name) and _WBITS_MODULE is not None:
        b = _WBITS_MODULE.bindings.get(node.id)
        if b is not None and b[0] == "assign" and _WBITS_MODULE.bind_count.get(node.id, 0) == 1:
            return _fold_wbits(b[1])
    if isinstance(node, ast.BinOp):
        a, b = _fold_wbits(node.left), _fold_wbits(node.right)
        if a is None or b is None:
            return None
        if isinstance(node.op, ast.BitOr):
            return a | b
        if isinstance(node.op, ast.Add):
            return a + b
    if isinstance(node, ast.UnaryOp) and isinstance(node.op, ast.USub):
        a = _fold_wbits(node.operand)
        return -a if a is not None else None
    return None


# ======================================================================
# C17
def rule_codec(ctx: Ctx):
    r = RuleResult("CD-1", "encode/decode: one incremental codec per subscription from the encoding parameter; every item goes through it; final flush before completion")
    rel = "rxsci/data/codec.py"
    sk = {}
    for fname, meth, getter, empty in (("encode", "encode", "codecs.getincrementalencoder", ""), ("decode", "decode", "codecs.getincrementaldecoder", b"")):
        m, fn = ctx.function(rel, fname)
        d = _defaults(m, fn)
        r.instances += 1
        r.ob(d.get("incremental") == "True", lambda: Finding("CD-1", "%s::%s{default}" % (rel, fname), m.where(fn),
                                                             "%s must default to incremental=True (chunk boundaries may cut multi-byte sequences)" % fname))
        site = ctx.site(rel, "%s._%s.on_subscribe" % (fname, fname))
        var = "the subscription's incremental %sr" % fname[:-1]
        from .common import settled_params, with_settled
        settled = settled_params(ctx, rel, fname)

        def is_codec(t, getter=getter):
            """codecs.getincremental*(encoding)() built from the encoding parameter"""
            # the codec object may be given the error scheme, as long as it is the default one ('strict': library fact), literally or
            # through a parameter every caller in the repository leaves at 'strict'
            extra = [with_settled(a[2] if a[0] == "kw" else a, settled) for a in t[2]] if t[0] == "call" else []
            return t[0] == "call" and t[1][0] == "call" and t[1][1] == ("glob", getter) and all(x == ("const", "strict") for x in extra) and len(extra) <= 1 \
                and t[1][2] and t[1][2][0][0] == "param" and t[1][2][0][1] == "encoding"

        def codec_base(base, env):
            """the receiver is the codec object created by the subscribe function (directly, or the closure variable
            that holds it)"""
            if is_codec(base):
                return True
            return base[0] == "free" and base[1] in env and is_codec(env[base[1]])
        # creation: with incremental=True, from codecs.getincremental*(encoding)(), once per subscription
        env_inc = ctx.handlers_for(site, {"incremental": "True"}).get("_env", {})
        made = any(is_codec(x) for v in env_inc.values() for x in [v] + list(subterms(v)))
        r.ob(made, lambda: Finding("CD-1", "%s::%s{codec-object}" % (rel, fname), site.where(),
                                   "with incremental=True one %s()(...) object must be created per subscription from the encoding parameter" % getter))
        for which in ("on_next", "on_completed"):
            for cfg in ({"incremental": "True"}, {"incremental": "False"}):
                inc = cfg["incremental"] == "True"
                hf = ctx.handlers_for(site, cfg)
                env = hf.get("_env", {})
                ref = hf.get(which, ("absent",))
                if ref[0] == "forward":
                    # observer.on_completed wired directly: nothing is emitted at completion
                    r.paths += 1
                    ok = which == "on_completed" and not inc and ref[1] == ("obs", "down") and ref[2] == "on_completed"
                    r.ob(ok, lambda: Finding("CD-1", "%s::%s{%s-forward}" % (rel, fname, which), site.where(),
                                             "%s(incremental=%s): %s is forwarded directly although %s" % (
                                                 fname, inc, which, "the incremental codec must be flushed at completion" if inc else "items must be converted")))
                    sk.setdefault((which, cfg_str(cfg)), {})[fname] = ["inc" if inc else "plain", 0, ["on_completed"]]
                    continue
                if ref[0] != "fn":
                    raise AnalysisError("%s::%s: cannot resolve the %s handler for incremental=%s" % (rel, fname, which, inc))
                spec = ref[1]
                for p in ctx.paths(spec, None, cfg):
                    r.paths += 1
                    r.groups.add((fname, which, cfg_str(cfg)))
                    ems = emissions(p)
                    calls = [e for e in p.trace if e.k == "call" and e.d.get("method") == meth]
                    steps = []
                    if which == "on_next":
                        if inc:
                            ok = len(calls) == 1 and codec_base(calls[0].base, env) and tuple(calls[0].args) == (EV,)
                        else:
                            ok = len(calls) == 1 and calls[0].base == EV and calls[0].args and calls[0].args[0][0] == "param" and calls[0].args[0][1] == "encoding"
                        ok = ok and len(ems) == 1 and ems[0].method == "on_next" and ems[0].eff.arg == calls[0].result
                        r.ob(ok, lambda: mk_finding("CD-1", spec, None, cfg, p,
                                                    "%s(incremental=%s): every item must go through %s and the result be emitted once; this path: %s / %s" % (
                                                        fname, inc, var if inc else "item.%s(encoding)" % meth,
                                                        [c.brief() for c in calls], summary(p)), extra="item"))
                        steps = ["inc" if inc else "plain", len(calls), len(ems)]
                    else:
                        if inc:
                            ok = len(calls) == 1 and codec_base(calls[0].base, env) and calls[0].args and calls[0].args[0] == ("const", empty) \
                                and (any(a == ("kw", "final", ("const", True)) for a in calls[0].args)
                                     or (len(calls[0].args) == 2 and calls[0].args[1] == ("const", True)))
                            ok = ok and len(ems) == 2 and ems[0].method == "on_next" and ems[0].eff.arg == calls[0].result and ems[1].method == "on_completed"
                        else:
                            ok = not calls and len(ems) == 1 and ems[0].method == "on_completed"
                        r.ob(ok, lambda: mk_finding("CD-1", spec, None, cfg, p,
                                                    "%s(incremental=%s): at completion %s; this path: %s" % (
                                                        fname, inc, "the codec must be flushed with final=True and the bytes emitted before on_completed" if inc
                                                        else "only on_completed is due", summary(p)), extra="final"))
                        steps = ["inc" if inc else "plain", len(calls), [x.method for x in ems]]
                    sk.setdefault((which, cfg_str(cfg)), {})[fname] = steps
    for key, d in sk.items():
        r.ob(d.get("encode") == d.get("decode"), lambda key=key, d=d: Finding(
            "CD-1", "%s{siblings %s %s}" % (rel, key[0], key[1]), rel + ":1", "encode and decode differ: %s" % d))
    # json.py does not override the incremental default and passes its encoding parameter
    jm = ctx.program.module("rxsci/container/json.py")
    n = 0
    for node in ast.walk(jm.tree):
        if isinstance(node, ast.Call) and dotted_name(node.func) in ("rs.data.encode", "rs.data.decode"):
            n += 1
            r.instances += 1
            given = {"encoding": ast.unparse(node.args[0])} if node.args else {}
            if len(node.args) > 1:
                given["incremental"] = ast.unparse(node.args[1])
            for k in node.keywords:
                given[k.arg] = ast.unparse(k.value)
            if given.get("errors") == "'strict'":
                given.pop("errors")         # the default error scheme, spelled out
            r.ob(given == {"encoding": "encoding"}, lambda node=node: Finding(
                "CD-1", "rxsci/container/json.py{%s}" % ast.unparse(node), jm.where(node),
                "json files must be encoded/decoded incrementally with the encoding parameter; call: %s" % ast.unparse(node)))
    r.ob(n >= 2, lambda: Finding("CD-1", "rxsci/container/json.py{codec-stages}", "rxsci/container/json.py:1",
                                 "json files must go through rs.data.encode when written and rs.data.decode when read; %d such call(s) found" % n))
    r.require_instances(2)
    return r


# ======================================================================
# files: the reader of load_from_file, the writer of dump_to_file (C18, C19) and the parquet writer (C20)
FILE = "rxsci/io/file.py"


def _nonempty_test(test, outcome, R):
    """True / False if the decision says 'the chunk R is not empty' / 'is empty'; None if it does not concern R;
    'other' if it is a test on R's length that is not emptiness"""
    from .seq import _no_epoch
    t = _no_epoch(test)
    while t[0] == "not":
        t, outcome = t[1], not outcome
    LEN = ("call", ("builtin", "len"), (R,))
    if t == R or t == LEN or (t[0] == "call" and t[1] == ("builtin", "bool") and tuple(t[2]) in ((R,), (LEN,))):
        return outcome
    if not any(x == R for x in subterms(t)):
        return None
    nf = normalise_cmp(t, outcome)
    if nf is not None:
        op, co, c = nf
        co = dict(co)
        if list(co) == [LEN] and abs(co[LEN]) == 1:
            s = co[LEN]
            sat = [{"Eq": s * n + c == 0, "NotEq": s * n + c != 0, "Gt": s * n + c > 0, "GtE": s * n + c >= 0, "Lt": s * n + c < 0,
                    "LtE": s * n + c <= 0}[op] for n in (0, 1, 2, 7)]
            if sat == [False, True, True, True]:
                return True
            if sat == [True, False, False, False]:
                return False
    if t[0] == "cmp" and t[1] in ("Eq", "NotEq") and R in (t[2], t[3]):
        other = t[3] if t[2] == R else t[2]
        if other[0] == "const" and other[1] in ("", b""):
            return (t[1] == "NotEq") == outcome
    return "other"


LOSSY_SCHEMES = ("ignore", "replace", "backslashreplace", "xmlcharrefreplace", "namereplace", "surrogateescape", "surrogatepass")


def rule_cd2(ctx: Ctx):
    """CD-2: text is encoded and decoded with the strict error scheme everywhere on the way of the data.  Any other scheme rewrites or
    drops what the codec cannot represent -- 'replace' and 'ignore' lose it, 'backslashreplace' / 'xmlcharrefreplace' write an
    escape of *another* syntax into the text (\\xe9 is not a JSON escape, &#233; is not CSV) -- and no stage reads it back."""
    r = RuleResult("CD-2", "str.encode / bytes.decode on the way of the data use the strict error scheme: no scheme that drops or rewrites characters "
                           "(ignore, replace, backslashreplace, xmlcharrefreplace, ...)")
    prog = ctx.program
    for rel, m in sorted(prog.by_relpath.items()):
        if (ctx.scope is not None and rel not in ctx.scope) or not rel.startswith("rxsci/"):
            continue
        r.instances += 1
        for n in ast.walk(m.tree):
            if not (isinstance(n, ast.Call) and isinstance(n.func, ast.Attribute) and n.func.attr in ("encode", "decode")):
                continue
            e = n.args[1] if len(n.args) > 1 else next((k.value for k in n.keywords if k.arg == "errors"), None)
            if e is None:
                r.ob(True)
                continue
            lossy = isinstance(e, ast.Constant) and isinstance(e.value, str) and e.value != "strict"
            fn = m.enclosing_function(n)
            qn = m.scopes[fn].qualname if fn in m.scopes else "<module>"
            r.ob(not lossy, lambda n=n, e=e, qn=qn: Finding(
                "CD-2", "%s::%s{errors=%s}" % (rel, qn, getattr(e, "value", "?")), m.where(n),
                "'%s' uses the error scheme %r: characters the codec cannot represent are %s instead of being reported, and nothing downstream turns "
                "them back -- the text that is read back is not the text that was written" % (
                    ast.unparse(n)[:70], e.value, "dropped or replaced" if e.value in ("ignore", "replace") else "rewritten as escapes of another syntax")))
        r.ob(True)
    r.require_instances(1)
    return r


def rule_fr3_prompt(ctx: Ctx):
    """FR-3 with the promptness clause (C11 only): a chunk is emitted before the next one is read."""
    return rule_fr3(ctx, lazy=True)


def rule_fr3(ctx: Ctx, lazy=False):
    """FR-3: file.read emits every chunk it reads until the first empty one, in order, then completes."""
    r3 = RuleResult("FR-3", "file.read: every non-empty chunk read is emitted once, in order; reading stops at the first empty chunk (or on disposal); then on_completed"
                    + ("; each chunk is emitted before the next one is read" if lazy else ""))
    m, fn = ctx.function(FILE, "read")
    inner = [f for f in ast.walk(fn) if isinstance(f, ast.FunctionDef) and f is not fn]
    def has_completed(f, own=True):
        for n in ast.walk(f):
            if isinstance(n, ast.Call) and isinstance(n.func, ast.Attribute) and n.func.attr == "on_completed":
                if m.enclosing_function(n) is f:
                    return True
        return False
    acts = [f for f in inner if has_completed(f)]
    if len(acts) != 1:
        raise AnalysisError("file.read: expected one inner function that completes the observer, found %d" % len(acts))
    act = acts[0]
    r3.instances += 1
    # reading through a generator: the path enumeration does not follow generators.  One form is decided from the syntax alone -- the
    # generator that reads is drained into a list / tuple before anything is emitted: every chunk of the file is read before the first
    # one reaches the subscriber (and the whole file is held in memory); any other use of a generator is not analysable here.
    gens = [g for g in ast.walk(fn) if isinstance(g, ast.FunctionDef) and any(isinstance(y, (ast.Yield, ast.YieldFrom)) and m.enclosing_function(y) is g for y in ast.walk(g))
            and any(isinstance(c, ast.Call) and isinstance(c.func, ast.Attribute) and c.func.attr == "read" for c in ast.walk(g))]
    if gens:
        names = {g.name for g in gens}
        drained = [c for c in ast.walk(fn) if isinstance(c, ast.Call) and isinstance(c.func, ast.Name) and c.func.id in ("list", "tuple", "sorted") and c.args
                   and isinstance(c.args[0], ast.Call) and isinstance(c.args[0].func, ast.Name) and c.args[0].func.id in names]
        drained += [c for c in ast.walk(fn) if isinstance(c, (ast.List, ast.Tuple)) and any(
            isinstance(e, ast.Starred) and isinstance(e.value, ast.Call) and isinstance(e.value.func, ast.Name) and e.value.func.id in names for e in c.elts)]
        if drained and lazy:
            r3.ob(False, lambda: Finding("FR-3", "%s::read{eager}" % FILE, m.where(drained[0]),
                                         "%s drains the generator that reads the file before anything is emitted: every chunk is read (and kept in memory) before the "
                                         "first one reaches the subscriber, so a line or row is no longer emitted when the chunk that completes it is read" % ast.unparse(drained[0])[:60]))
            return r3
        raise AnalysisError("file.read reads the file through the generator %s; FR-3 does not follow generators" % sorted(names))
    space = {}
    for p in ctx.fn_paths(m, act, max_iter=1):
        pass
    for n, ks in ctx.ex.undecided.items():
        space.setdefault(n, set()).update(ks)
    from ..model import domains
    space = {k: v for k, v in domains(space).items() if v}
    saw = {"whole": False, "chunk": False, "empty": False}
    for cfg in valuations(space):
        for p in ctx.fn_paths(m, act, cfg=cfg, max_iter=2):
            r3.paths += 1
            if not _normal(p):
                continue
            # paths on which the subscriber disposed are free to stop early
            if any(e.k == "decision" and e.test[0] in ("free",) and e.outcome for e in p.trace) or \
                    any(e.k == "decision" and e.test[0] == "not" and e.test[1][0] == "free" and not e.outcome for e in p.trace):
                continue
            for e in p.trace:
                if e.k == "ucall" and e.d.get("name") == "open_obj" and not e.d.get("raised"):
                    ok, text = _opener_args(e)
                    r3.ob(ok, lambda e=e, text=text, cfg=cfg: Finding(
                        "FR-3", "%s::read{opener-args}" % FILE, e.where(),
                        "the open function of the caller must be given the path, the mode and the encoding keyword on every call (its documented prototype is "
                        "open_obj(filename, mode, encoding)); on this path (%s) it is called with (%s)" % (cfg_str(cfg), text)))
            reads = [e for e in p.trace if e.k == "call" and e.d.get("method") == "read"]
            cut = p.truncated or any(e.k == "loopexit" and e.d.get("cut") for e in p.trace)
            ems = list(emissions(p))
            outs = [x for x in ems if x.method == "on_next"]
            comps = [x for x in ems if x.method == "on_completed"]
            r3.groups.add((cfg_str(cfg), len(r3.groups)))
            if not reads:
                r3.ob(False, lambda p=p, cfg=cfg: Finding("FR-3", "%s::read{no-read}" % FILE, m.where(act), "on this path (%s) nothing is read from the file: [%s]" % (
                    cfg_str(cfg), "; ".join(e.brief() for e in p.trace if e.k == "decision")), trace_of(p)))
                continue
            # what is read: the object the caller gave, or the file opened from the path the caller gave
            fparam = fn.args.args[0].arg
            for R in reads:
                b = R.d.get("base")
                # (directly, or through whatever opens / wraps it: open_obj(file, ...), contextlib.nullcontext(file))
                src_ok = b is not None and any(isinstance(x, tuple) and len(x) > 1 and x[0] == "param" and x[1] == fparam for x in subterms(b))
                # ... and nothing else is put between the caller's object (or what the caller's opener returned) and the read: a reader
                # built on its file descriptor (mmap, os.fdopen) bypasses the object's own read -- what a wrapping opener decodes,
                # decrypts or decompresses -- and its position
                if src_ok and b[0] == "call" and b[1][0] == "glob" and not b[1][1].startswith("contextlib."):
                    src_ok = False
                r3.ob(src_ok, lambda R=R, b=b, p=p, cfg=cfg: Finding(
                    "FR-3", "%s::read{source}" % FILE, R.where(), "on this path (%s) the chunks are read from %s: it must be the file object given as '%s', or the file "
                    "opened from that path" % (cfg_str(cfg), show(b) if b is not None else None, fparam), trace_of(p)))
            want = []
            bad = None
            for k, R in enumerate(reads):
                verdicts = [(_nonempty_test(e.test, e.outcome, R.result), e) for e in p.trace if e.k == "decision"]
                verdicts = [(v, e) for v, e in verdicts if v is not None]
                if any(v == "other" for v, e in verdicts):
                    e = [e for v, e in verdicts if v == "other"][0]
                    bad = "the test '%s' on the chunk just read is not an emptiness test: a short final chunk is lost (or an empty one emitted)" % show(e.test)
                    break
                if cut and k == len(reads) - 1:
                    continue        # the enumeration stopped here; the loop itself goes on
                if not verdicts:
                    # unconditional emission (whole-file read)
                    want.append(R.result)
                    saw["whole"] = True
                elif verdicts[-1][0]:
                    want.append(R.result)
                    saw["chunk"] = True
                else:
                    saw["empty"] = True
                    if k != len(reads) - 1:
                        bad = "reading goes on after an empty chunk"
            if bad is None:
                # laziness: a chunk is emitted before the next one is read
                pos = {id(e): k for k, e in enumerate(p.trace)}
                for k in range(len(reads) - 1 if lazy else 0):
                    em = [x for x in outs if x.eff.arg == reads[k].result]
                    if em and pos.get(id(em[0].eff), -1) > pos.get(id(reads[k + 1]), 10 ** 9):
                        bad = "chunk %d is emitted after chunk %d has been read: output waits for input that does not determine it" % (k + 1, k + 2)
            if bad is None:
                got = [x.eff.arg for x in outs]
                if got != want:
                    bad = "chunks read and found non-empty: %s; chunks emitted: %s" % ([show(x) for x in want], [show(x) for x in got])
                elif not cut and not (len(comps) == 1 and ems[-1] is comps[0]):
                    bad = "on_completed must follow the last chunk, once; this path: %s" % summary(p)
            r3.ob(bad is None, lambda bad=bad, p=p, cfg=cfg: Finding("FR-3", "%s::read{chunks}" % FILE, m.where(act), "%s (%s)" % (bad, cfg_str(cfg)), trace_of(p)))
    r3.ob(saw["whole"] and saw["chunk"] and saw["empty"], lambda: Finding(
        "FR-3", "%s::read{modes}" % FILE, m.where(act), "file.read must have a whole-file mode and a chunked mode that stops at the first empty chunk; found %s" % saw))
    r3.require_instances(1)
    return r3


FH_SITES = {"file": (FILE, "write._write.on_subscribe", None), "parquet": ("rxsci/container/parquet.py", "_dump_parquet._dump.on_subscribe", "writer")}


def _opener_args(e):
    """(ok, text) for a call of the caller's open function: the documented prototype is open_obj(filename, mode, encoding)"""
    args = e.d.get("args", [])
    pos = [a for a in args if a[0] != "kw"]
    kws = {a[1]: a[2] for a in args if a[0] == "kw"}
    star = kws.get("**")
    star_keys = set()
    if star is not None:
        if star[0] == "dict":
            star_keys = {k[1] for k in star[1::2] if k[0] == "const"}
            if len(star_keys) != len(star[1::2]):
                raise AnalysisError("%s: the open function is called with **%s, whose keys are not all constants" % (e.where(), show(star)))
        elif star[0] == "call" and star[1] == ("builtin", "dict") and all(a[0] == "kw" and a[1] != "**" for a in star[2]):
            star_keys = {a[1] for a in star[2]}
        else:
            raise AnalysisError("%s: the open function is called with **%s, a mapping the rules cannot read" % (e.where(), show(star)))
    has_enc = "encoding" in kws or "encoding" in star_keys
    if "mode" in star_keys:
        kws = dict(kws, mode=None)
    text = ", ".join(show(a[2]) if a[0] == "kw" and a[1] == "**" else ("%s=%s" % (a[1], show(a[2])) if a[0] == "kw" else show(a)) for a in args)
    return bool(pos) and (len(pos) >= 2 or "mode" in kws) and has_enc, text


def rule_fh1_file(ctx: Ctx):
    return _rule_fh1(ctx, ("file",))


def rule_fh1_parquet(ctx: Ctx):
    return _rule_fh1(ctx, ("parquet",))


def _rule_fh1(ctx: Ctx, which_sites):
    """FH-1: file.write / the parquet writer close the handle they opened (and only that one) when the stream ends, before the
    terminal event is forwarded -- buffered data reaches the file before anyone is told the file is complete."""
    r1 = RuleResult("FH-1", "a writer closes the file handle it opened itself (never one it was given) when the stream ends, before forwarding the terminal event; "
                            "the parquet writer is closed before its file")
    for rel, suffix, inner_close in [FH_SITES[w] for w in which_sites]:
        site = ctx.site(rel, suffix)
        r1.instances += 1
        sm, sf = site.module, site.subscribe_fn
        opens = {}
        local_vals = {}
        sub_paths = ctx.fn_paths(sm, sf)
        for p in sub_paths:
            for e in p.trace:
                if e.k == "assign":
                    local_vals.setdefault(e.name, set()).add(e.value)
        local_vals = {k: list(v)[0] for k, v in local_vals.items() if len(v) == 1}

        def norm(x):
            """the test with the locals of the subscribe function replaced by the (only) value they are given there"""
            if not isinstance(x, tuple) or not x:
                return x
            if x[0] == "free" and x[1] in local_vals:
                return local_vals[x[1]]
            return tuple(norm(y) if isinstance(y, tuple) else y for y in x)
        for p in sub_paths:
            for k, e in enumerate(p.trace):
                if e.k == "ucall" and not e.d.get("raised"):
                    conds = tuple((show(norm(x.test)), x.outcome) for x in p.trace[:k] if x.k == "decision")
                    names = [a.name for a in p.trace[k + 1:k + 2] if a.k == "assign" and a.value == e.result]
                    opens[(id(e.node), conds, tuple(names))] = (e, conds, names)
        b_opens = [e for p in sub_paths for e in p.trace if e.k == "call" and e.func == ("builtin", "open") and not e.d.get("raised")]
        if b_opens and not opens:
            # the caller's open function (open_obj) is a parameter of the operator; the reader opens through it
            r1.ob(False, lambda b_opens=b_opens: Finding(
                "FH-1", "%s::%s{opener}" % (rel, suffix.split(".")[0]), b_opens[0].where(),
                "the file is opened with the builtin open (%s) and the open function the caller gave is never used: with a custom opener (a mapped "
                "root, an in-memory or remote store) the writer writes somewhere else than the reader, which opens through it, reads" % b_opens[0].brief()))
            continue
        if len({k[0] for k in opens}) != 1 or any(len(v[2]) != 1 for v in opens.values()):
            raise AnalysisError("%s::%s: expected one call of the open function whose result is kept in a variable; found %s" % (
                rel, suffix.split(".")[0], [v[0].brief() for v in opens.values()]))
        # a test both outcomes of which lead to the same opening call says nothing about WHEN the file is opened (it chooses, say, how the
        # arguments are put together): it is left out of the opening condition
        allc = {v[1] for v in opens.values()}
        for t in sorted({c[0] for cs in allc for c in cs}):
            yes = {tuple(c for c in cs if c[0] != t) for cs in allc if (t, True) in cs}
            no = {tuple(c for c in cs if c[0] != t) for cs in allc if (t, False) in cs}
            if yes and yes == no:
                allc = {tuple(c for c in cs if c[0] != t) for cs in allc}
        if len(allc) != 1:
            raise AnalysisError("%s::%s: the file is opened under %d different sets of conditions; FH-1 expects the single 'a path was given' test" % (
                rel, suffix.split(".")[0], len(allc)))
        conds, names = list(allc)[0], list(opens.values())[0][2]
        if inner_close is None:
            # what the caller's open function is given: the documented prototype is open_obj(filename, mode, encoding) -- the path, the mode
            # and the encoding keyword on every call (an opener written to that prototype has three required parameters)
            for e, _c, _n in opens.values():
                ok, text = _opener_args(e)
                r1.ob(ok, lambda e=e, text=text: Finding(
                    "FH-1", "%s::%s{opener-args}" % (rel, suffix.split(".")[0]), e.where(),
                    "the open function of the caller must be given the path, the mode and the encoding keyword on every call (its documented prototype is "
                    "open_obj(filename, mode, encoding)); here it is called with (%s)" % text))
        if len(conds) != 1:
            raise AnalysisError("%s::%s: the file is opened under %d conditions; FH-1 expects the single 'a path was given' test" % (rel, suffix.split(".")[0], len(conds)))
        (ctest, cout), H = conds[0], names[0]
        for which, term in (("on_completed", "on_completed"), ("on_error", "on_error")):
            specs = site.handler_specs(which)
            if not specs:
                r1.ob(False, lambda which=which: Finding("FH-1", "%s::%s{%s}" % (rel, suffix.split(".")[0], which), site.where(),
                                                         "the %s of the source is forwarded without closing the file opened by the operator" % which))
                continue
            hs = specs[0]
            for p in ctx.paths(hs, None, {}):
                r1.paths += 1
                if p.outcome == "raise":
                    continue
                mine = [e for e in p.trace if e.k == "decision" and show(norm(e.test)) == ctest]
                r1.groups.add((rel, which, len(r1.groups)))
                if not mine:
                    closes = [e for e in p.trace if e.k in ("mutate", "call") and e.d.get("method") == "close" and show(e.base) == H]
                    r1.ob(False, lambda p=p, which=which, closes=closes: mk_finding(
                        "FH-1", hs, None, {}, p, "%s does not test '%s' (the condition under which the operator opened the file itself): it %s whatever it was given" % (
                            which, ctest, "closes the handle" if closes else "never closes the handle"), extra="own"))
                    continue
                own = mine[-1].outcome == cout
                seq = [e for e in p.trace if (e.k in ("mutate", "call") and e.d.get("method") == "close") or (e.k == "emit" and e.method == term)]
                hclose = [k for k, e in enumerate(seq) if e.k != "emit" and show(e.base) == H]
                terms = [k for k, e in enumerate(seq) if e.k == "emit"]
                if own:
                    ok = len(hclose) == 1 and len(terms) == 1 and hclose[0] < terms[0]
                    r1.ob(ok, lambda p=p, which=which: mk_finding(
                        "FH-1", hs, None, {}, p, "the file opened by the operator must be closed exactly once before %s is forwarded (buffered data is written by close); "
                        "this path: %s" % (which, [e.brief() for e in seq]), extra="close"))
                else:
                    r1.ob(not hclose, lambda p=p, which=which: mk_finding(
                        "FH-1", hs, None, {}, p, "a file object supplied by the caller must not be closed by the operator (the caller reads it back afterwards)", extra="foreign"))
                if inner_close is not None:
                    wclose = [k for k, e in enumerate(seq) if e.k != "emit" and show(e.base) == inner_close]
                    ok = len(wclose) == 1 and (not hclose or wclose[0] < hclose[0]) and terms and wclose[0] < terms[0]
                    r1.ob(ok, lambda p=p, which=which: mk_finding(
                        "FH-1", hs, None, {}, p, "the parquet writer must be closed (footer written) before its file is closed and before %s is forwarded; this path: %s" % (
                            which, [e.brief() for e in seq]), extra="writer"))
        # file.write: every item goes to the handle as it comes -- one write of the item on every path of on_next
        if inner_close is None:
            for hs in site.handler_specs("on_next"):
                for p in ctx.paths(hs, None, {}):
                    r1.paths += 1
                    if p.outcome == "raise" or any(e.d.get("raised") for e in p.trace):
                        continue
                    ws = [e for e in p.trace if e.k in ("call", "mutate") and e.d.get("method") == "write" and e.args and e.args[0] == EV
                          and e.d.get("base") is not None and e.d["base"][0] == "free" and e.d["base"][1] == H]
                    kept = [e for e in p.trace if (e.k == "nonlocal" and any(x == EV for x in subterms(e.value))) or
                            (e.k == "mutate" and e not in ws and any(x == EV for a_ in e.args for x in subterms(a_)))]
                    if len(ws) != 1 and kept:
                        # a write buffer: the items kept in a closure variable must reach the file when the source completes, whichever
                        # kind of target was given (a path the operator opened, or the caller's file object)
                        bnames = set()
                        for e in kept:
                            if e.k == "nonlocal":
                                bnames.add(e.name)
                            else:
                                b = e.base
                                while b[0] in ("sub", "attr") and isinstance(b[1], tuple):
                                    b = b[1]
                                if b[0] == "free":
                                    bnames.add(b[1])
                        if not bnames:
                            raise AnalysisError("%s::%s: on_next keeps the item (%s) instead of writing it to the file at once, in something FH-1 cannot "
                                                "name" % (rel, suffix.split(".")[0], kept[0].brief()))
                        for cs in site.handler_specs("on_completed"):
                            groups = {}
                            for q in ctx.paths(cs, None, {}):
                                r1.paths += 1
                                if q.outcome == "raise" or any(e.d.get("raised") for e in q.trace):
                                    continue
                                out = [e for e in q.trace if e.k in ("call", "mutate") and e.d.get("method") in ("write", "writelines")
                                       and any(x[0] == "free" and x[1] in bnames for a_ in e.args for x in subterms(a_))]
                                # the tests that are not about the buffer itself (an empty buffer has nothing to write) tell the situations apart:
                                # in each of them some path must write the buffer out
                                sit = tuple((show(e.test), e.outcome) for e in q.trace if e.k == "decision"
                                            and not any(x[0] == "free" and x[1] in bnames for x in subterms(e.test)))
                                g = groups.setdefault(sit, [False, q])
                                g[0] = g[0] or bool(out)
                            for sit, (okg, q) in sorted(groups.items(), key=str):
                                r1.ob(okg, lambda q=q, cs=cs, bnames=bnames, sit=sit: mk_finding(
                                    "FH-1", cs, None, {}, q, "on_next holds items back in %s; when the source completes with %s nothing of it is written to the "
                                    "file on any path: the last items never reach it" % (
                                        sorted(bnames), "; ".join("%s is %s" % s for s in sit)[:120] or "no condition"), extra="buffer-flush"))
                        continue
                    r1.ob(len(ws) == 1, lambda p=p, hs=hs, ws=ws: mk_finding(
                        "FH-1", hs, None, {}, p, "every item must be written to the file handle once, as it comes; this path writes it %d times: %s" % (
                            len(ws), "; ".join(e.brief() for e in p.trace if e.k in ("call", "decision"))[:160]), extra="item-write"))
    r1.require_instances(1)
    return r1
