"""Semantic rules for the grouping heads: EQ-1, FW-1, FL-1 (C04), DP-1..3 (C05),
DP-4 (C06), CMP-1, DP-5, ORD-1 (C07), PR-3 (C11)."""
from __future__ import annotations

import ast
from fractions import Fraction

from ..classify import KEYIDX, linear_index
from ..engine import Ctx, Finding, RuleResult, cfg_str, trace_of
from ..loader import AnalysisError, dotted_name
from ..terms import EV, EVITEM, EVKEY, show, subterms
from .common import Emission, emissions, mk_finding, mux_emissions, summary
from .linear import quotient_shape, linform, normalise_cmp
from .lv import _index_of_key, _is_notset

SENTINEL_CLASSES = ("NotSet", "StateNotSet", "StateSet", "StateCleared", "object")
TYPE_NAMES = {"int", "float", "bool", "str", "list", "dict", "tuple", "set", "bytes", "type", "object"}


def head_spec(ctx: Ctx, rel, suffix, states=None):
    if states is None and rel == "rxsci/data/roll.py":
        states = 1 if "_roll_count" in suffix else 2
    site = ctx.site(rel, suffix, kind="mux", states=states)
    specs = site.handler_specs("on_next")
    if len(specs) != 1:
        raise AnalysisError("%s: expected one on_next handler" % site.name)
    return site, specs[0]


def roll_state_names(ctx, site):
    """(counter state, slot state) of the sliding roll, by declared type: 'uint' counter, int slots."""
    n = w = None
    for name, t in ctx.probe_states(site):
        dt = dict(t.kwargs).get("data_type")
        if dt == ("const", "uint"):
            n = name
        elif dt == ("builtin", "int"):
            w = name
    if n is None or w is None:
        raise AnalysisError("%s: the 'uint' item counter and the int slot state were not both found" % site.name)
    return n, w


def time_split_state_names(ctx, site, spec):
    """(window reference state, last timestamp state): the reference is the one whose reads are tested against NOTSET."""
    names = [n for n, _ in ctx.probe_states(site)]
    if len(names) != 2:
        raise AnalysisError("%s: expected two state ids (window reference, last timestamp), found %s" % (site.name, names))
    start = None
    for kind, cfg, paths in ctx.all_paths(spec, kinds=("Next",)):
        for p in paths:
            reads = {e.result: e.state[1] for e in p.trace if e.k == "store" and e.op == "get_state"}
            for e in p.trace:
                if e.k == "decision" and e.test[0] == "cmp" and e.test[1] in ("Is", "IsNot"):
                    for x, y in ((e.test[2], e.test[3]), (e.test[3], e.test[2])):
                        if x in reads and _is_notset(y):
                            start = reads[x]
        if start:
            break
    if start is None:
        raise AnalysisError("%s: no state is tested against STATE_NOTSET while handling an item" % site.name)
    return start, [n for n in names if n != start][0]


def _normal(p):
    """Paths on which no may-raise effect raised."""
    return not any(e.d.get("raised") for e in p.trace) and p.outcome != "raise"


# ======================================================================
# EQ-1
def _is_sentinel_expr(prog, m, node, fn, depth=0):
    if isinstance(node, ast.Constant):
        return node.value is None or node.value is True or node.value is False or node.value is Ellipsis
    dn = dotted_name(node)
    if dn is not None:
        last = dn.split(".")[-1]
        if isinstance(node, ast.Name):
            # local / enclosing binding to a sentinel:  X = NotSet()  /  notset = rs.state.markers.STATE_NOTSET
            # (every assignment of the nearest scope binding the name must be one)
            f = fn
            while f is not None:
                vals = []
                for n in _own_nodes(f):
                    if isinstance(n, ast.Assign) and any(isinstance(t, ast.Name) and t.id == node.id for t in n.targets):
                        vals.append(n.value)
                    elif isinstance(n, (ast.AugAssign, ast.For, ast.NamedExpr)) and any(
                            isinstance(x, ast.Name) and x.id == node.id for x in ast.walk(n.target)):
                        vals.append(None)
                if vals:
                    def one(v):
                        if v is None:
                            return False
                        if isinstance(v, ast.Call):
                            cn = dotted_name(v.func)
                            if cn and cn.split(".")[-1] in SENTINEL_CLASSES:
                                return True
                        return depth < 3 and not isinstance(v, ast.Constant) and _is_sentinel_expr(prog, m, v, f, depth + 1)
                    if all(one(v) for v in vals):
                        return True
                    break
                if node.id in {a.arg for a in f.args.args + f.args.kwonlyargs + f.args.posonlyargs}:
                    break
                f = m.enclosing_function(f)
            if node.id in TYPE_NAMES:
                return True
            if node.id in ("self", "other", "cls"):
                return True
        ref = prog.resolve_dotted(m, dn)
        if ref[0] == "assign":
            v = ref[2]
            if isinstance(v, ast.Call):
                cn = dotted_name(v.func)
                if cn and cn.split(".")[-1] in SENTINEL_CLASSES:
                    return True
                # the mux event classes (namedtuple(...)) compared with type(x)
                if cn and cn.split(".")[-1] == "namedtuple":
                    return True
        if ref[0] == "class":
            return True
        if ref[0] == "ext" and last[:1].isupper():
            return True
    if isinstance(node, ast.Call):
        cn = dotted_name(node.func)
        if cn == "type":
            return True
    return False


def _own_nodes(fn):
    stack = list(fn.body) if not isinstance(fn, ast.Lambda) else [fn.body]
    while stack:
        n = stack.pop()
        yield n
        for c in ast.iter_child_nodes(n):
            if not isinstance(c, (ast.FunctionDef, ast.AsyncFunctionDef, ast.Lambda)):
                stack.append(c)


def _guarded_by_isinstance_type(m, node, left, right):
    """x is y under ``if isinstance(y, type):`` -- identity is how classes are compared"""
    names = {ast.unparse(left), ast.unparse(right)}
    cur = m.parent.get(node)
    child = node
    while cur is not None and not isinstance(cur, (ast.FunctionDef, ast.Lambda, ast.Module)):
        if isinstance(cur, ast.If) and child in cur.body:
            t = cur.test
            if isinstance(t, ast.Call) and isinstance(t.func, ast.Name) and t.func.id == "isinstance" and len(t.args) == 2 \
                    and isinstance(t.args[1], ast.Name) and t.args[1].id == "type" and ast.unparse(t.args[0]) in names:
                return True
        child = cur
        cur = m.parent.get(cur)
    return False


def rule_eq1(ctx: Ctx, files=None, min_instances=1) -> RuleResult:
    r = RuleResult("EQ-1", "identity comparisons only against sentinels / types: user values (group keys, predicates, items) are compared by ==")
    prog = ctx.program
    if files is not None:
        for f in files:
            prog.module(f)
    allow = {("rxsci/state/memory_store.py", "MemoryStore.iterate"):
             "compares a marker *code* (STATE_CLEARED.value(), a small int never derived from user data)"}
    for rel, m in sorted(prog.by_relpath.items()):
        if files is not None and rel not in files:
            continue
        for node in ast.walk(m.tree):
            if not isinstance(node, ast.Compare):
                continue
            left = node.left
            for op, right in zip(node.ops, node.comparators):
                if isinstance(op, (ast.Is, ast.IsNot)):
                    fn = m.enclosing_function(node)
                    qn = m.scopes[fn].qualname if fn is not None else "<module>"
                    r.instances += 1
                    ok = _is_sentinel_expr(prog, m, left, fn) or _is_sentinel_expr(prog, m, right, fn) \
                        or _guarded_by_isinstance_type(m, node, left, right)
                    if not ok and (rel, qn) in allow:
                        ok = True
                        note = "%s::%s allow-listed: %s" % (rel, qn, allow[(rel, qn)])
                        if note not in r.notes:
                            r.notes.append(note)
                    r.ob(ok, lambda node=node, qn=qn, left=left, right=right, op=op: Finding(
                        "EQ-1", "%s::%s{%s}" % (rel, qn, ast.unparse(node)[:60]), m.where(node),
                        "'%s' compares two values by identity; neither side is a sentinel or a type, so values that are equal but "
                        "not the same object (tuples, large ints, floats, strings built at run time) are treated as different" % ast.unparse(node)))
                left = right
    r.require_instances(min_instances)
    return r


def rule_dur1(ctx: Ctx) -> RuleResult:
    """DUR-1: time_split compares durations as durations.  `.seconds` / `.microseconds` / `.days` of a timedelta are the fields of its
    normalised (days, seconds, microseconds) triple, not the length of the interval: timedelta(days=1).seconds == 0, and
    timedelta(seconds=2.5).seconds == 2.  A comparison or a test on one field alone orders the timeouts wrongly as soon as one of them
    is a day or longer, negative, or differs from the other below the second."""
    r = RuleResult("DUR-1", "time_split orders and tests durations as timedelta values (or total_seconds()), never through one field of the "
                            "normalised triple (.seconds / .microseconds / .days)")
    m = ctx.program.by_relpath.get("rxsci/data/time_split.py")
    if m is None:
        raise AnalysisError("rxsci/data/time_split.py not found")
    r.instances += 1
    FIELDS = ("seconds", "microseconds", "days")
    parents = {}
    for n in ast.walk(m.tree):
        for c in ast.iter_child_nodes(n):
            parents[id(c)] = n
    for n in ast.walk(m.tree):
        if not (isinstance(n, ast.Attribute) and n.attr in FIELDS and isinstance(n.ctx, ast.Load)):
            continue
        # the whole expression the field sits in: all three fields of the same value together are total_seconds() written out
        top = n
        while id(top) in parents and isinstance(parents[id(top)], ast.expr):
            top = parents[id(top)]
        base = ast.dump(n.value)
        have = {x.attr for x in ast.walk(top) if isinstance(x, ast.Attribute) and x.attr in FIELDS and ast.dump(x.value) == base}
        fn = m.enclosing_function(n)
        qn = m.scopes[fn].qualname if fn in m.scopes else "<module>"
        r.ob(have == set(FIELDS), lambda n=n, top=top, qn=qn: Finding(
            "DUR-1", "rxsci/data/time_split.py::%s{.%s}" % (qn, n.attr), m.where(n),
            "'%s' reads the field .%s of a duration: it is one component of the normalised (days, seconds, microseconds) triple -- 0 for "
            "timedelta(days=1), 2 for timedelta(seconds=2.5) -- so '%s' does not order the two durations; compare the timedelta values "
            "themselves (or total_seconds())" % (ast.unparse(n), n.attr, ast.unparse(top)[:70])))
    r.ob(True)
    r.require_instances(1)
    return r


def rule_eq2(ctx: Ctx, files=None) -> RuleResult:
    """EQ-2, the converse of EQ-1: a marker OBJECT (STATE_NOTSET, a private sentinel) is told apart by identity.  `value == MARKER` runs
    the __eq__ of whatever the slot holds -- user data: a numpy array answers with an array (the `if` raises), a catch-all __eq__
    answers True (the accumulator is re-seeded at every item)."""
    r = RuleResult("EQ-2", "marker objects are compared by identity (is / is not): == would run the __eq__ of the user value on the other side")
    prog = ctx.program
    for rel, m in sorted(prog.by_relpath.items()):
        if (files is not None and rel not in files) or not rel.startswith("rxsci/"):
            continue
        for node in ast.walk(m.tree):
            if not isinstance(node, ast.Compare):
                continue
            left = node.left
            for op, right in zip(node.ops, node.comparators):
                if isinstance(op, (ast.Eq, ast.NotEq)):
                    fn = m.enclosing_function(node)
                    for side, other in ((left, right), (right, left)):
                        dn = dotted_name(side)
                        if dn is None or not dn.split(".")[-1].startswith("STATE_") or isinstance(other, ast.Call) and dotted_name(other.func) and dotted_name(other.func).endswith(".value"):
                            continue
                        ref = prog.resolve_dotted(m, dn)
                        if not ref or ref[0] != "assign" or not ref[1].name.startswith("rxsci"):
                            continue
                        r.instances += 1
                        qn = m.scopes[fn].qualname if fn is not None else "<module>"
                        r.ob(False, lambda node=node, qn=qn, dn=dn: Finding(
                            "EQ-2", "%s::%s{%s}" % (rel, qn, ast.unparse(node)[:60]), m.where(node),
                            "'%s' compares with the marker %s by ==: the other operand is what the slot holds (user data), whose __eq__ runs first -- a numpy "
                            "array makes the test raise, an object equal to everything is taken for 'not set'; markers are told apart with 'is'" % (
                                ast.unparse(node), dn.split(".")[-1])))
                elif isinstance(op, (ast.Is, ast.IsNot)):
                    for side in (left, right):
                        dn = dotted_name(side)
                        if dn is not None and dn.split(".")[-1].startswith("STATE_"):
                            r.instances += 1
                            r.ob(True)
                left = right
    r.require_instances(1 if files is not None else 5)
    return r


# ======================================================================
# FW-1
FW_HEADS = {
    "group_by": ("rxsci/operators/group_by.py", "group_by_mux._group_by.on_subscribe"),
    "split": ("rxsci/data/split.py", "split_mux._split.on_subscribe"),
    "time_split": ("rxsci/data/time_split.py", "time_split_mux._time_split.on_subscribe"),
    "roll_count": ("rxsci/data/roll.py", "roll_mux._roll_count.subscribe"),
}


def rule_fw1(ctx: Ctx, heads=("group_by",), rule_id="FW-1") -> RuleResult:
    r = RuleResult(rule_id, "every item is delivered, unchanged, to exactly one child key (%s)" % ", ".join(heads))
    for h in heads:
        site, spec = head_spec(ctx, *FW_HEADS[h])
        r.instances += 1
        for kind, cfg, paths in ctx.all_paths(spec, kinds=("Next",)):
            for p in paths:
                r.paths += 1
                r.groups.add((spec.qualname, cfg_str(cfg)))
                if not _normal(p):
                    continue
                nexts = [m for m in mux_emissions(p, roles=("down",)) if m.event is not None and m.event.kind == "Next"]
                ok = len(nexts) == 1 and nexts[0].event.keyclass[0] == "CHILD"
                r.ob(ok, lambda: mk_finding(rule_id, spec, kind, cfg, p,
                                            "an item must be forwarded to exactly one child key; this path does: %s" % summary(p), extra="once"))
                if ok:
                    r.ob(nexts[0].event.payload == EVITEM, lambda: mk_finding(
                        rule_id, spec, kind, cfg, p, "the forwarded item is not the received item: %s" % show(nexts[0].event.payload),
                        node=nexts[0].eff.node, extra="payload"))
                    if h == "group_by":
                        idx = nexts[0].event.keyclass[1]
                        mk = idx[4][0] if idx[0] == "store" and idx[1] in ("get_map", "add_map") and idx[4] else None
                        good = mk is not None and mk[0] == "ucall" and tuple(mk[2]) == (EVITEM,)
                        r.ob(good, lambda: mk_finding(
                            rule_id, spec, kind, cfg, p,
                            "the child index %s is not the map entry of key_mapper(item): items are not routed by their key" % show(idx),
                            node=nexts[0].eff.node, extra="route"))
                        # lookup and insertion use the same map key
                        for e in p.trace:
                            if e.k == "store" and e.op == "add_map":
                                gets = [g for g in p.trace if g.k == "store" and g.op == "get_map"]
                                same = gets and gets[0].extra == e.extra and gets[0].key == e.key
                                r.ob(bool(same), lambda: mk_finding(rule_id, spec, kind, cfg, p,
                                                                    "add_map registers %s but the lookup used %s" % (show(e.extra[0]), show(gets[0].extra[0]) if gets else None),
                                                                    node=e.node, extra="lookup-insert"))
    r.require_instances(len(heads))
    return r


def rule_fl1(ctx: Ctx) -> RuleResult:
    """Open groups are completed in order of first appearance."""
    r = RuleResult("FL-1", "group_by completes open groups in insertion order (iterate_map iterates the mapping itself)")
    site, spec = head_spec(ctx, *FW_HEADS["group_by"])
    r.instances += 1
    for kind, cfg, paths in ctx.all_paths(spec, kinds=("Completed", "Error")):
        for p in paths:
            r.paths += 1
            for e in p.trace:
                if e.k == "loopiter":
                    it = e.iter
                    ok = it is not None and it[0] == "store" and it[1] == "iterate_map"
                    if not ok and it is not None and it[0] == "call" and it[1] in (("builtin", "list"), ("builtin", "tuple")) \
                            and len(it[2]) == 1 and it[2][0][0] == "store" and it[2][0][1] == "iterate_map":
                        ok = True
                    r.ob(ok, lambda e=e: mk_finding("FL-1", spec, kind, cfg, p,
                                                    "open groups are flushed by iterating %s, not the parent's map in insertion order" % show(e.iter),
                                                    node=e.node, extra="order"))
    # MemoryStore.iterate_map / add_map keep insertion order: a dict iterated directly
    m, fn = ctx.function("rxsci/state/memory_store.py", "MemoryStore.iterate_map")
    r.instances += 1
    SELF, KEY = ("arg", "self"), ("arg", "key")

    def parent_dict(t):
        """self.values[key[0]] (optionally through .keys() / iter())"""
        if t is None:
            return False
        if t[0] == "mcall" and t[2] == "keys" and not t[3]:
            t = t[1]
        if t[0] == "call" and t[1] == ("builtin", "iter") and len(t[2]) == 1:
            t = t[2][0]
        return t[0] == "sub" and t[1] == ("attr", SELF, "values") and t[2][0] == "sub" and t[2][1] == KEY and t[2][2] == ("const", 0)
    ok = True
    seen = False
    from .ms import _contract_paths as _cp
    for p in _cp(ctx, m, fn, max_iter=1):
        ys = [e for e in p.trace if e.k == "yield"]
        loops = [e for e in p.trace if e.k == "loopiter"]
        for y in ys:
            seen = True
            if y.frm:
                ok = ok and parent_dict(y.value)
            else:
                # the loop variable of a loop over the parent's dict
                lp = [e for e in loops if e.var == y.value]
                ok = ok and len(lp) == 1 and parent_dict(lp[0].iter)
        if p.outcome == "return" and p.value is not None and p.value != ("const", None):
            seen = True
            ok = ok and parent_dict(p.value)
    r.ob(ok and seen, lambda: Finding("FL-1", "MemoryStore.iterate_map{order}", m.where(fn),
                                      "iterate_map must yield the keys of the parent's dict in its own (insertion) order"))
    m2, fn2 = ctx.function("rxsci/state/memory_store.py", "MemoryStore.add_key")
    fresh = False
    from .ms import _contract_paths
    for p in _contract_paths(ctx, m2, fn2, max_iter=1):
        dec = [e for e in p.trace if e.k == "decision" and any(x == ("attr", SELF, "is_mapper") for x in subterms(e.test))]
        if dec and dec[0].outcome and dec[0].test == ("attr", SELF, "is_mapper"):
            ws = [e for e in p.trace if e.k == "substore" and e.base == ("attr", SELF, "values")]
            fresh = len(ws) == 1 and ws[0].value == ("dict",)
            if not fresh:
                break
    r.ob(fresh, lambda: Finding("FL-1", "MemoryStore.add_key{mapper-dict}", m2.where(fn2),
                                "a mapper state must start each parent lifetime with an empty dict (insertion ordered)"))
    r.require_instances(2)
    return r


# ======================================================================
# C06 split
WRAPPERS = {"time_split": ("rxsci/data/time_split.py", "time_split"), "roll": ("rxsci/data/roll.py", "roll"),
            "split": ("rxsci/data/split.py", "split"), "group_by": ("rxsci/operators/group_by.py", "group_by")}


def rule_fwd1(ctx: Ctx, heads=("time_split", "roll", "split", "group_by")) -> RuleResult:
    """FWD-1: the public factory of a grouping operator hands its configuration to the multiplexed implementation unchanged: every
    argument of the call of <name>_mux is the factory's own parameter (validation may raise; it may not clamp, default or combine)."""
    r = RuleResult("FWD-1", "the public factories of the grouping operators pass their configuration parameters unchanged to the implementation")
    for h in heads:
        rel, name = WRAPPERS[h]
        m, fn = ctx.function(rel, name)
        r.instances += 1
        params = set(m.scopes[fn].params)
        saw = False
        for p in ctx.fn_paths(m, fn, inline=False):
            r.paths += 1
            if p.outcome != "return":
                continue
            calls = [e for e in p.trace if e.k == "call" and e.func[0] == "func" and e.func[1].name.endswith("_mux")]
            if len(calls) != 1:
                r.ob(False, lambda p=p, calls=calls: Finding("FWD-1", "%s::%s{implementation}" % (rel, name), m.where(fn),
                                                           "expected one call of the multiplexed implementation on every path; found %d" % len(calls), trace_of(p)))
                continue
            saw = True
            c = calls[0]
            callee = c.func[1]
            pos = [a.arg for a in callee.args.args]
            for k, a in enumerate(c.args):
                if a[0] == "kw":
                    pname, val = a[1], a[2]
                else:
                    pname, val = (pos[k] if k < len(pos) else "#%d" % k), a
                r.groups.add((h, pname))
                ok = val[0] == "arg" and val[1] in params
                r.ob(ok, lambda p=p, pname=pname, val=val, c=c: Finding(
                    "FWD-1", "%s::%s{%s}" % (rel, name, pname), m.where(c.node),
                    "%s receives %s = %s instead of the factory's own parameter: the configuration the user gave is altered on the way (clamped, defaulted or "
                    "combined with another parameter)" % (callee.name, pname, show(val)), trace_of(p)))
        r.ob(saw, lambda: Finding("FWD-1", "%s::%s{implementation}" % (rel, name), m.where(fn), "no path of %s calls its multiplexed implementation" % name))
    r.require_instances(len(heads))
    return r


def rule_dp4(ctx: Ctx) -> RuleResult:
    r = RuleResult("DP-4", "split: after an item, the stored predicate equals the predicate of that item; roll-over is Completed < Create < Next")
    site, spec = head_spec(ctx, *FW_HEADS["split"])
    r.instances += 1
    state = ctx.only_state(site)
    for kind, cfg, paths in ctx.all_paths(spec, kinds=("Next",)):
        for p in paths:
            r.paths += 1
            r.groups.add((spec.qualname, cfg_str(cfg)))
            if not _normal(p):
                continue
            ucalls = [e for e in p.trace if e.k == "ucall"]
            preds = [e for e in ucalls if tuple(e.args) == (EVITEM,)]
            if len(preds) != 1:
                r.ob(False, lambda: mk_finding("DP-4", spec, kind, cfg, p, "the split predicate must be evaluated exactly once on the item", extra="predicate"))
                continue
            new = preds[0].result
            reads = [e for e in p.trace if e.k == "store" and e.op == "get_state" and e.state[0] == "free" and e.state[1] == state]
            writes = [e for e in p.trace if e.k == "store" and e.op == "set_state" and e.state[0] == "free" and e.state[1] == state]
            cur = reads[0].result if reads else None
            # boundary test: a decision comparing new with cur by != / ==
            btests = [e for e in p.trace if e.k == "decision" and e.test[0] == "cmp" and {e.test[2], e.test[3]} == {new, cur}]
            for b in btests:
                r.ob(b.test[1] in ("NotEq", "Eq"), lambda b=b: mk_finding(
                    "DP-4", spec, kind, cfg, p, "the segment boundary is decided by '%s' instead of value (in)equality of the predicates" % show(b.test),
                    node=b.node, extra="boundary-op"))
            unchanged = any((b.test[1] == "NotEq" and not b.outcome) or (b.test[1] == "Eq" and b.outcome) for b in btests)
            # the segment is recorded before it is announced: the events are sent into the segment's pipeline, which may raise (the
            # exception unwinds through split) -- a segment created downstream and not recorded is created again by the next item
            first_emit = next((k for k, e in enumerate(p.trace) if e.k == "emit"), None)
            late = [w for w in writes if first_emit is not None and p.trace.index(w) > first_emit]
            r.ob(not late, lambda late=late: mk_finding(
                "DP-4", spec, kind, cfg, p, "the predicate of the segment is written (%s) after events were sent into the segment's pipeline: if a function "
                "there raises, the segment is open downstream and unknown to split, and the next item of the key creates it a second time" % (
                    late[0].brief()), node=late[0].node, extra="record-before-emit"))
            stored_new = bool(writes) and writes[-1].extra[0] == new
            # the next item is compared with THIS item's predicate value: it is stored on every path.  A value that merely compared equal
            # to it (the one kept since the segment was opened) is not the same thing when == is not transitive on the predicate values
            r.ob(stored_new, lambda: mk_finding(
                "DP-4", spec, kind, cfg, p,
                "after this item the stored predicate is not the predicate of the item (%s): the next item is not compared with this one but with %s" % (
                    "stored: %s" % show(writes[-1].extra[0]) if writes else "nothing is stored on this path",
                    "a stale value" if writes or not unchanged else "the first item of the segment -- a different answer as soon as != is not transitive on the "
                    "predicate values (tolerance classes: 0, 1, 2, 3 with 'at most 1 apart' is cut into [0, 1] [2, 3])"),
                extra="stored" if writes or not unchanged else "stored-previous"))
            # order of child events
            evs = [m for m in mux_emissions(p, roles=("down",)) if m.event is not None]
            kinds = [m.event.kind for m in evs]
            changed = any((b.test[1] == "NotEq" and b.outcome) or (b.test[1] == "Eq" and not b.outcome) for b in btests)
            first = any(e.k == "decision" and e.test[0] == "cmp" and e.test[1] in ("Is", "IsNot") and cur in (e.test[2], e.test[3])
                        and (_is_notset(e.test[2]) or _is_notset(e.test[3])) and (e.outcome == (e.test[1] == "Is")) for e in p.trace)
            if first:
                want = ["Create", "Next"]
            elif changed:
                want = ["Completed", "Create", "Next"]
            else:
                want = ["Next"]
            r.ob(kinds == want, lambda: mk_finding(
                "DP-4", spec, kind, cfg, p, "child events on the %s path must be %s; they are %s" % (
                    "first-item" if first else ("boundary" if changed else "same-run"), want, kinds), extra="order"))
            r.ob(first or bool(btests), lambda: mk_finding(
                "DP-4", spec, kind, cfg, p, "an item that is not the first of its key is forwarded without comparing its predicate with the stored one",
                extra="no-test"))
    r.require_instances(1)
    return r


# ======================================================================
# C07 time_split
def _timeout_decisions(p):
    out = []
    for e in p.trace:
        if e.k == "decision" and e.test[0] == "cmp":
            names = {x[1] for x in subterms(e.test) if x[0] == "param"}
            if ("const", None) in (e.test[2], e.test[3]):
                continue        # 'timeout is (not) None' selects the configuration, it is not an expiry test
            if "active_timeout" in names or "inactive_timeout" in names:
                out.append(e)
    return out


def rule_time_split(ctx: Ctx):
    r1 = RuleResult("CMP-1", "time_split: expiry is 'new >= reference + timeout' (inclusive), active against the window start, inactive against the previous item")
    r2 = RuleResult("DP-5", "time_split: every item updates the last timestamp; opening, expiry and closing also set the window reference")
    r3 = RuleResult("ORD-1", "time_split: placement of the closing item per include_closing_item; closing_mapper consulted only when not expired")
    site, spec = head_spec(ctx, *FW_HEADS["time_split"])
    S_START, S_LAST = time_split_state_names(ctx, site, spec)
    for r in (r1, r2, r3):
        r.instances += 1
    seen_active = seen_inactive = False
    for kind, cfg, paths in ctx.all_paths(spec, kinds=("Next",)):
        for p in paths:
            if not _normal(p):
                continue
            for r in (r1, r2, r3):
                r.paths += 1
                r.groups.add((spec.qualname, cfg_str(cfg)))
            tm = [e for e in p.trace if e.k == "ucall" and e.name == "time_mapper"]
            if len(tm) != 1 or tuple(tm[0].args) != (EVITEM,):
                r2.ob(False, lambda: mk_finding("DP-5", spec, kind, cfg, p, "time_mapper must be applied exactly once to the item", extra="time_mapper"))
                continue
            new = tm[0].result
            start_reads = [e.result for e in p.trace if e.k == "store" and e.op == "get_state" and e.state[1] == S_START]
            last_reads = [e.result for e in p.trace if e.k == "store" and e.op == "get_state" and e.state[1] == S_LAST]
            first = any(e.k == "decision" and e.test[0] == "cmp" and e.test[1] in ("Is", "IsNot")
                        and any(sr in (e.test[2], e.test[3]) for sr in start_reads)
                        and (e.outcome == (e.test[1] == "Is")) for e in p.trace)
            evs = [m for m in mux_emissions(p, roles=("down",)) if m.event is not None]
            kinds = [m.event.kind for m in evs]
            closing_calls = [e for e in p.trace if e.k == "ucall" and e.name == "closing_mapper"]
            closing_true = False
            for e in p.trace:
                if e.k == "decision" and closing_calls and any(x == closing_calls[0].result for x in subterms(e.test)):
                    t = e.test
                    if t[0] == "cmp" and t[1] in ("Is", "Eq") and ("const", True) in (t[2], t[3]):
                        closing_true = e.outcome
                    elif t[0] == "cmp" and t[1] in ("IsNot", "NotEq") and ("const", True) in (t[2], t[3]):
                        closing_true = not e.outcome
                    elif t == closing_calls[0].result:
                        closing_true = e.outcome
            # roll-over = a Completed followed by a Create (after the opening Create of a first item, if any)
            rollover = "Completed" in kinds
            expired = rollover and not closing_true
            # ---- CMP-1 -------------------------------------------------
            decs = _timeout_decisions(p)
            for k, d in enumerate(decs):
                is_last = k == len(decs) - 1
                names = {x[1] for x in subterms(d.test) if x[0] == "param"}
                which = "active_timeout" if "active_timeout" in names else "inactive_timeout"
                # polarity: a decision that is not the last one was necessarily "not expired"
                says_expired = expired if is_last else False
                if is_last and not expired:
                    says_expired = False
                nf = normalise_cmp(d.test, d.outcome == says_expired if says_expired else (not d.outcome))
                # nf describes the condition under which the window is expired
                tparam = [x for x in subterms(d.test) if x[0] == "param" and x[1] == which][0]
                ref_want = (start_reads[0] if start_reads else None) if which == "active_timeout" else (last_reads[0] if last_reads else None)
                if first:
                    ref_want = new
                ok, why = _check_expiry_form(nf, new, tparam, ref_want, first)
                if which == "active_timeout":
                    seen_active = True
                else:
                    seen_inactive = True
                r1.ob(ok, lambda d=d, why=why, which=which: mk_finding(
                    "CMP-1", spec, kind, cfg, p, "the %s test '%s' is not 'new timestamp >= reference + %s': %s" % (
                        which.split("_")[0], show(d.test), which, why), node=d.node, extra=which))
            # ---- DP-5 --------------------------------------------------
            w_last = [e for e in p.trace if e.k == "store" and e.op == "set_state" and e.state[1] == S_LAST]
            w_start = [e for e in p.trace if e.k == "store" and e.op == "set_state" and e.state[1] == S_START]
            r2.ob(bool(w_last) and w_last[-1].extra[0] == new and _index_of_key(w_last[-1].key) == KEYIDX, lambda: mk_finding(
                "DP-5", spec, kind, cfg, p, "the timestamp of the item is not recorded as the key's last timestamp: the inactive timeout "
                "of the next item is measured from a stale value", extra="last"))
            if "Create" in kinds:
                r2.ob(bool(w_start) and w_start[-1].extra[0] == new and _index_of_key(w_start[-1].key) == KEYIDX, lambda: mk_finding(
                    "DP-5", spec, kind, cfg, p, "a window is opened but its reference timestamp is not set to the timestamp of the opening item",
                    extra="start"))
            else:
                r2.ob(not w_start, lambda: mk_finding(
                    "DP-5", spec, kind, cfg, p, "the reference timestamp of the open window is overwritten by an item that neither opens nor closes it",
                    node=w_start[0].node, extra="start-overwrite"))
            # ---- ORD-1 -------------------------------------------------
            r3.ob(not (closing_calls and decs and expired and False), None)
            if closing_calls:
                # consulted only when no timeout decision said expired: i.e. this path's timeout decisions all negative
                pol_ok = all(_not_expired(d) for d in decs)
                r3.ob(pol_ok, lambda: mk_finding("ORD-1", spec, kind, cfg, p,
                                                 "closing_mapper is consulted although a timeout has already expired the window", extra="closing-when-expired"))
                r3.ob(tuple(closing_calls[0].args) == (EVITEM,), lambda: mk_finding(
                    "ORD-1", spec, kind, cfg, p, "closing_mapper is not applied to the item", extra="closing-arg"))
            if cfg.get("closing_mapper") == "Obj" and not expired and _normal(p):
                # ... and always when not expired: every item that does not expire the window (the first item of a key
                # included) is shown to closing_mapper
                r3.ob(bool(closing_calls), lambda: mk_finding(
                    "ORD-1", spec, kind, cfg, p, "closing_mapper is set and the item does not expire the window, but closing_mapper is not consulted on "
                    "this path%s: a closing item would not close its window" % (" (first item of a key)" if first else ""), extra="closing-skipped"))
            body = kinds[1:] if first and kinds[:1] == ["Create"] else kinds
            if first:
                r3.ob(kinds[:1] == ["Create"], lambda: mk_finding("ORD-1", spec, kind, cfg, p, "the first item of a key must open a window first; events: %s" % kinds, extra="first"))
            if closing_true:
                incl = cfg.get("include_closing_item")
                want = ["Next", "Completed", "Create"] if incl == "True" else ["Completed", "Create", "Next"]
                r3.ob(body == want, lambda: mk_finding(
                    "ORD-1", spec, kind, cfg, p, "with include_closing_item=%s a closing item must produce %s; this path produces %s" % (incl, want, body),
                    extra="closing-order"))
            elif expired:
                r3.ob(body == ["Completed", "Create", "Next"], lambda: mk_finding(
                    "ORD-1", spec, kind, cfg, p, "an expiring item must close the window, open a new one and belong to the new one; events: %s" % body,
                    extra="expiry-order"))
            else:
                r3.ob(body == ["Next"], lambda: mk_finding(
                    "ORD-1", spec, kind, cfg, p, "an ordinary item must only be forwarded to the open window; events: %s" % body, extra="plain-order"))
    if not (seen_active and seen_inactive):
        raise AnalysisError("time_split: no comparison depending on active_timeout / inactive_timeout found on any Next path")
    for r in (r1, r2, r3):
        r.require_instances(1)
    return [r1, r2, r3]


def _not_expired(d):
    """A timeout decision taken in the direction 'not expired'.

    The relation that holds on the path (test with its outcome) is normalised to  sum(coeffs) + c  op  0.
    'expired' is  new - reference - timeout >= 0, i.e. the timeout parameter has a negative coefficient
    under >= / > (or a positive one under <= / <)."""
    nf = normalise_cmp(d.test, d.outcome)
    if nf is None:
        return True
    op, co, c = nf
    ct = [v for k, v in co if k[0] == "param" and k[1] in ("active_timeout", "inactive_timeout")]
    if not ct:
        return True
    expired = (ct[0] < 0 and op in ("GtE", "Gt")) or (ct[0] > 0 and op in ("LtE", "Lt"))
    return not expired


def _check_expiry_form(nf, new, tparam, ref, first):
    """nf must be   new - ref - timeout >= 0   (sign-normalised)."""
    if nf is None:
        return False, "not an arithmetic comparison"
    op, co, c = nf
    co = dict(co)
    if c != 0:
        return False, "a constant offset %s is added" % c
    # un-normalise the sign so that 'new' has coefficient +1
    if first or ref == new:
        # on the first item reference == new: the form degenerates to  -timeout >= 0
        want = {tparam: Fraction(-1)}
        if co == want and op == "GtE":
            return True, ""
        if co == {tparam: Fraction(1)} and op == "LtE":
            return True, ""
        if op in ("Gt", "Lt"):
            return False, "the comparison is strict: an item exactly one timeout after the reference does not expire the window"
        return False, "unexpected operands %s" % ", ".join("%s*%s" % (v, show(k)) for k, v in co.items())
    if ref is None:
        return False, "the reference timestamp is never read"
    if new not in co:
        return False, "the new timestamp does not take part in the comparison"
    s = 1 if co[new] > 0 else -1
    co2 = {k: v * s for k, v in co.items()}
    op2 = op if s == 1 else {"GtE": "LtE", "LtE": "GtE", "Gt": "Lt", "Lt": "Gt"}.get(op, op)
    want = {new: Fraction(1), ref: Fraction(-1), tparam: Fraction(-1)}
    if co2 != want:
        others = [k for k in co2 if k not in (new, tparam)]
        if len(others) == 1 and others[0] != ref and others[0][0] == "store":
            return False, "it is measured from %s instead of %s" % (show(others[0]), show(ref))
        return False, "unexpected operands %s" % ", ".join("%s*%s" % (v, show(k)) for k, v in co2.items())
    if op2 == "GtE":
        return True, ""
    if op2 == "Gt":
        return False, "the comparison is strict: an item exactly one timeout after the reference does not expire the window"
    return False, "the comparison operator is %s" % op2


# ======================================================================
# C05 roll
def rule_roll(ctx: Ctx):
    r1 = RuleResult("DP-1", "roll: the per-key item counter is incremented exactly once per item and reset with the parent")
    r2 = RuleResult("DP-2", "roll: a window opens iff counter % stride == 0 and stores the counter; it closes iff counter - start + 1 == window")
    r3 = RuleResult("DP-3", "roll: partial windows are flushed starting from the oldest slot (order depends on the ring phase)")
    site, spec = head_spec(ctx, "rxsci/data/roll.py", "roll_mux._roll.subscribe")
    S_N, S_W = roll_state_names(ctx, site)
    for r in (r1, r2, r3):
        r.instances += 1
    for kind, cfg, paths in ctx.all_paths(spec, kinds=("Next",)):
        for p in paths:
            if not _normal(p):
                continue
            r1.paths += 1
            r2.paths += 1
            r1.groups.add((spec.qualname, kind))
            r2.groups.add((spec.qualname, kind))
            n_reads = [e for e in p.trace if e.k == "store" and e.op == "get_state" and e.state[1] == S_N]
            n_writes = [e for e in p.trace if e.k == "store" and e.op == "set_state" and e.state[1] == S_N]
            ok = len(n_writes) == 1 and _index_of_key(n_writes[0].key) == KEYIDX
            if ok:
                v = n_writes[0].extra[0]
                f = linform(v)
                ok = f is not None and f[1] == 1 and len(f[0]) == 1 and list(f[0].values()) == [1] and \
                    list(f[0].keys())[0] in [e.result for e in n_reads]
            r1.ob(ok, lambda: mk_finding("DP-1", spec, kind, cfg, p,
                                         "the item counter must be written back exactly once as (value read for this key) + 1; this path writes: %s" % (
                                             "; ".join(show(w.extra[0]) for w in n_writes) or "nothing"), extra="increment"))
            if not n_reads:
                continue
            n = n_reads[0].result
            # the counter used by the tests must be read before it is written back
            pos_w = p.trace.index(n_writes[0]) if n_writes else len(p.trace)
            # ---- opening ---------------------------------------------
            creates = [m for m in mux_emissions(p, roles=("down",)) if m.event is not None and m.event.kind == "Create"]
            opens = [e for e in p.trace if e.k == "decision" and any(x[0] == "param" and x[1] == "stride" for x in subterms(e.test))
                     and any(x == n for x in subterms(e.test))]
            opened = bool(creates)
            if not opens:
                r2.ob(False, lambda: mk_finding("DP-2", spec, kind, cfg, p, "no test on (counter, stride) decides whether a window opens", extra="open-test"))
            else:
                d = opens[0]
                ok, why = _is_multiple_test(d.test, d.outcome, n, opened)
                r2.ob(ok, lambda d=d, why=why: mk_finding(
                    "DP-2", spec, kind, cfg, p, "the window-opening test '%s' (taken %s, window %s) is not 'counter %% stride == 0': %s" % (
                        show(d.test), d.outcome, "opened" if opened else "not opened", why), node=d.node, extra="open-test"))
            if opened:
                c = creates[0]
                idx = c.event.keyclass[1]
                li = linear_index(idx)
                wr = [e for e in p.trace if e.k == "store" and e.op == "set_state" and e.state[1] == S_W and _index_of_key(e.key) == idx]
                r2.ob(bool(wr) and wr[0].extra[0] == n, lambda: mk_finding(
                    "DP-2", spec, kind, cfg, p, "the slot of the new window must record the counter value at opening (start index); it records %s" % (
                        show(wr[0].extra[0]) if wr else "nothing"), node=c.eff.node, extra="open-store"))
                ok = li is not None and li[0] == "scaled" and li[2][0] == "binop" and li[2][1] == "Mod" and li[2][3] == li[1] and \
                    li[2][2] == ("binop", "FloorDiv", n, [x for x in subterms(opens[0].test) if x[0] == "param" and x[1] == "stride"][0]) if opens else False
                r2.ob(ok, lambda: mk_finding(
                    "DP-2", spec, kind, cfg, p, "the slot of a new window must be (counter // stride) %% density of the key's ring; it is %s" % show(idx),
                    node=c.eff.node, extra="open-slot"))
            # ---- closing ---------------------------------------------
            for e in p.trace:
                if e.k != "decision":
                    continue
                nf = normalise_cmp(e.test, True)
                # a closing test is a comparison in which the window length itself is an operand
                if nf is None or not any(k[0] == "param" and k[1] == "window" for k, _ in nf[1]):
                    continue
                wreads = [x for x in subterms(e.test) if x[0] == "store" and x[1] == "get_state" and x[2][1] == S_W]
                window = [k for k, _ in nf[1] if k[0] == "param" and k[1] == "window"][0]
                ok = False
                why = "not a comparison of counter, start index and window"
                if nf is not None and wreads:
                    op, co, c = nf
                    co = dict(co)
                    w = wreads[0]
                    if set(co) == {n, w, window}:
                        s = 1 if co[n] > 0 else -1
                        cc = {k: v * s for k, v in co.items()}
                        c2 = c * s
                        op2 = op if s == 1 else {"GtE": "LtE", "LtE": "GtE", "Gt": "Lt", "Lt": "Gt"}.get(op, op)
                        if cc == {n: 1, w: -1, window: -1} and c2 == 1 and op2 in ("Eq", "GtE"):
                            ok = True
                        else:
                            why = "it tests  %s*counter %+d*start %+d*window %+d %s 0  instead of  counter - start + 1 == window" % (
                                cc[n], cc[w], cc[window], c2, op2)
                # which child does the decision close?
                closes = [m for m in mux_emissions(p, roles=("down",)) if m.event is not None and m.event.kind == "Completed"]
                r2.ob(ok, lambda e=e, why=why: mk_finding("DP-2", spec, kind, cfg, p, "the window-closing test '%s': %s" % (show(e.test), why),
                                                          node=e.node, extra="close-test"))
                if ok and wreads:
                    child_idx = _index_of_key(wreads[0][3])
                    closed_here = [m for m in closes if m.event.keyclass[1] == child_idx]
                    r2.ob(bool(closed_here) == bool(e.outcome), lambda e=e: mk_finding(
                        "DP-2", spec, kind, cfg, p, "the closing test is %s but the window is %s" % (e.outcome, "completed" if closed_here else "not completed"),
                        node=e.node, extra="close-effect"))
    # ---- DP-0: the item is delivered, once, to every open window of the key's ring ---------------
    from ..classify import ring_coverage
    r0 = RuleResult("DP-0", "roll: every item is delivered exactly once to every open window (the delivery loop covers the key's whole slot ring)")
    r0.instances += 1
    saw_delivery = False
    for kind, cfg, paths in ctx.all_paths(spec, kinds=("Next",)):
        for p in paths:
            if not _normal(p):
                continue
            r0.paths += 1
            loops = {e.loop: e.iter for e in p.trace if e.k == "loopiter"}
            for it in [e for e in p.trace if e.k == "loopiter"]:
                pos = p.trace.index(it)
                end = next((k for k in range(pos + 1, len(p.trace)) if p.trace[k].k in ("loopiter", "loopexit")), len(p.trace))
                body = p.trace[pos + 1:end]
                reads = [e for e in body if e.k == "store" and e.op == "get_state" and e.state[1] == S_W]
                if not reads:
                    continue
                saw_delivery = True
                idx = _index_of_key(reads[0].key)
                r0.groups.add((spec.qualname, len(r0.groups)))
                r0.ob(idx is not None and ring_coverage(idx, loops), lambda it=it, idx=idx: mk_finding(
                    "DP-0", spec, kind, cfg, p, "the loop that delivers the item to the open windows runs over %s and addresses slot %s: it does not visit "
                    "every slot of the key's ring, so a window living in a skipped slot misses items" % (show(it.iter), show(idx) if idx else None),
                    node=it.node, extra="coverage"))
                live = None
                for e in body:
                    if e.k == "decision":
                        nf = normalise_cmp(e.test, e.outcome)
                        if nf is not None and dict(nf[1]).keys() == {reads[0].result}:
                            op, co, c = nf
                            s_ = 1 if dict(co)[reads[0].result] > 0 else -1
                            op2 = op if s_ == 1 else {"GtE": "LtE", "LtE": "GtE", "Gt": "Lt", "Lt": "Gt"}.get(op, op)
                            c2 = c * s_
                            # v + c2 op2 0 with the free marker -1
                            if (op2 == "NotEq" and c2 == 1) or (op2 == "Gt" and c2 == 1) or (op2 == "GtE" and c2 == 0):
                                live = True
                            elif (op2 == "Eq" and c2 == 1) or (op2 == "LtE" and c2 == 1) or (op2 == "Lt" and c2 == 0):
                                live = False
                            break
                nexts = [Emission(e, kind, 0) for e in body if e.k == "emit" and e.method == "on_next"]
                nexts = [m for m in nexts if m.event is not None and m.event.kind == "Next"]
                if live is True:
                    ok = len(nexts) == 1 and nexts[0].event.keyclass == ("CHILD", idx) and nexts[0].event.payload == EVITEM
                    r0.ob(ok, lambda: mk_finding("DP-0", spec, kind, cfg, p, "an open window must receive the item exactly once, unchanged; this iteration emits %s" % [m.brief() for m in nexts], extra="deliver"))
                elif live is False:
                    r0.ob(not nexts, lambda: mk_finding("DP-0", spec, kind, cfg, p, "a free slot must receive nothing; this iteration emits %s" % [m.brief() for m in nexts], extra="free"))
                else:
                    r0.ob(False, lambda: mk_finding("DP-0", spec, kind, cfg, p, "delivery to a slot is not decided by the slot's 'open' marker (start index != -1)", extra="guard"))
    r0.ob(saw_delivery, lambda: Finding("DP-0", "%s[Next]{delivery-loop}" % spec.qualname, spec.module.where(spec.fn), "no loop delivers the item to the slots of the key's ring"))
    for kind, cfg, paths in ctx.all_paths(spec, kinds=("Next",)):
        for p in paths:
            if not _normal(p):
                continue
            closes = [m for m in mux_emissions(p, roles=("down",)) if m.event is not None and m.event.kind == "Completed"]
            tests = [e for e in p.trace if e.k == "decision" and normalise_cmp(e.test, True) is not None
                     and any(k[0] == "param" and k[1] == "window" for k, _ in normalise_cmp(e.test, True)[1])]
            r2.ob(not closes or bool(tests), lambda: mk_finding(
                "DP-2", spec, kind, cfg, p, "a window is completed while an item is handled but no comparison with the window length decides it", extra="close-unexplained"))
    for kind, cfg, paths in ctx.all_paths(spec, kinds=("Completed", "Error", "Create")):
        for p in paths:
            r1.paths += 1
            if any(e.k == "loopexit" and e.n == 0 for e in p.trace):
                continue
            resets = [e for e in p.trace if e.k == "store" and e.state[1] == S_N and (
                e.op in ("add_key", "del_key") or (e.op == "set_state" and e.extra[0] == ("const", 0))) and _index_of_key(e.key) == KEYIDX]
            r1.ob(bool(resets), lambda: mk_finding("DP-1", spec, kind, cfg, p,
                                                   "the item counter of the key is not reset when the parent key is %s" % kind.lower(), extra="reset"))
            if kind == "Create":
                continue
            # ---- DP-3 --------------------------------------------------
            r3.paths += 1
            r3.groups.add((spec.qualname, kind))
            flushed = [m for m in mux_emissions(p, roles=("down",)) if m.event is not None and m.event.keyclass[0] == "CHILD"]
            for m in flushed:
                idx = m.event.keyclass[1]
                shape = _flush_start_shape(idx, S_N)
                if shape is not None:
                    kind_, detail = shape
                    if kind_ == "unknown":
                        raise AnalysisError("DP-3: the expression that selects the first slot to flush (%s) is not a recognised ceiling/floor "
                                            "division of the item counter by stride; cannot decide the flush order" % detail)
                    r3.ob(kind_ == "ceil", lambda m=m, detail=detail: mk_finding(
                        "DP-3", spec, kind, cfg, p,
                        "partial windows must be closed starting at slot ceil(counter / stride) %% density (the slot after the newest window, i.e. the "
                        "oldest one); the flush starts at %s, which is the newest window's slot whenever the counter is not a multiple of stride" % detail,
                        node=m.eff.node, extra="flush-start"))
                    continue
                dep_n = any(x[0] == "store" and x[1] == "get_state" and x[2][1] == S_N for x in subterms(idx))
                # ... or the order derives from an ordering of the stored start indices
                dep_sorted = any(e.k == "loopiter" and e.iter is not None and any(
                    x[0] == "call" and x[1] == ("builtin", "sorted") for x in subterms(e.iter)) for e in p.trace)
                r3.ob(dep_n or dep_sorted, lambda m=m: mk_finding(
                    "DP-3", spec, kind, cfg, p,
                    "partial windows are closed in the fixed slot order %s, independent of the item counter: with two or more open "
                    "windows the ring may have wrapped, so a younger window is closed before an older one" % show(m.event.keyclass[1]),
                    node=m.eff.node, extra="flush-order"))
    # ---- tumbling variant ----------------------------------------------
    site2, spec2 = head_spec(ctx, "rxsci/data/roll.py", "roll_mux._roll_count.subscribe")
    S_C = ctx.only_state(site2)
    r2.instances += 1
    r1.instances += 1
    for kind, cfg, paths in ctx.all_paths(spec2, kinds=("Next",)):
        for p in paths:
            if not _normal(p):
                continue
            r2.paths += 1
            r2.groups.add((spec2.qualname, kind))
            reads = [e for e in p.trace if e.k == "store" and e.op == "get_state" and e.state[1] == S_C]
            writes = [e for e in p.trace if e.k == "store" and e.op == "set_state" and e.state[1] == S_C]
            if not reads:
                r2.ob(False, lambda: mk_finding("DP-2", spec2, kind, cfg, p, "the in-window counter is not read", extra="count-read"))
                continue
            cnt = reads[0].result
            evs = [m.event.kind for m in mux_emissions(p, roles=("down",)) if m.event is not None]
            opened = "Create" in evs
            closed = "Completed" in evs
            # opening iff cnt == 0
            od = [e for e in p.trace if e.k == "decision" and normalise_cmp(e.test, True) is not None
                  and dict(normalise_cmp(e.test, True)[1]).keys() == {cnt}]
            ok = False
            for e in od:
                op, co, c = normalise_cmp(e.test, e.outcome)
                # cnt op' 0 under this outcome
                if (op == "Eq" and c == 0) or (op == "LtE" and c == 0) or (op == "Lt" and c == -1):
                    ok = ok or opened
                elif (op == "NotEq" and c == 0) or (op == "Gt" and c == 0) or (op == "GtE" and c == -1):
                    ok = ok or (not opened)
            r2.ob(ok, lambda: mk_finding("DP-2", spec2, kind, cfg, p,
                                         "a tumbling window must open iff the in-window counter is 0; tests on the counter: %s, window %s" % (
                                             [("%s -> %s" % (show(e.test), e.outcome)) for e in od], "opened" if opened else "not opened"), extra="count-open"))
            # closing iff cnt + 1 == window
            window = None
            cd = []
            for e in p.trace:
                nfw = normalise_cmp(e.test, True) if e.k == "decision" else None
                if nfw is not None and any(k[0] == "param" and k[1] == "window" for k, _ in nfw[1]):
                    cd.append(e)
                    window = [k for k, _ in nfw[1] if k[0] == "param" and k[1] == "window"][0]
            ok = False
            why = "no test on (counter, window)"
            for e in cd:
                # the relation that holds on this path (the test with its outcome), whichever way the test is spelled
                nf = normalise_cmp(e.test, e.outcome)
                if nf is None:
                    continue
                op, co, c = nf
                co = dict(co)
                if set(co) == {cnt, window}:
                    s = 1 if co[cnt] > 0 else -1
                    cc = {k: v * s for k, v in co.items()}
                    c2 = c * s
                    op2 = op if s == 1 else {"GtE": "LtE", "LtE": "GtE", "Gt": "Lt", "Lt": "Gt"}.get(op, op)
                    if cc == {cnt: 1, window: -1} and c2 == 1 and op2 in ("Eq", "GtE", "NotEq", "Lt"):
                        full = op2 in ("Eq", "GtE")          # counter + 1 == window holds on this path
                        ok = (full == closed)
                        why = "counter + 1 %s window holds but the window is %s" % (op2, "completed" if closed else "left open")
                    else:
                        why = "it tests counter %+d %s window instead of counter + 1 == window" % (c2, op2)
            r2.ob(ok, lambda why=why: mk_finding("DP-2", spec2, kind, cfg, p, "tumbling window closing test: %s" % why, extra="count-close"))
            # write-back
            want = ("const", 0) if closed else None
            ok = len(writes) == 1 and _index_of_key(writes[0].key) == KEYIDX
            if ok and closed:
                ok = writes[0].extra[0] == ("const", 0)
            elif ok:
                f = linform(writes[0].extra[0])
                ok = f is not None and f[1] == 1 and dict(f[0]) == {cnt: 1}
            r1.ob(ok, lambda: mk_finding("DP-1", spec2, kind, cfg, p,
                                         "the in-window counter must be written back once: 0 when the window closes, (value read) + 1 otherwise; "
                                         "this path writes %s" % ("; ".join(show(w.extra[0]) for w in writes) or "nothing"), extra="count-write"))
    # ---- the tumbling variant is chosen exactly when window == stride -----------------------------
    rm, rf = ctx.function("rxsci/data/roll.py", "roll_mux")
    r2.instances += 1
    saw_t = saw_s = False
    for p in ctx.fn_paths(rm, rf, inline=False):
        r2.paths += 1
        v = p.value
        if p.outcome != "return" or v is None or v[0] != "tuple" or len(v) < 2 or v[1][0] != "func":
            if p.outcome == "return" and v is not None and v[0] == "ifexp":
                continue
            continue
        chosen = v[1][1]
        is_tumbling = chosen is site2.subscribe_fn or site2.module.enclosing_function(site2.subscribe_fn) is chosen
        is_sliding = chosen is site.subscribe_fn or site.module.enclosing_function(site.subscribe_fn) is chosen
        eq = None
        for e in p.trace:
            if e.k == "decision":
                nf = normalise_cmp(e.test, e.outcome)
                if nf is not None:
                    names = {k[1] for k, _ in nf[1] if k[0] in ("arg", "param")}
                    if names == {"window", "stride"} and nf[2] == 0 and sorted(abs(c) for _, c in nf[1]) == [1, 1] and sum(c for _, c in nf[1]) == 0:
                        eq = nf[0]
        if is_tumbling:
            saw_t = True
            r2.ob(eq == "Eq", lambda eq=eq: Finding(
                "DP-2", "rxsci/data/roll.py::roll_mux{variant}", rm.where(rf),
                "the tumbling implementation (one counter, windows every 'window' items) is selected under 'window %s stride' instead of window == stride: "
                "it ignores the stride, so it is only correct when both are equal" % {"LtE": "<=", "GtE": ">=", "Lt": "<", "Gt": ">", "NotEq": "!=", None: "(no test on)"}.get(eq, eq),
                trace_of(p)))
        elif is_sliding:
            saw_s = True
    r2.ob(saw_s, lambda: Finding("DP-2", "rxsci/data/roll.py::roll_mux{variant-sliding}", rm.where(rf), "roll_mux never returns the sliding implementation"))
    for r in (r0, r1, r2, r3):
        r.require_instances(1)
    return [r0, r1, r2, r3]


def _flush_start_shape(idx, s_n="state_n"):
    """For idx = key[0]*D + (first + t) % D with first depending on the counter n:
    ('ceil'|'floor'|'unknown', text).  None if idx has another form (handled by the dependence test)."""
    li = linear_index(idx)
    if li is None or li[0] != "scaled":
        return None
    D, rest = li[1], li[2]
    if not (rest[0] == "binop" and rest[1] == "Mod" and rest[3] == D):
        return None
    inner = rest[2]
    if not (inner[0] == "binop" and inner[1] == "Add"):
        return None
    first = None
    for a, b in ((inner[2], inner[3]), (inner[3], inner[2])):
        if b[0] == "loopvar":
            first = a
    if first is None:
        return None
    reads = [x for x in subterms(first) if x[0] == "store" and x[1] == "get_state" and x[2][1] == s_n]
    if not reads:
        return None
    n = reads[0]

    def is_stride(t):
        return t[0] == "param" and t[1] == "stride"
    q = quotient_shape(first)
    if q is not None and is_stride(q[2]) and dict(q[1][0]) == {n: 1} and q[1][1] == 0:
        return (q[0], show(first))
    return ("unknown", show(first))


def _is_multiple_test(test, outcome, n, opened):
    """Is (test, outcome) equivalent to  (n % stride == 0) == opened ?"""
    def mod_term(t):
        return t[0] == "binop" and t[1] == "Mod" and t[2] == n and t[3][0] == "param" and t[3][1] == "stride"
    if test[0] == "cmp" and test[1] in ("Eq", "NotEq"):
        a, b = test[2], test[3]
        for x, y in ((a, b), (b, a)):
            if mod_term(x) and y[0] == "const":
                if y[1] != 0:
                    return False, "windows open at counter %% stride == %r: the first window does not start at the first item" % (y[1],)
                is_mult = outcome if test[1] == "Eq" else (not outcome)
                return (is_mult == opened), "the branch taken when the counter is%s a multiple of stride %s a window" % (
                    "" if is_mult else " not", "does not open" if not opened else "opens")
        return False, "operands are not (counter % stride) and 0"
    if mod_term(test):
        is_mult = not outcome
        return (is_mult == opened), "polarity"
    return False, "unrecognised shape"


# ======================================================================
# PR-3 (C11): windows close on their last item
def rule_pr3(ctx: Ctx) -> RuleResult:
    r = RuleResult("PR-3", "windows / segments are completed while their closing item is handled (not only at parent completion)")
    table = [
        ("rxsci/data/roll.py", "roll_mux._roll.subscribe", "after"),
        ("rxsci/data/roll.py", "roll_mux._roll_count.subscribe", "after"),
        ("rxsci/data/split.py", "split_mux._split.on_subscribe", "before"),
        ("rxsci/data/time_split.py", "time_split_mux._time_split.on_subscribe", "before"),
    ]
    for rel, suffix, pos in table:
        site, spec = head_spec(ctx, rel, suffix)
        r.instances += 1
        found = False
        for kind, cfg, paths in ctx.all_paths(spec, kinds=("Next",)):
            for p in paths:
                r.paths += 1
                evs = [m for m in mux_emissions(p, roles=("down",)) if m.event is not None and m.event.keyclass[0] == "CHILD"]
                for k, m in enumerate(evs):
                    if m.event.kind != "Completed":
                        continue
                    found = True
                    child = m.event.keyclass[1]
                    nexts_before = [x for x in evs[:k] if x.event.kind == "Next" and x.event.keyclass[1] == child]
                    nexts_after = [x for x in evs[k + 1:] if x.event.kind == "Next" and x.event.keyclass[1] == child]
                    r.groups.add((spec.qualname, cfg_str(cfg)))
                    if pos == "after":
                        r.ob(bool(nexts_before), lambda: mk_finding(
                            "PR-3", spec, kind, cfg, p, "a count-closed window is completed before its closing item was delivered to it", node=m.eff.node, extra="order"))
                    else:
                        incl = cfg.get("include_closing_item")
                        if not (incl == "True" and nexts_before):
                            r.ob(bool(nexts_after), lambda: mk_finding(
                                "PR-3", spec, kind, cfg, p, "after a change-closed segment is completed the item is not delivered to the new segment", node=m.eff.node, extra="order"))
        r.ob(found, lambda: Finding("PR-3", "%s{prompt-close}" % spec.qualname, spec.module.where(spec.fn),
                                    "no path completes a child while an item is handled: windows would only be closed when the parent completes "
                                    "(results delayed until the end of the key)"))
        if rel.endswith("time_split.py"):
            # an item that restarts the window reference (expiry or closing item: the stored start becomes the item's own
            # timestamp although a window was open) must close the old window and open the new one *now*, on the same path
            s_start, s_last = time_split_state_names(ctx, site, spec)
            for kind, cfg, paths in ctx.all_paths(spec, kinds=("Next",)):
                for p in paths:
                    if not _normal(p):
                        continue
                    tnew = [e.result for e in p.trace if e.k == "ucall" and e.name == "time_mapper"]
                    reads = [e for e in p.trace if e.k == "store" and e.op == "get_state" and e.state[1] == s_start]
                    first = any(e.k == "decision" and e.test[0] == "cmp" and e.test[1] in ("Is", "IsNot") and reads and reads[0].result in (e.test[2], e.test[3])
                                and (_is_notset(e.test[2]) or _is_notset(e.test[3])) and e.outcome == (e.test[1] == "Is") for e in p.trace)
                    restart = [e for e in p.trace if e.k == "store" and e.op == "set_state" and e.state[1] == s_start and e.extra and e.extra[0] in tnew]
                    if first or not restart:
                        continue
                    evs = [m for m in mux_emissions(p, roles=("down",)) if m.event is not None and m.event.keyclass[0] == "CHILD"]
                    kinds_ = [m.event.kind for m in evs]
                    r.ob("Completed" in kinds_ and "Create" in kinds_, lambda: mk_finding(
                        "PR-3", spec, kind, cfg, p,
                        "the item restarts the window (the stored window start becomes its own timestamp) but the old window is not completed and the new "
                        "one not created while the item is handled (%s): the result of the closed window is withheld until a later item or the end of "
                        "the key" % summary(p), node=restart[0].node, extra="restart"))
    r.require_instances(4)
    return r
