"""C12 -- NM-1: the recurrences and output formulas of the math aggregates are,
as rational functions, the textbook ones (running sum, (sum, count), Welford's
update, centred second moment).  This decides algebraic correctness and the use
of the centred forms; it says nothing about rounding."""
from __future__ import annotations

import ast

from ..engine import Ctx, Finding, RuleResult, trace_of
from ..loader import AnalysisError, dotted_name
from ..terms import show, subterms
from .linear import normalise_cmp
from .poly import RF, Poly, rf, strip_uid
from .scan import _callable_def, scan_call_sites


BIND = {}      # id(accumulator def) -> bindings of the parameters of the shared builder it is nested in


def _acc_of(ctx, rel, name):
    m, fn = ctx.function(rel, name)
    for mm, call, seed in scan_call_sites(ctx):
        if mm is m and m.enclosing_function(call) is fn:
            acc = call.args[0] if call.args else None
            accfn = _callable_def(ctx, m, acc, fn)
            return m, fn, call, accfn, seed
    # the operator delegates to a shared builder (extremum(operator.lt, key_mapper, reduce)): a repository function that
    # contains the scan call; its parameters are bound by the operator's call
    from ..model import _bind_call, _top_function
    prog = ctx.program
    for n in ast.walk(fn):
        if not isinstance(n, ast.Call):
            continue
        dn = dotted_name(n.func)
        ref = prog.resolve_dotted(m, dn) if dn else None
        if ref is None or ref[0] != "def":
            continue
        hm, H = ref[1], ref[2]
        for mm, call, seed in scan_call_sites(ctx):
            if mm is hm and _top_function(hm, call) is H and hm.enclosing_function(call) is H:
                b = _bind_call(ctx.ex, m, n, hm, H, {}, {})
                if b is None:
                    continue
                acc = call.args[0] if call.args else None
                accfn = _callable_def(ctx, hm, acc, H)
                if accfn is not None:
                    BIND[id(accfn)] = b
                return hm, H, call, accfn, seed
    raise AnalysisError("%s::%s no longer builds on rs.ops.scan" % (rel, name))


def _sub0(base, k):
    return lambda t: t[0] == "sub" and strip_uid(t[1]) == strip_uid(base) and t[2] == ("const", k)


def _mapper_after(ctx, m, fn, call):
    """The lambda / def mapped right after the scan call in the enclosing rx.pipe(...)."""
    par = m.parent.get(call)
    if not isinstance(par, ast.Call):
        return None
    args = list(par.args)
    if call not in args:
        return None
    k = args.index(call)
    if k + 1 < len(args) and isinstance(args[k + 1], ast.Call) and args[k + 1].args:
        return _callable_def(ctx, m, args[k + 1].args[0], fn, anywhere=True)
    return None


def rule_nm1(ctx: Ctx) -> RuleResult:
    r = RuleResult("NM-1", "math aggregates: update recurrences and output formulas equal the reference ones as rational functions; variances use centred forms")

    def fail(what, m, node, msg, p=None):
        return lambda: Finding("NM-1", what, m.where(node), msg, trace_of(p) if p is not None else [])

    # ---------------- sum ------------------------------------------------
    m, fn, call, acc, seed = _acc_of(ctx, "rxsci/math/sum.py", "sum")
    r.instances += 1
    A, I = ("arg", m.scopes[acc].params[0]), ("arg", m.scopes[acc].params[1])
    for p in ctx.fn_paths(m, acc, ctxb=BIND.get(id(acc))):
        r.paths += 1
        r.groups.add(("sum",))
        x = [e.result for e in p.trace if e.k == "ucall" and e.name == "key_mapper" and tuple(e.args) == (I,)]
        v = rf(p.value) if p.value is not None else None
        ok = len(x) == 1 and v is not None and v.equals(RF(Poly.atom(A)).add(RF(Poly.atom(x[0]))))
        r.ob(ok, fail("rxsci/math/sum.py::sum.accumulate", m, acc, "the running sum must be acc + key_mapper(item); it is %s" % (show(p.value) if p.value else None), p))
    r.ob(seed is not None and isinstance(seed, ast.Constant) and seed.value == 0, fail("rxsci/math/sum.py::sum{seed}", m, call, "the sum must start at 0"))
    # ---------------- mean -------------------------------------------------
    m, fn, call, acc, seed = _acc_of(ctx, "rxsci/math/mean.py", "mean")
    r.instances += 1
    A, I = ("arg", m.scopes[acc].params[0]), ("arg", m.scopes[acc].params[1])
    for p in ctx.fn_paths(m, acc, ctxb=BIND.get(id(acc))):
        r.paths += 1
        r.groups.add(("mean",))
        x = [e.result for e in p.trace if e.k == "ucall" and e.name == "key_mapper" and tuple(e.args) == (I,)]
        v = p.value
        ok = len(x) == 1 and v is not None and v[0] == "tuple" and len(v) == 3
        if ok:
            s, n = rf(v[1], strip_uid), rf(v[2], strip_uid)
            a0, a1 = RF(Poly.atom(strip_uid(("sub", A, ("const", 0))))), RF(Poly.atom(strip_uid(("sub", A, ("const", 1)))))
            ok = s is not None and n is not None and s.equals(a0.add(RF(Poly.atom(strip_uid(x[0]))))) and n.equals(a1.add(RF(Poly.const(1))))
        r.ob(ok, fail("rxsci/math/mean.py::mean.accumulate", m, acc, "the mean accumulator must be (sum + key_mapper(item), count + 1); it is %s" % (show(v) if v else None), p))
    r.ob(seed is not None and ast.unparse(seed) in ("(0, 0)", "(0.0, 0)"), fail("rxsci/math/mean.py::mean{seed}", m, call, "the mean must start at (0, 0)"))
    mp = _mapper_after(ctx, m, fn, call)
    if mp is None:
        raise AnalysisError("mean: the mapper that divides sum by count was not found")
    MP = ("arg", ctx.module_of(mp).scopes[mp].params[0])
    okm = False
    for p in ctx.fn_paths(ctx.module_of(mp), mp):
        r.paths += 1
        v = p.value
        if v is not None and v != ("const", None):
            q = rf(v, strip_uid)
            okm = q is not None and q.equals(RF(Poly.atom(strip_uid(("sub", MP, ("const", 0))))).div(RF(Poly.atom(strip_uid(("sub", MP, ("const", 1)))))))
            r.ob(okm, fail("rxsci/math/mean.py::mean{output}", m, mp, "the mean must be sum / count; it is %s" % show(v), p))
    r.ob(okm, fail("rxsci/math/mean.py::mean{output-path}", m, mp, "no path of the output mapper returns sum / count"))
    # ---------------- min / max ----------------------------------------------
    for rel, name, want in (("rxsci/math/min.py", "min", ("Lt", "LtE")), ("rxsci/math/max.py", "max", ("Gt", "GtE"))):
        m, fn, call, acc, seed = _acc_of(ctx, rel, name)
        r.instances += 1
        A, I = ("arg", m.scopes[acc].params[0]), ("arg", m.scopes[acc].params[1])
        saw_new = saw_keep = False
        for p in ctx.fn_paths(m, acc, ctxb=BIND.get(id(acc))):
            r.paths += 1
            r.groups.add((name, len(r.groups)))
            x = [e.result for e in p.trace if e.k == "ucall" and e.name == "key_mapper"]
            if len(x) != 1:
                r.ob(False, fail("%s::%s.accumulate" % (rel, name), m, acc, "key_mapper must be applied once to the item", p))
                continue
            x = x[0]
            none_t = [e for e in p.trace if e.k == "decision" and e.test[0] == "cmp" and e.test[1] in ("Is", "Eq") and {e.test[2], e.test[3]} == {A, ("const", None)}]
            cmpd = [e for e in p.trace if e.k == "decision" and e.test[0] == "cmp" and {e.test[2], e.test[3]} == {x, A}]
            better = None
            for e in cmpd:
                op = e.test[1] if e.test[2] == x else {"Lt": "Gt", "Gt": "Lt", "LtE": "GtE", "GtE": "LtE"}.get(e.test[1], e.test[1])
                if op in want:
                    better = e.outcome
                elif op in ("Lt", "LtE", "Gt", "GtE"):
                    better = "wrong:%s" % op
            first = bool(none_t) and none_t[0].outcome
            v = p.value
            if first or better is True:
                saw_new = True
                okp = v == x
            elif better is False:
                saw_keep = True
                okp = v == A
            else:
                okp = False
            r.ob(okp, fail("%s::%s.accumulate" % (rel, name), m, acc,
                           "%s must keep the accumulator unless it is unset or the new value is %s; on the path [%s] it returns %s" % (
                               name, "smaller" if name == "min" else "larger", "; ".join(e.brief() for e in p.trace if e.k == "decision"), show(v) if v else None), p))
        r.ob(saw_new and saw_keep, fail("%s::%s{paths}" % (rel, name), m, acc, "%s needs a 'take the new value' and a 'keep' path" % name))
        r.ob(seed is not None and isinstance(seed, ast.Constant) and seed.value is None, fail("%s::%s{seed}" % (rel, name), m, call, "%s must start unset (None)" % name))
    # ---------------- variance (Welford) ----------------------------------------
    m, fn, call, acc, seed = _acc_of(ctx, "rxsci/math/variance.py", "variance")
    r.instances += 1
    A, I = ("arg", m.scopes[acc].params[0]), ("arg", m.scopes[acc].params[1])
    M0 = RF(Poly.atom(strip_uid(("sub", A, ("const", 0)))))
    S0 = RF(Poly.atom(strip_uid(("sub", A, ("const", 1)))))
    K0 = RF(Poly.atom(strip_uid(("sub", A, ("const", 2)))))
    ONE = RF(Poly.const(1))
    saw_first = saw_update = False
    for p in ctx.fn_paths(m, acc, ctxb=BIND.get(id(acc))):
        r.paths += 1
        r.groups.add(("variance", len(r.groups)))
        x = [e.result for e in p.trace if e.k == "ucall" and e.name == "key_mapper"]
        v = p.value
        if len(x) != 1 or v is None or v[0] != "tuple" or len(v) != 4:
            r.ob(False, fail("rxsci/math/variance.py::variance.accumulate", m, acc, "the accumulator must return (mean, M2, count)", p))
            continue
        X = RF(Poly.atom(strip_uid(x[0])))
        mm, ss, kk = rf(v[1], strip_uid), rf(v[2], strip_uid), rf(v[3], strip_uid)
        first = [e for e in p.trace if e.k == "decision" and e.test[0] == "cmp" and e.test[1] in ("Is", "Eq") and ("const", None) in (e.test[2], e.test[3])]
        K1 = K0.add(ONE)
        if first and first[0].outcome:
            saw_first = True
            ok = mm is not None and mm.equals(X) and ss is not None and ss.equals(S0) and kk is not None and kk.equals(K1)
            r.ob(ok, fail("rxsci/math/variance.py::variance.accumulate{first}", m, acc,
                          "for the first item the state must become (x, M2, count + 1); it becomes %s" % show(v), p))
        else:
            saw_update = True
            m_ref = M0.add(X.add(M0, -1).div(K1))
            s_ref = S0.add(X.add(M0, -1).mul(X.add(m_ref, -1)))
            ok = all(z is not None for z in (mm, ss, kk)) and kk.equals(K1) and mm.equals(m_ref) and ss.equals(s_ref)
            why = []
            if kk is None or not kk.equals(K1):
                why.append("count' != count + 1")
            if mm is None or not mm.equals(m_ref):
                why.append("mean' != mean + (x - mean)/count'")
            if ss is None or not ss.equals(s_ref):
                why.append("M2' != M2 + (x - mean)(x - mean')")
            r.ob(ok, fail("rxsci/math/variance.py::variance.accumulate{update}", m, acc,
                          "the running (mean, M2, count) invariant determines the update uniquely (Welford): %s; the code computes %s" % ("; ".join(why), show(v)), p))
    r.ob(saw_first and saw_update, fail("rxsci/math/variance.py::variance{paths}", m, acc, "the first-item and the update paths were not both found"))
    r.ob(seed is not None and ast.unparse(seed) in ("(None, 0, 0)", "(None, 0.0, 0)"), fail("rxsci/math/variance.py::variance{seed}", m, call, "the state must start at (None, 0, 0)"))
    mp = _mapper_after(ctx, m, fn, call)
    if mp is None:
        raise AnalysisError("variance: output mapper not found")
    MP = ("arg", ctx.module_of(mp).scopes[mp].params[0])
    K = strip_uid(("sub", MP, ("const", 2)))
    S = strip_uid(("sub", MP, ("const", 1)))
    for p in ctx.fn_paths(ctx.module_of(mp), mp):
        r.paths += 1
        d = [e for e in p.trace if e.k == "decision"]
        small = None
        for e in d:
            nf = normalise_cmp(strip_uid(e.test), e.outcome)
            if nf is not None and dict(nf[1]).keys() == {K}:
                op, co, c = nf
                s_ = 1 if dict(co)[K] > 0 else -1
                op2 = op if s_ == 1 else {"GtE": "LtE", "LtE": "GtE", "Gt": "Lt", "Lt": "Gt"}.get(op, op)
                c2 = c * s_
                if (op2 == "Lt" and c2 == -2) or (op2 == "LtE" and c2 == -1):
                    small = True
                elif (op2 == "GtE" and c2 == -2) or (op2 == "Gt" and c2 == -1):
                    small = False
        v = p.value
        if small is True:
            okp = v is not None and v[0] == "const" and v[1] == 0
            msg = "the variance of fewer than two items must be 0"
        elif small is False:
            q = rf(strip_uid(v)) if v is not None else None
            okp = q is not None and q.equals(RF(Poly.atom(S)).div(RF(Poly.atom(K)).add(ONE, -1)))
            msg = "the sample variance must be M2 / (count - 1)"
        else:
            okp = False
            msg = "the output does not distinguish count < 2"
        r.ob(okp, fail("rxsci/math/variance.py::variance{output}", m, mp, "%s; it is %s on [%s]" % (msg, show(v) if v else None, "; ".join(e.brief() for e in d)), p))
    # ---------------- formal variance (two pass) -----------------------------------
    rel = "rxsci/math/formal/variance.py"
    m, fn, call, acc, seed = _acc_of(ctx, rel, "variance")
    r.instances += 1
    mp = _mapper_after(ctx, m, fn, call)
    if mp is None:
        raise AnalysisError("formal.variance: output mapper not found")
    MP = ("arg", ctx.module_of(mp).scopes[mp].params[0])
    saw = False
    moment_fns = set()
    for p in ctx.fn_paths(ctx.module_of(mp), mp, inline=False):
        r.paths += 1
        v = p.value
        empty = [e for e in p.trace if e.k == "decision" and any(x[0] == "call" and x[1] == ("builtin", "len") for x in subterms(e.test))]
        is_empty = None
        for e in empty:
            nf = normalise_cmp(e.test, e.outcome)
            if nf is not None:
                op, co, c = nf
                if (op == "Eq" and c == 0) or (op == "LtE" and c == 0) or (op == "Lt" and c == -1):
                    is_empty = True
                elif (op == "NotEq" and c == 0) or (op == "Gt" and c == 0) or (op == "GtE" and c == -1):
                    is_empty = False
        if is_empty:
            r.ob(v is not None and v[0] == "const" and v[1] == 0, fail(rel + "::variance._variance{empty}", m, mp, "the variance of no item is 0.0; returned %s" % (show(v) if v else None), p))
            continue
        saw = True
        vv = strip_uid(v) if v is not None else None

        # the moment helper: the repository function the result is a call of
        if vv is not None and vv[0] == "call" and vv[1][0] == "func":
            moment_fn = vv[1]
        else:
            moment_fn = next((x[1] for x in (subterms(vv) if vv is not None else ()) if x[0] == "call" and x[1][0] == "func" and len(x[2]) == 3), None)
        if moment_fn is not None:
            moment_fns.add((moment_fn[2], moment_fn[1]))

        # which parameter of the helper is the sample, the centre and the order: by what its body does with them
        # (sum((x_i - centre) ** order) / len(sample)); the call sites are read through these positions
        def roles(mfn):
            mm2, f2 = mfn[2], mfn[1]
            names = [a.arg for a in f2.args.args]
            order = centre = sample = None
            for n_ in ast.walk(f2):
                if isinstance(n_, ast.BinOp) and isinstance(n_.op, ast.Pow) and isinstance(n_.right, ast.Name) and n_.right.id in names:
                    order = n_.right.id
                    if isinstance(n_.left, ast.BinOp) and isinstance(n_.left.op, ast.Sub) and isinstance(n_.left.right, ast.Name) and n_.left.right.id in names:
                        centre = n_.left.right.id
                if isinstance(n_, ast.Call) and isinstance(n_.func, ast.Name) and n_.func.id == "len" and n_.args and isinstance(n_.args[0], ast.Name) \
                        and n_.args[0].id in names:
                    sample = n_.args[0].id
            if None in (order, centre, sample) or len({order, centre, sample}) != 3:
                return None
            return names.index(sample), names.index(centre), names.index(order)
        pos_ = roles(moment_fn) if moment_fn is not None else None
        if moment_fn is not None and pos_ is None:
            raise AnalysisError("formal.variance: cannot tell the sample / centre / order parameters of %s" % moment_fn[1].name)

        def is_moment(t, c, n):
            if not (t[0] == "call" and t[1] == moment_fn and len(t[2]) == 3 and all(a[0] != "kw" for a in t[2])):
                return False
            ix, ic, io_ = pos_
            return t[2][ix] == MP and t[2][io_] == ("const", n) and (c is None or t[2][ic] == c)

        def centre_of(t):
            return t[2][pos_[1]]
        mean_t = ("call", vv[1], (MP, ("const", 0), ("const", 1))) if vv is not None and vv[0] == "call" else None
        good = vv is not None and is_moment(vv, None, 2) and is_moment(centre_of(vv), ("const", 0), 1)
        raw = vv is not None and any(is_moment(x, ("const", 0), 2) for x in subterms(vv))
        if raw and not good:
            r.ob(False, fail(rel + "::variance._variance{raw-moment}", m, mp,
                             "the variance is computed from the raw second moment E[x^2] minus mean^2 (%s): for data whose mean is large compared with its spread "
                             "the two terms cancel and all digits are lost (even negative results); the centred moment _moment(acc, mean, 2) must be used" % show(vv), p))
        else:
            r.ob(good, fail(rel + "::variance._variance{centred}", m, mp,
                            "the population variance must be the second moment about the mean, _moment(acc, _moment(acc, 0, 1), 2); it is %s" % (show(vv) if vv else None), p))
    r.ob(saw, fail(rel + "::variance._variance{paths}", m, mp, "no non-empty path found"))
    # _moment: sum((x[i] - c)**n) / len(x), as an explicit loop or as a comprehension over x
    if len(moment_fns) != 1:
        raise AnalysisError("formal.variance: the moment helper called by the output mapper was not identified (%d candidates)" % len(moment_fns))
    mm_, mf = next(iter(moment_fns))
    r.instances += 1
    okm = False
    rl = roles(("func", mf, mm_))
    if rl is None:
        raise AnalysisError("formal.variance: cannot tell the sample / centre / order parameters of %s" % mf.name)
    prm = mm_.scopes[mf].params
    X, C, N = ("arg", prm[rl[0]]), ("arg", prm[rl[1]]), ("arg", prm[rl[2]])
    for p in ctx.fn_paths(mm_, mf, max_iter=1):
        r.paths += 1
        v = strip_uid(p.value) if p.value is not None else None
        if v is None or v[0] != "binop":
            continue
        if any(e.k == "loopexit" and e.n == 0 for e in p.trace):
            continue        # the loop over x is the quantifier over the items, not an optional path
        okret = v[1] == "Div" and v[2][0] == "call" and v[2][1] == ("builtin", "sum") and \
            v[3][0] == "call" and v[3][1] == ("builtin", "len") and v[3][2][0] == X
        summed = v[2][2][0] if okret else None
        okterm = False
        shown = None
        if summed is not None and summed[0] == "comp" and len(summed) >= 5:
            elt, iters = summed[3], summed[4]
            shown = elt
            if len(iters) == 1 and elt[0] == "binop" and elt[1] == "Pow" and elt[3] == N and elt[2][0] == "binop" and elt[2][1] == "Sub" and elt[2][3] == C:
                item = elt[2][2]
                # for v in x  /  for i in range(len(x)) with x[i]
                okterm = (iters[0] == X and item[0] == "compvar") or \
                    (item[0] == "sub" and item[1] == X and item[2][0] == "compvar" and iters[0][0] == "call" and iters[0][1] == ("builtin", "range"))
                # the terms are a multiset: a set (or dict) comprehension keeps one of several equal terms while len(x) counts them all
                if isinstance(summed[1], str) and summed[1].lstrip().startswith("{"):
                    okterm = False
        else:
            apps = [e for e in p.trace if e.k == "mutate" and e.method == "append"]
            its = [e for e in p.trace if e.k == "loopiter"]
            if its and apps:
                t = strip_uid(apps[0].args[0])
                shown = t
                lv = its[0].var
                okterm = (t == ("binop", "Pow", ("binop", "Sub", ("sub", X, lv), C), N) and its[0].iter[0] == "call" and its[0].iter[1] == ("builtin", "range")) or \
                    (t == ("binop", "Pow", ("binop", "Sub", lv, C), N) and its[0].iter == X)
                okterm = okterm and summed == strip_uid(apps[0].base)
        okm = okm or (okterm and okret)
        r.ob(okterm and okret, fail("%s::%s" % (mm_.relpath, mf.name), mm_, mf,
                                    "_moment must be sum((x[i] - c) ** n) / len(x); it accumulates %s and returns %s" % (show(shown) if shown else None, show(v)), p))
    r.ob(okm, fail("%s::%s{paths}" % (mm_.relpath, mf.name), mm_, mf, "the moment formula was not found"))
    # ---------------- stddev = sqrt(variance) ------------------------------------------
    for rel, inner in (("rxsci/math/stddev.py", "rxsci.math.variance.variance"), ("rxsci/math/formal/stddev.py", "rxsci.math.formal.variance.variance")):
        m, fn = ctx.function(rel, "stddev")
        r.instances += 1
        calls = [n for n in ast.walk(fn) if isinstance(n, ast.Call) and dotted_name(n.func)]
        inner_ok = False
        var_call = None
        for c in calls:
            ref = ctx.program.resolve_dotted(m, dotted_name(c.func))
            if ref[0] == "def" and "%s.%s" % (ref[1].name, ref[2].name) == inner:
                var_call = c
                args = [ast.unparse(a) for a in c.args] + ["%s=%s" % (k.arg, ast.unparse(k.value)) for k in c.keywords]
                inner_ok = args in (["key_mapper", "reduce=reduce"], ["key_mapper=key_mapper", "reduce=reduce"], ["key_mapper", "reduce"])
        r.ob(inner_ok, fail(rel + "::stddev{inner}", m, fn, "stddev must build on %s(key_mapper, reduce=reduce)" % inner))
        # the mapper applied to the variance: math.sqrt(v) (None forwarded)
        sq_ok = False
        if var_call is not None:
            mp = _mapper_after(ctx, m, fn, var_call)
            if mp is not None:
                mpm = ctx.module_of(mp)
                A0 = ("arg", mpm.scopes[mp].params[0])
                rets = []
                for p in ctx.fn_paths(mpm, mp):
                    r.paths += 1
                    if p.value is not None:
                        rets.append(strip_uid(p.value))
                good = [v for v in rets if v == ("call", ("glob", "math.sqrt"), (A0,))]
                other = [v for v in rets if v not in good and v != ("const", None)]
                sq_ok = bool(good) and not other
        r.ob(sq_ok, fail(rel + "::stddev{sqrt}", m, fn, "the standard deviation must be math.sqrt(variance) (None forwarded as None)"))
    r.require_instances(9)
    return r
