"""Two-way self-test of the checker (thorough tier).

Every entry is an in-memory variant of one source file of today's tree:
  expect='fire'   a seeded defect: at least one of the named rules must report it;
  expect='silent' a behaviour-preserving edit: no rule of the property may report anything.
Variants are analysed with ``Program.overlay`` (nothing is written to /repo, nothing
is executed).  An entry whose ``old`` text is not found exactly once is skipped
(the tree has changed there) and counted as such.  Results go into the evidence;
they never produce a VIOLATION line.
"""
from __future__ import annotations

import os
from concurrent.futures import ProcessPoolExecutor

from .loader import AnalysisError, Program

R = "rxsci/"
M = []


def m(prop, rel, old, new, expect, rules=(), note=""):
    M.append(dict(id="%s-%03d" % (prop, len(M)), prop=prop, rel=R + rel, old=old, new=new, expect=expect, rules=tuple(rules), note=note))


# ---------------------------------------------------------------- C01
m('C01', 'operators/scan.py', '                value = state\n                if has_state is False:\n                    value = seed() if callable(seed) else copy.deepcopy(seed)\n                state = accumulator(value, i)', '                value = state\n                if state is False:\n                    value = seed() if callable(seed) else copy.deepcopy(seed)\n                state = accumulator(value, i)', 'fire', ['AG-3b', 'AG-3'], 'hand mutant: obs: unset test on the value (first item folds from None)')
m('C01', 'operators/scan.py', '                state = accumulator(value, i)\n                has_state = True', '                state = accumulator(value, i)\n                has_state = False', 'fire', ['AG-3b', 'AG-3'], 'hand mutant: obs: has_state never set (every item folds from seed)')
m('C01', 'operators/scan.py', '                    value = state\n                    if has_state is False:\n                        value = seed() if callable(seed) else copy.deepcopy(seed)\n                    state = terminator(value)', '                    value = state\n                    if state is False:\n                        value = seed() if callable(seed) else copy.deepcopy(seed)\n                    state = terminator(value)', 'fire', ['AG-3b', 'AG-3'], 'hand mutant: obs: terminator on None for empty source')
m('C01', 'operators/do_action.py', '                        on_next(i.item)', '                        on_next(i)', 'fire', ['AG-3d'], 'hand mutant: event instead of item')
m('C01', 'operators/do_action.py', '                    if on_completed is not None:\n                        on_completed(i.key)\n', '                    pass\n', 'fire', ['AG-3d'], 'hand mutant: never calls on_completed per key')
m('C01', 'operators/do_action.py', '                        on_error(i.error)', '                        on_error(i)', 'fire', ['AG-3d'], 'hand mutant: event to on_error')
m('C01', 'operators/do_action.py', '                elif type(i) is rs.OnErrorMux:\n                    if on_error is not None:', '                elif type(i) is rs.OnCompletedMux:\n                    if on_error is not None:', 'fire', ['AG-3d'], 'hand mutant: error callback on completion')
m('C01', 'operators/do_action.py', '                        on_create(i.key)\n\n                observer.on_next(i)', '                        on_create(i.key)\n                        return\n\n                observer.on_next(i)', 'fire', ['AG-3d'], 'hand mutant: create swallowed')
m('C01', 'operators/do_action.py', '                    if on_next is not None:\n                        on_next(i.item)', '                    observer.on_next(i)\n                    if on_next is not None:\n                        on_next(i.item)\n                    return', 'fire', ['AG-3d'], 'hand mutant: action after forwarding')
m('C01', 'operators/do_action.py', '            return do_action_mux(on_next, on_error, on_completed, on_create)(source)', '            return do_action_mux(on_next, on_completed, on_error, on_create)(source)', 'fire', ['AG-3d'], 'hand mutant: swapped callbacks at dispatch')
m('C01', 'operators/do_action.py', '                if on_completed is not None:\n                    on_completed(None)\n', '', 'silent')
m('C01', 'operators/do_action.py', 'def do_action_mux(on_next=None, on_error=None, on_completed=None, on_create=None):', 'def do_action_mux(next_action=None, on_error=None, on_completed=None, on_create=None):\n    on_next = next_action', 'silent')
m("C01", "math/stddev.py", "rs.ops.map(lambda i: math.sqrt(i) if i is not None else None)", "ops.map(lambda i: math.sqrt(i) if i is not None else None)", "fire", ["AG-1"], "RxPY map in a dual operator")
m("C01", "operators/take.py", "return ops.take(count)(source)", "return ops.take(count + 1)(source)", "fire", ["AG-2"])
m("C01", "operators/flat_map.py", "                        observer.on_next(i._replace(item=ii))\n", "                        observer.on_next(i._replace(item=ii))\n                        break\n", "fire", ["AG-3"])
m("C01", "operators/filter.py", "                        if emit:\n", "                        if emit is True:\n", "fire", ["AG-3m"], "the filter defect repaired by c6baadb, re-introduced")
m("C01", "operators/filter.py", "                        if emit:\n", "                        if bool(emit):\n", "silent")
m("C01", "operators/map.py", "mapper(i.item)", "mapper(i)", "fire", ["AG-3m"], "the mapper receives the event instead of the item")
m("C01", "operators/assert_.py", "                if last is not NO_VALUE:", "                if last is not None:", "fire", ["AG-3b"], "the repaired defect")
m("C01", "operators/scan.py", "                    state = terminator(value)\n                    has_state = True\n                    if reduce is False:\n                        observer.on_next(state)", "                    state = terminator(value)\n                    has_state = True\n                    observer.on_next(state)", "fire", ["AG-3"])
m("C01", "operators/map.py", "if type(i) is rs.OnNextMux:", "if isinstance(i, rs.OnNextMux):", "silent")
m("C01", "operators/assert_.py", "                if last is not NO_VALUE:\n                    if predicate(last, i) is True:", "                if NO_VALUE is not last:\n                    if predicate(last, i) is True:", "silent")
# ---------------------------------------------------------------- C02
m("C02", "operators/first.py", "                    i.store.add_key(state, i.key)\n", "", "fire", ["ST-2", "ST-3"])
m("C02", "data/roll.py", "i.store.add_key(state_w, (i.key[0]*density+offset, i.key))", "i.store.add_key(state_w, (i.key[0]+offset, i.key))", "fire", ["ST-3", "ST-6"])
m("C02", "data/roll.py", "                        index = i.key[0] * density + offset\n                        i.store.set_state(state_w, (index, i.key), n)", "                        index = i.key[0] + offset\n                        i.store.set_state(state_w, (index, i.key), n)", "fire", ["ST-3", "ST-6"])
m("C02", "operators/scan.py", "                    i.store.add_key(state, i.key)\n                    observer.on_next(i)", "                    if seed is not None:\n                        i.store.add_key(state, i.key)\n                    observer.on_next(i)", "fire", ["ST-2"])
m("C02", "operators/tee_map.py", "                        # a lifetime ended by an error leaves values behind\n                        base_index = x.key[0] * n\n                        for index in range(n):\n                            queue[base_index+index] = None\n                            has_next[base_index+index] = False\n                    observer.on_next(x)", "                    observer.on_next(x)", "fire", ["ST-5"], "re-introduces the repaired defect 4dc75fc: the join slots of a key are cleared at completion only, a lifetime ended by a mux error leaks into the next")
m("C02", "operators/tee_map.py", "                        # a lifetime ended by an error leaves values behind\n                        base_index = x.key[0] * n\n                        for index in range(n):\n                            queue[base_index+index] = None\n                            has_next[base_index+index] = False\n", "                            base_index = x.key[0] * n\n                            for index in range(n):\n                                queue[base_index+index] = None\n                                has_next[base_index+index] = False\n", "fire", ["ST-5"], "round r: the slots cleared only when the tables grow (a reset under a condition is no reset)")
m("C02", "operators/tee_map.py", "                        # a lifetime ended by an error leaves values behind\n                        base_index = x.key[0] * n\n                        for index in range(n):\n                            queue[base_index+index] = None\n                            has_next[base_index+index] = False\n", "                        base_index = x.key[0] * n\n                        queue[base_index:base_index+n] = [None] * n\n                        has_next[base_index:base_index+n] = array('B', [False] * n)\n", "silent", [], "round r: the key's slots cleared by two slice assignments")
m("C02", "operators/tee_map.py", "                        # a lifetime ended by an error leaves values behind\n                        base_index = x.key[0] * n\n                        for index in range(n):\n                            queue[base_index+index] = None\n                            has_next[base_index+index] = False\n", "                        base_index = x.key[0] * n\n                        queue[base_index:base_index+n-1] = [None] * (n-1)\n                        has_next[base_index:base_index+n] = array('B', [False] * n)\n", "fire", ["ST-5"], "round r: the slice leaves the last branch's slot out")
m("C02", "operators/tee_map.py", "                        # a lifetime ended by an error leaves values behind\n                        base_index = x.key[0] * n\n                        for index in range(n):\n                            queue[base_index+index] = None\n                            has_next[base_index+index] = False\n                    observer.on_next(x)\n                return\n\n            elif isinstance(x, rs.OnCompletedMux):", "                    observer.on_next(x)\n                return\n\n            elif isinstance(x, rs.OnErrorMux):\n                if zip is True or combine is True:\n                    base_index = x.key[0] * n\n                    for index in range(n):\n                        queue[base_index+index] = None\n                        has_next[base_index+index] = False\n                observer.on_next(x)\n                return\n\n            elif isinstance(x, rs.OnCompletedMux):", "fire", ["ST-5"], "the slots cleared when the key completes and when a mux error passes, not when it is created: first written here as an equivalent form, shown to be a defect by seeded change C08s (a mux error is one failing item of a key that goes on)")
m("C19", "io/file.py", "                    f = open_obj(file, mode, encoding=encoding)", "                    kwargs = dict(mode=mode, encoding=encoding)\n                    f = open_obj(file, **kwargs)", "silent", [], "round r: the opener's arguments in a dict(...) that always carries mode and encoding")
m("C19", "io/file.py", "                    f = open_obj(file, mode, encoding=encoding)", "                    f = open_obj(file, mode)", "fire", ["FH-1"], "round r: the opener is not given the encoding keyword")
m("C19", "io/file.py", "                    with open_obj(file, mode, encoding=encoding) as f:", "                    with open_obj(file, mode) as f:", "fire", ["FR-3"], "round r: the opener of file.read is not given the encoding keyword")
m("C18", "container/csv.py", "                if i in none_values:\n", "                if i in none_values or len(i) == 0:\n", "fire", ["CS-1"], "round r: an empty field read as None whatever its column (the empty string is written as two quotes)")
m("C20", "container/parquet.py", "                pf = pq.parquet_file = pq.ParquetFile(\n                    filename,", "                pf = pq.parquet_file = pq.ParquetFile(\n                    io.BytesIO(filename.read()),", "fire", ["PU-2"], "round r: the reader opened on a copy taken with read() from wherever the caller left the object")
m("C19", "io/file.py", "                    f = open_obj(file, mode, encoding=encoding)", "                    f = open_obj(file, encoding=encoding)", "fire", ["FH-1"], "round r: the opener is not given the mode")
m("C02", "operators/tee_map.py", "                            queue[base_index+index] = None\n                            has_next[base_index+index] = False\n                return", "                            queue[base_index+index] = None\n                            has_next[index] = False\n                return", "fire", ["ST-5"], "a reset that lands in the slots of key 0 (seeded change C02d, still a defect after 4dc75fc)")
m("C02", "operators/tee_map.py", "                        for index in range(n):\n                            queue[base_index+index] = None\n                            has_next[base_index+index] = False\n                return", "                        queue[base_index+i] = None\n                        has_next[base_index+i] = False\n                return", "silent", [], "the defect repaired first (completion cleared one slot only) is harmless since 4dc75fc: the slots are cleared again when the key index is created")
m("C02", "operators/last.py", "            state = None\n\n            def on_next(i):\n                nonlocal state\n\n                if type(i) is rs.OnNextMux:\n                    i.store.set_state(state, i.key, i.item)", "            state = None\n            last_item = [None]\n\n            def on_next(i):\n                nonlocal state\n\n                if type(i) is rs.OnNextMux:\n                    last_item[0] = i.item\n                    i.store.set_state(state, i.key, i.item)", "fire", ["ST-1"])
m("C02", "operators/take.py", "                    observer.on_next(i)\n                    i.store.del_key(state, i.key)", "                    i.store.del_key(state, i.key)\n                    observer.on_next(i)", "silent", note="release before forwarding")
m("C02", "operators/first.py", "                    value = i.store.get_state(state, i.key)\n                    if value is False:", "                    seen = i.store.get_state(state, i.key)\n                    if seen is False:", "silent", note="renamed local")
# ---------------------------------------------------------------- C03
m('C03', 'state/with_store.py', '            store.set_topology(topology)\n            subscribe_all()', '            subscribe_all()', 'fire', ['MX-6'], 'hand mutant: sources: topology never registered')
m('C03', 'state/with_store.py', '            store.set_topology(topology)\n            subscribe_all()', '            subscribe_all()\n            store.set_topology(topology)', 'fire', ['MX-6'], 'hand mutant: sources: registered after subscribing')
m('C03', 'state/with_store.py', '        observer.on_next(ProbeStateTopology(topology))\n\n        if all(', '        if all(', 'fire', ['MX-6'], 'hand mutant: sources: no probe')
m('C03', 'operators/last.py', '                elif type(i) is rs.OnErrorMux:\n                    observer.on_next(i)\n                    i.store.del_key(state, i.key)', '                elif type(i) is rs.OnErrorMux:\n                    observer.on_next(i)\n                    i.key.del_key(state, i.key)', 'fire', ['EV-1'], 'mutant: a method of the key tuple in the Error branch')
m('C03', 'operators/last.py', '                        observer.on_next(rs.OnNextMux(i.key, value, i.store))', '                        observer.on_next(rs.OnNextMux(i.key, value, i.key))', 'fire', ['EV-1'], 'mutant: constructed event carries the key as its store')
m('C03', 'operators/group_by.py', '                elif type(i) is rs.OnErrorMux:\n                    for k in i.store.iterate_map(state, i.key):', '                elif type(i) is rs.OnErrorMux:\n                    for k in i.store.iterate_map(state, i.item):', 'fire', ['EV-1', 'ST-8'], 'mutant: .item of an OnErrorMux')
m('C03', 'operators/group_by.py', '                    for k in i.store.iterate_map(state, i.key):\n                        index = i.store.get_map(state, i.key, k)\n                        observer.on_next(i._replace(key=(index, i.key)))\n                        i.store.del_map(state, i.key, k)\n                    i.store.del_key(state, i.key)\n                    outer_observer.on_next(i)\n\n                elif type(i) is rs.state.ProbeStateTopology', '                    for k in i.store.iterate_map(i.key, state):\n                        index = i.store.get_map(state, i.key, k)\n                        observer.on_next(i._replace(key=(index, i.key)))\n                        i.store.del_map(state, i.key, k)\n                    i.store.del_key(state, i.key)\n                    outer_observer.on_next(i)\n\n                elif type(i) is rs.state.ProbeStateTopology', 'fire', ['ST-8'], 'hand mutant: swap iterate_map args in Error branch')
m("C03", "data/roll.py", "if count > 0:", "if count >= 0:", "fire", ["LV"])
m("C03", "data/split.py", "                elif type(i) is rs.OnCreateMux:\n                    i.store.add_key(state, i.key)\n", "                elif type(i) is rs.OnCreateMux:\n", "fire", ["LV"])
m("C03", "data/time_split.py", "                        observer.on_next(rs.OnCompletedMux((i.key[0], i.key), i.store))\n                        observer.on_next(rs.OnCreateMux((i.key[0], i.key), i.store))\n                    elif", "                        observer.on_next(rs.OnCompletedMux((i.key[0], i.key), i.store))\n                    elif", "fire", ["LV"])
m("C03", "operators/group_by.py", "                    i.store.del_key(state, i.key)\n                    outer_observer.on_next(i)\n\n                elif type(i) is rs.OnErrorMux", "                    outer_observer.on_next(i)\n                    i.store.del_key(state, i.key)\n\n                elif type(i) is rs.OnErrorMux", "silent", note="store release after the outer event")
m("C03", "operators/group_by.py", "                elif type(i) is rs.OnCompletedMux:\n                    for k in i.store.iterate_map(state, i.key):\n                        index = i.store.get_map(state, i.key, k)\n                        observer.on_next(i._replace(key=(index, i.key)))\n                        i.store.del_map(state, i.key, k)\n                    i.store.del_key(state, i.key)\n                    outer_observer.on_next(i)", "                elif type(i) is rs.OnCompletedMux:\n                    outer_observer.on_next(i)\n                    for k in i.store.iterate_map(state, i.key):\n                        index = i.store.get_map(state, i.key, k)\n                        observer.on_next(i._replace(key=(index, i.key)))\n                        i.store.del_map(state, i.key, k)\n                    i.store.del_key(state, i.key)", "fire", ["LV", "MX-2"], "outer completion before the groups")
m("C03", "operators/tee_map.py", "                if i == n-1:\n                    observer.on_next(x)", "                if i == 0:\n                    observer.on_next(x)", "fire", ["MX-7"])
m("C03", "operators/multiplex.py", "            observer.on_next(rs.OnCreateMux((0,)))\n            return source.subscribe(", "            return source.subscribe(", "fire", ["MX-6"])
m("C03", "operators/multiplex.py", "                if type(i) is rs.OnNextMux:\n                    observer.on_next(i._replace(key=i.key[1]))", "                if type(i) is rs.OnNextMux:\n                    observer.on_next(i)", "fire", ["MX-5"])
m("C03", "operators/scan.py", "                    observer.on_next(i)\n                    i.store.del_key(state, i.key)\n                elif type(i) is rs.OnErrorMux:", "                    i.store.del_key(state, i.key)\n                elif type(i) is rs.OnErrorMux:", "fire", ["MX-2"], "completion swallowed")
m("C03", "data/split.py", "                elif isinstance(i, rs.OnCompletedMux):\n                    current_predicate = i.store.get_state(state, i.key)\n                    if current_predicate is not rs.state.markers.STATE_NOTSET:", "                elif isinstance(i, rs.OnCompletedMux):\n                    current_predicate = i.store.get_state(state, i.key)\n                    if current_predicate is rs.state.markers.STATE_NOTSET:", "fire", ["LV"])
m("C03", "data/roll.py", "                if isinstance(i, rs.OnNextMux):\n                    n = i.store.get_state(state_n, i.key)", "                if type(i) is rs.OnNextMux:\n                    n = i.store.get_state(state_n, i.key)", "silent")
m("C03", "data/roll.py", "                            if count == window:\n                                i.store.set_state(state_w, (index, i.key), -1)\n                                observer.on_next(rs.OnCompletedMux((index, i.key), i.store))", "                            if count == window:\n                                observer.on_next(rs.OnCompletedMux((index, i.key), i.store))\n                                i.store.set_state(state_w, (index, i.key), -1)", "silent", note="store write after the completion")
m("C03", "data/roll.py", "                    count = i.store.get_state(state, i.key)\n                    if count == 0:\n                        observer.on_next(rs.OnCreateMux((i.key[0], i.key), i.store))\n\n                    count += 1\n                    observer.on_next(i._replace(key=(i.key[0], i.key)))\n\n                    if count == window:\n                        i.store.set_state(state, i.key, 0)\n                        observer.on_next(rs.OnCompletedMux((i.key[0], i.key), i.store))\n                    else:\n                        i.store.set_state(state, i.key, count)", "                    count = i.store.get_state(state, i.key)\n                    if count == window:\n                        observer.on_next(rs.OnCompletedMux((i.key[0], i.key), i.store))\n                        count = 0\n\n                    if count == 0:\n                        observer.on_next(rs.OnCreateMux((i.key[0], i.key), i.store))\n\n                    count += 1\n                    observer.on_next(i._replace(key=(i.key[0], i.key)))\n                    i.store.set_state(state, i.key, count)", "silent", note="seeded change C11a: late close keeps the protocol well-formed (it violates C05/C11, not C03)")
m("C03", "data/roll.py", "                    for offset in range(density):\n                        index = i.key[0] * density + (first + offset) % density\n                        if i.store.get_state(state_w, (index, i.key)) != -1:\n                            observer.on_next(i._replace(key=(index, i.key)))\n                            i.store.set_state(state_w, (index, i.key), -1)\n                    outer_observer.on_next(i)\n                elif isinstance(i, rs.OnErrorMux):", "                    for offset in range(1, density):\n                        index = i.key[0] * density + (first + offset) % density\n                        if i.store.get_state(state_w, (index, i.key)) != -1:\n                            observer.on_next(i._replace(key=(index, i.key)))\n                            i.store.set_state(state_w, (index, i.key), -1)\n                    outer_observer.on_next(i)\n                elif isinstance(i, rs.OnErrorMux):", "fire", ["LV"], "seeded change C03a: one slot of the ring is not flushed")
# ---------------------------------------------------------------- C04
m("C04", "state/memory_store.py", "        if not map_key in self.values[key[0]]:\n            return rs.state.markers.STATE_NOTSET\n        return self.values[key[0]][map_key]\n\n    def del_map", "        for k, v in self.values[key[0]].items():\n            if k is map_key:\n                return v\n        return rs.state.markers.STATE_NOTSET\n\n    def del_map", "fire", ["EQ-1"])
m("C04", "operators/group_by.py", "                    observer.on_next(i._replace(key=(index, i.key)))\n\n                elif type(i) is rs.OnCreateMux:", "                    observer.on_next(i._replace(key=(index, i.key), item=map_key))\n\n                elif type(i) is rs.OnCreateMux:", "fire", ["FW-1"])
m("C04", "operators/group_by.py", "                elif type(i) is rs.OnCompletedMux:\n                    for k in i.store.iterate_map(state, i.key):", "                elif type(i) is rs.OnCompletedMux:\n                    for k in sorted(i.store.iterate_map(state, i.key)):", "fire", ["FL-1", "LV"])
m("C04", "operators/group_by.py", "                    key = i.key\n                    map_key = key_mapper(i.item)\n\n                    index = i.store.get_map(state, key, map_key)", "                    map_key = key_mapper(i.item)\n                    key = i.key\n\n                    index = i.store.get_map(state, i.key, map_key)", "silent")
# ---------------------------------------------------------------- C05
m("C05", "data/roll.py", "count = n - w_value + 1", "count = n - w_value", "fire", ["DP-2"])
m("C05", "data/roll.py", "                    for offset in range(density):\n                        index = i.key[0] * density + offset\n                        w_value = i.store.get_state(state_w, (index, i.key))", "                    for offset in range(1, density):\n                        index = i.key[0] * density + offset\n                        w_value = i.store.get_state(state_w, (index, i.key))", "fire", ["DP-0"], "windows living in slot 0 miss items")
m("C05", "data/roll.py", "                        if w_value != -1:\n                            observer.on_next(i._replace(key=(index, i.key)))                            \n", "                        if w_value > -1:\n                            observer.on_next(i._replace(key=(index, i.key)))\n", "silent")
m("C05", "data/roll.py", "if (n % stride) == 0:", "if (n % stride) == 1:", "fire", ["DP-2", "LV"])
m("C05", "data/roll.py", "                    n_value = i.store.get_state(state_n, i.key)\n                    i.store.set_state(state_n, i.key, n_value+1)", "                    n_value = i.store.get_state(state_n, i.key)\n                    i.store.set_state(state_n, i.key, n_value+2)", "fire", ["DP-1"])
m("C05", "data/roll.py", "                        index = i.key[0] * density + (first + offset) % density\n                        if i.store.get_state(state_w, (index, i.key)) != -1:\n                            observer.on_next(i._replace(key=(index, i.key)))\n                            i.store.set_state(state_w, (index, i.key), -1)\n                    outer_observer.on_next(i)\n                elif isinstance(i, rs.OnErrorMux):", "                        index = i.key[0] * density + offset\n                        if i.store.get_state(state_w, (index, i.key)) != -1:\n                            observer.on_next(i._replace(key=(index, i.key)))\n                            i.store.set_state(state_w, (index, i.key), -1)\n                    outer_observer.on_next(i)\n                elif isinstance(i, rs.OnErrorMux):", "fire", ["DP-3"], "the repaired defect")
m("C05", "data/roll.py", "                    if count == window:\n                        i.store.set_state(state, i.key, 0)", "                    if count == window + 1:\n                        i.store.set_state(state, i.key, 0)", "fire", ["DP-2"])
m("C05", "data/roll.py", "first = -(-n // stride)\n                    i.store.set_state(state_n, (kindex, i.key), 0)\n                    for offset in range(density):\n                        index = i.key[0] * density + (first + offset) % density\n                        if i.store.get_state(state_w, (index, i.key)) != -1:\n                            observer.on_next(i._replace(key=(index, i.key)))\n                            i.store.set_state(state_w, (index, i.key), -1)\n                    outer_observer.on_next(i)\n                elif isinstance(i, rs.OnErrorMux):", "first = n // stride\n                    i.store.set_state(state_n, (kindex, i.key), 0)\n                    for offset in range(density):\n                        index = i.key[0] * density + (first + offset) % density\n                        if i.store.get_state(state_w, (index, i.key)) != -1:\n                            observer.on_next(i._replace(key=(index, i.key)))\n                            i.store.set_state(state_w, (index, i.key), -1)\n                    outer_observer.on_next(i)\n                elif isinstance(i, rs.OnErrorMux):", "fire", ["DP-3"], "seeded change C05a: floor instead of ceiling")
m("C05", "data/roll.py", "                            if count == window:\n                                i.store.set_state(state_w", "                            if window == count:\n                                i.store.set_state(state_w", "silent")
m("C05", "data/roll.py", "                            count = n - w_value + 1\n                            if count == window:", "                            if n - w_value == window - 1:", "silent", note="algebraically equal closing test")
m("C05", "data/roll.py", "                    if count == 0:\n                        observer.on_next(rs.OnCreateMux((i.key[0], i.key), i.store))", "                    if count < 1:\n                        observer.on_next(rs.OnCreateMux((i.key[0], i.key), i.store))", "silent")
# ---------------------------------------------------------------- C06
m('C06', 'data/split.py', "                    else:\n                        # the next item is compared with this one, not\n                        # with the first item of the segment\n                        i.store.set_state(state, i.key, new_predicate)\n", "", 'fire', ['DP-4'], 're-introduces the repaired defect d2134d9: the stored predicate is that of the first item of the segment')
m('C06', 'data/split.py', "                    elif new_predicate != current_predicate:\n                        i.store.set_state(state, i.key, new_predicate)\n                        observer.on_next(rs.OnCompletedMux((i.key[0], i.key), i.store))\n                        observer.on_next(rs.OnCreateMux((i.key[0], i.key), i.store))\n\n                    else:\n                        # the next item is compared with this one, not\n                        # with the first item of the segment\n                        i.store.set_state(state, i.key, new_predicate)\n", "                    elif new_predicate != current_predicate:\n                        observer.on_next(rs.OnCompletedMux((i.key[0], i.key), i.store))\n                        observer.on_next(rs.OnCreateMux((i.key[0], i.key), i.store))\n\n                    i.store.set_state(state, i.key, new_predicate)\n", 'fire', ['DP-4'], 'one store of the new predicate after the boundary events: since round p a defect (seeded change C03p: a stage of the segment that raises through split leaves the old predicate behind), no longer an equivalent form')
m("C06", "data/split.py", "                    elif new_predicate != current_predicate:", "                    if new_predicate != current_predicate:", "fire", ["DP-4"], "the split defect repaired by c14a7d7, re-introduced (first item compared with itself)")
m("C06", "data/split.py", "if new_predicate != current_predicate:", "if new_predicate is not current_predicate:", "fire", ["EQ-1", "DP-4"])
m("C06", "data/split.py", "                    elif new_predicate != current_predicate:\n                        i.store.set_state(state, i.key, new_predicate)", "                    elif new_predicate != current_predicate:\n                        i.store.set_state(state, i.key, current_predicate)", "fire", ["DP-4"])
m("C06", "data/split.py", "                        observer.on_next(rs.OnCompletedMux((i.key[0], i.key), i.store))\n                        observer.on_next(rs.OnCreateMux((i.key[0], i.key), i.store))\n\n                    else:", "                        observer.on_next(i._replace(key=(i.key[0], i.key)))\n                        observer.on_next(rs.OnCompletedMux((i.key[0], i.key), i.store))\n                        observer.on_next(rs.OnCreateMux((i.key[0], i.key), i.store))\n                        return\n\n                    else:", "fire", ["DP-4"], "boundary item delivered to the old segment")
m("C06", "data/split.py", "if new_predicate != current_predicate:", "if not (new_predicate == current_predicate):", "silent")
# ---------------------------------------------------------------- C07
m("C07", "data/time_split.py", "new >= last + inactive_timeout", "new > last + inactive_timeout", "fire", ["CMP-1"])
m("C07", "data/time_split.py", "new >= start + active_timeout", "new > start + active_timeout", "fire", ["CMP-1"])
m("C07", "data/time_split.py", "_session_has_expired(start_timestamp, last_timestamp, new_timestamp)", "_session_has_expired(last_timestamp, start_timestamp, new_timestamp)", "fire", ["CMP-1"])
m("C07", "data/time_split.py", "                    else:\n                        i.store.set_state(state_last, i.key, new_timestamp)\n", "                    else:\n                        pass\n", "fire", ["DP-5"])
m("C07", "data/time_split.py", "                    elif closing_mapper is not None and closing_mapper(i.item) is True:\n                        i.store.set_state(state_start, i.key, new_timestamp)\n", "                    elif closing_mapper is not None and closing_mapper(i.item) is True:\n", "fire", ["DP-5"])
m("C07", "data/time_split.py", "                        if include_closing_item is True:\n                            return\n", "                        if include_closing_item is False:\n                            return\n", "fire", ["ORD-1", "FW-1"])
m("C07", "data/time_split.py", "new >= start + active_timeout", "start + active_timeout <= new", "silent")
m("C07", "data/time_split.py", "new >= last + inactive_timeout", "new - last >= inactive_timeout", "silent")
# ---------------------------------------------------------------- C08
m('C08', 'operators/tee_map.py', "            connectable = source.pipe(\n                ops.publish(),\n                rs.cast_as_mux_connectable(),\n            )", "            connectable = source.pipe(*[ops.publish(), rs.cast_as_mux_connectable()])", 'silent', [], 'stage list applied with a star')
m("C08", "operators/tee_map.py", "_next = has_next[base_index:base_index+n]", "_next = has_next[base_index:base_index+n-1]", "fire", ["TM-4"])
m("C08", "operators/tee_map.py", "        subscriptions.append(connectable.connect(scheduler=scheduler))\n        return CompositeDisposable(subscriptions)\n\n    def subscribe(", "        return CompositeDisposable(subscriptions)\n\n    def subscribe(", "fire", ["TM-1"])
m("C08", "operators/tee_map.py", "            elif combine is True:\n                queue[i] = x\n                has_next[i] = True\n                res = tuple(queue)\n                observer.on_next(res)", "            elif combine is True:\n                queue[i] = x\n                has_next[i] = True\n                if all(has_next):\n                    res = tuple(queue)\n                    observer.on_next(res)", "fire", ["AG-3"])
m("C08", "operators/tee_map.py", "        return _process_many(\n            *[arg(connectable) for arg in args],", "        return _process_many(\n            *[arg(source) for arg in args],", "fire", ["TM-2"])
m("C08", "operators/tee_map.py", "                if i == n-1:\n                    observer.on_next(x)", "                if n - 1 == i:\n                    observer.on_next(x)", "silent")
m("C08", "operators/tee_map.py", "append_count = (x.key[0]+1) * n - len(queue)", "append_count = x.key[0] * n - len(queue)", "fire", ["TM-5"])
m("C08", "operators/tee_map.py", "append_count = (x.key[0]+1) * n - len(queue)", "append_count = n * (1 + x.key[0]) - len(has_next)", "silent")
# ---------------------------------------------------------------- C09
m('C09', 'operators/scan.py', '                        if value is rs.state.markers.STATE_NOTSET:\n                            value = seed() if callable(seed) else copy.deepcopy(seed)\n                        acc = terminator(value)', '                        if value is rs.state.markers.STATE_NOTSET:\n                            value = seed() if not callable(seed) else copy.deepcopy(seed)\n                        acc = terminator(value)', 'fire', ['SD-1'], 'hand mutant: callable inverted (terminator, empty key)')
m('C09', 'operators/scan.py', '                    if has_state is False:\n                        value = seed() if callable(seed) else copy.deepcopy(seed)\n                    state = terminator(value)', '                    if has_state is False:\n                        value = copy.deepcopy(seed) if callable(seed) else seed()\n                    state = terminator(value)', 'fire', ['SD-1'], 'hand mutant: callable arms swapped (obs)')
m('C09', 'operators/scan.py', '                value = state\n                if has_state is False:\n                    value = seed() if callable(seed) else copy.deepcopy(seed)\n                state = accumulator(value, i)', '                value = state\n                if state is False:\n                    value = seed() if callable(seed) else copy.deepcopy(seed)\n                state = accumulator(value, i)', 'fire', ['AG-3b', 'AG-3'], 'hand mutant: obs: unset test on the value (first item folds from None)')
m('C09', 'operators/scan.py', '                state = accumulator(value, i)\n                has_state = True', '                state = accumulator(value, i)\n                has_state = False', 'fire', ['AG-3b', 'AG-3'], 'hand mutant: obs: has_state never set (every item folds from seed)')
m('C09', 'operators/scan.py', '                    value = state\n                    if has_state is False:\n                        value = seed() if callable(seed) else copy.deepcopy(seed)\n                    state = terminator(value)', '                    value = state\n                    if state is False:\n                        value = seed() if callable(seed) else copy.deepcopy(seed)\n                    state = terminator(value)', 'fire', ['AG-3b', 'AG-3'], 'hand mutant: obs: terminator on None for empty source')
m('C09', 'operators/count.py', 'lambda acc, i: acc + 1, 0', 'lambda acc, i: acc + (1 if i else 0), 0', 'fire', ['SC-2'], 'hand mutant: count skips falsy')
m('C09', 'operators/count.py', 'lambda acc, i: acc + 1, 0', 'lambda acc, i: acc + 1, 1', 'fire', ['SC-2'], 'hand mutant: count seed 1')
m('C09', 'operators/count.py', 'lambda acc, i: acc + 1, 0', 'lambda acc, i: acc + 1 if i is not None else acc, 0', 'fire', ['SC-2'], 'hand mutant: count skips None')
m('C09', 'operators/count.py', 'lambda acc, i: acc + 1, 0', 'lambda acc, i: 1 + acc, 0', 'silent')
m('C09', 'data/to_list.py', '        acc.append(i)\n', '        if i is not None:\n            acc.append(i)\n', 'fire', ['SC-2'], 'hand mutant: to_list drops None')
m('C09', 'data/to_list.py', '        acc.append(i)\n', '        acc.insert(0, i)\n', 'fire', ['SC-2'], 'hand mutant: to_list reversed')
m('C09', 'data/to_array.py', '        acc.append(i)\n', '        acc.extend([i, i])\n', 'fire', ['SC-2'], 'hand mutant: to_array twice')
m('C09', 'data/to_list.py', '        acc.append(i)\n        return acc', '        return acc + [i]', 'silent')
m("C09", "operators/scan.py", "                            value = seed() if callable(seed) else copy.deepcopy(seed)\n                        acc = accumulator(value, i.item)", "                            value = seed() if callable(seed) else copy.copy(seed)\n                        acc = accumulator(value, i.item)", "fire", ["SD-1"])
m("C09", "operators/scan.py", "                            value = seed() if callable(seed) else copy.deepcopy(seed)\n                        acc = accumulator(value, i.item)", "                            value = seed() if callable(seed) else seed\n                        acc = accumulator(value, i.item)", "fire", ["SD-1"])
m("C09", "operators/scan.py", "                    if reduce is True:\n                        value = i.store.get_state(state, i.key)\n                        if value is rs.state.markers.STATE_NOTSET:\n                            value = seed() if callable(seed) else copy.deepcopy(seed)\n                        observer.on_next(rs.OnNextMux(i.key, value, i.store))", "                    if reduce is True:\n                        value = i.store.get_state(state, i.key)\n                        if value is not rs.state.markers.STATE_NOTSET:\n                            observer.on_next(rs.OnNextMux(i.key, value, i.store))", "fire", ["SC-1", "AG-3"], "no seed emitted for an empty key")
m("C09", "math/formal/variance.py", "            v = _moment(acc, mean, 2)\n            return v", "            v = _moment(acc, mean, 2)\n            acc.clear()\n            return v", "fire", ["PU-1"], "the repaired defect")
m("C09", "operators/scan.py", "                        acc = accumulator(value, i.item)\n                        i.store.set_state(state, i.key, acc)\n                        if reduce is False:\n                            observer.on_next(rs.OnNextMux(i.key, acc, i.store))", "                        acc = accumulator(value, i.item)\n                        if reduce is False:\n                            observer.on_next(rs.OnNextMux(i.key, acc, i.store))\n                        i.store.set_state(state, i.key, acc)", "fire", ["SC-1"], "the value emitted before it is written back: since round p a defect (seeded change C12p: a raising stage downstream, or a re-entrant push, sees the old accumulator), no longer an equivalent form")
m("C09", "operators/scan.py", "                if type(i) is rs.OnNextMux:\n                    try:\n                        value = i.store.get_state(state, i.key)", "                if isinstance(i, rs.OnNextMux):\n                    try:\n                        value = i.store.get_state(state, i.key)", "silent")
# ---------------------------------------------------------------- C10
m('C10', 'operators/first.py', "            return first_mux()(source)\n        else:\n            return ops.first()(source)\n", "            return first_mux()(source)\n", 'fire', ['GEN-3'], 'mutation round 4: first() has no plain arm left (returns None)')
m('C10', 'operators/last.py', "        else:\n            return ops.last()(source)\n", "", 'fire', ['GEN-3'], 'mutation round 4: last() has no plain arm left (returns None)')
m('C10', 'data/to_deque.py', 'observer.on_next(acc.popleft())', 'observer.on_next(acc.pop())', 'fire', ['SO-2'], 'hand mutant: LIFO')
m('C10', 'data/to_deque.py', '                    acc.extend(i)', '                    acc.extendleft(i)', 'fire', ['SO-2'], 'hand mutant: extendleft')
m('C10', 'data/to_deque.py', '                    acc.extend(i)', '                    acc.append(i)', 'fire', ['SO-2'], 'hand mutant: append in extend mode')
m('C10', 'data/to_deque.py', '                    pass\n                observer.on_completed()', '                    pass', 'fire', ['SO-2'], 'hand mutant: no completion')
m('C10', 'data/to_deque.py', '                    acc.append(i)\n', '                    acc.appendleft(i)\n', 'fire', ['SO-2'], 'hand mutant: appendleft')
m('C10', 'data/to_deque.py', '                if extend is True:', '                if extend is False:', 'fire', ['SO-2'], 'hand mutant: inverted extend')
m('C10', 'data/to_deque.py', '                print("to_deque now flushing")\n', '', 'silent')
m('C10', 'data/to_deque.py', '                    acc.append(i)\n', '                    acc.append(i)\n                    observer.on_next(i)\n', 'fire', ['SO-2'], 'hand mutant: emits early')
m('C10', 'data/pad.py', '                        v = value if value is not None else i.item', '                        v = value if value else i.item', 'fire', ['OPT-1'], 'hand mutant: falsy explicit pad_start value')
m('C10', 'data/pad.py', '                        v = value if value is not None else i.item', '                        v = value or i.item', 'fire', ['FW-2'], 'hand mutant: falsy explicit pad_start value (or)')
m('C10', 'data/pad.py', '                        if value is not None:\n                            v = value', '                        if value:\n                            v = value', 'fire', ['OPT-1'], 'hand mutant: falsy explicit pad_end value')
m('C10', 'data/pad.py', '                        if value is not None:\n                            v = value', '                        if value != None:\n                            v = value', 'silent')
m('C10', 'data/pad.py', '                        for _ in range(size):\n                            observer.on_next(i._replace(item=v))', '                        for _ in range(size - 1):\n                            observer.on_next(i._replace(item=v))', 'fire', ['FW-2'], 'hand mutant: pad_start size-1')
m('C10', 'data/pad.py', '                        for _ in range(size):\n                            observer.on_next(rs.OnNextMux(i.key, v, i.store))', '                        for _ in range(size + 1):\n                            observer.on_next(rs.OnNextMux(i.key, v, i.store))', 'fire', ['FW-2'], 'hand mutant: pad_end size+1')
m('C10', 'data/batch.py', '        b = [] if acc[1] is True else acc[0]', '        b = acc[0]', 'fire', ['DP-6'], 'hand mutant: never starts a new list')
m('C10', 'data/batch.py', '        b = [] if acc[1] is True else acc[0]', '        b = [] if acc[1] is False else acc[0]', 'fire', ['DP-6'], 'hand mutant: inverted restart')
m('C10', 'data/batch.py', '        b = [] if acc[1] is True else acc[0]', '        b = [i] if acc[1] is True else acc[0]', 'fire', ['DP-6'], 'hand mutant: item twice in new batch')
m('C10', 'data/batch.py', '        b = [] if acc[1] is True else acc[0]', '        b = acc[0] if not acc[1] else []', 'silent')
m('C10', 'data/batch.py', '        b = [] if acc[1] is True else acc[0]\n        b.append(i)', '        b = ([] if acc[1] else acc[0]) + [i]', 'silent')
m('C10', 'data/batch.py', '        b = [] if acc[1] is True else acc[0]\n        b.append(i)', '        if acc[1] is True:\n            b = [i]\n        else:\n            b = acc[0]\n            b.append(i)', 'silent')
m("C10", "operators/take.py", "if value > 0:", "if value >= 0:", "fire", ["FW-2"])
m("C10", "operators/take.py", "i.store.set_state(state, i.key, value - 1)", "i.store.set_state(state, i.key, value - 2)", "fire", ["FW-2"])
m("C10", "data/lag.py", "if len(q) > size:", "if len(q) >= size:", "fire", ["FW-2"])
m("C10", "data/batch.py", "return (b, len(b) == batch_size)", "return (b, len(b) >= batch_size - 1)", "fire", ["DP-6"])
m("C10", "data/batch.py", "def _terminate(acc): return (acc[0], acc[1] is False and len(acc[0]) > 0)", "def _terminate(acc): return (acc[0], True)", "fire", ["DP-6"], "the repaired defect")
m("C10", "operators/distinct_until_changed.py", "seed=(False, None, NO_VALUE)", "seed=(False, None, None)", "fire", ["DP-8"], "the repaired defect")
m("C10", "operators/first.py", "                        observer.on_next(i)\n                        i.store.set_state(state, i.key, True)", "                        observer.on_next(i)", "fire", ["FW-2"])
m("C10", "operators/take.py", "if value > 0:", "if value >= 1:", "silent")
m("C10", "operators/take.py", "if value > 0:", "if 0 < value:", "silent")
m("C10", "data/batch.py", "return (b, len(b) == batch_size)", "return (b, batch_size == len(b))", "silent")
# ---------------------------------------------------------------- C11
m("C11", "operators/first.py", "                elif type(i) is rs.OnCompletedMux:\n                    observer.on_next(i)", "                elif type(i) is rs.OnCompletedMux:\n                    observer.on_next(rs.OnNextMux(i.key, 0, i.store))\n                    observer.on_next(i)", "fire", ["PR-2"])
m("C11", "operators/map.py", "import rxsci as rs\nimport rx.operators as ops\n", "import rxsci as rs\nimport rx.operators as ops\nimport rx\n", "silent")
m("C11", "data/roll.py", "                    if count == window:\n                        i.store.set_state(state, i.key, 0)\n                        observer.on_next(rs.OnCompletedMux((i.key[0], i.key), i.store))\n                    else:\n                        i.store.set_state(state, i.key, count)", "                    i.store.set_state(state, i.key, count)", "fire", ["PR-3"], "tumbling windows closed only at parent completion")
# ---------------------------------------------------------------- C12
m("C12", "math/mean.py", "rs.ops.scan(accumulate, (0, 0), reduce=reduce),", "rs.ops.scan(accumulate, (0, 0), reduce=True),", "fire", ["AG-4"])
m("C12", "math/variance.py", "s = s + (i - m1)*(i - m)", "s = s + (i - m1)*(i - m1)", "fire", ["NM-1"])
m("C12", "math/variance.py", "0.0 if acc[2] < 2 else acc[1] / (acc[2]-1)", "0.0 if acc[2] < 2 else acc[1] / acc[2]", "fire", ["NM-1"])
m("C12", "math/min.py", "if acc is None or i < acc:", "if acc is None or i > acc:", "fire", ["NM-1"])
m("C12", "math/formal/variance.py", "v = _moment(acc, mean, 2)", "v = _moment(acc, 0, 2) - mean**2", "fire", ["NM-1"], "seeded change C12a")
m("C12", "math/variance.py", "m = m + (i - m) / k", "m = (m * (k - 1) + i) / k", "silent", note="algebraically equal mean update")
m("C12", "math/min.py", "if acc is None or i < acc:", "if acc is None or acc > i:", "silent")
# ---------------------------------------------------------------- C13
m('C13', 'error/ignore.py', "                on_next=_on_next,\n                on_completed=observer.on_completed,\n                on_error=observer.on_error,\n", "                on_next=_on_next,\n                on_completed=observer.on_completed,\n", 'fire', ['SUB-3'], 'mutation round 4: error.ignore also swallows the stream error')
m('C13', 'operators/last.py', '                elif type(i) is rs.OnErrorMux:\n                    observer.on_next(i)\n                    i.store.del_key(state, i.key)', '                elif type(i) is rs.OnErrorMux:\n                    observer.on_next(i)\n                    i.key.del_key(state, i.key)', 'fire', ['EV-1'], 'mutant: a method of the key tuple in the Error branch')
m('C13', 'operators/group_by.py', '                    for k in i.store.iterate_map(state, i.key):\n                        index = i.store.get_map(state, i.key, k)\n                        observer.on_next(i._replace(key=(index, i.key)))\n                        i.store.del_map(state, i.key, k)\n                    i.store.del_key(state, i.key)\n                    outer_observer.on_next(i)\n\n                elif type(i) is rs.state.ProbeStateTopology', '                    for k in i.store.iterate_map(i.key, state):\n                        index = i.store.get_map(state, i.key, k)\n                        observer.on_next(i._replace(key=(index, i.key)))\n                        i.store.del_map(state, i.key, k)\n                    i.store.del_key(state, i.key)\n                    outer_observer.on_next(i)\n\n                elif type(i) is rs.state.ProbeStateTopology', 'fire', ['ST-8'], 'hand mutant: swap iterate_map args in Error branch')
m("C13", "operators/filter.py", "                    except Exception as e:", "                    except ValueError as e:", "fire", ["ER-1"])
m("C13", "operators/map.py", "observer.on_next(rs.OnErrorMux(i.key, e, i.store))", "observer.on_next(rs.OnErrorMux(i.key, e))", "fire", ["ER-1"])
m("C13", "error/router.py", "                        dead_letter_observer.on_completed()\n\n                    observer.on_completed()", "                        pass\n\n                    observer.on_completed()", "fire", ["ER-2"])
m("C13", "error/ignore.py", "if type(i) is not rs.OnErrorMux:", "if type(i) is rs.OnNextMux:", "fire", ["ER-2"])
m("C13", "operators/multiplex.py", "                elif type(i) is rs.OnErrorMux:\n                    observer.on_error(i.error)\n\n            return source.subscribe(", "\n            return source.subscribe(", "fire", ["ER-3"])
m("C13", "operators/filter.py", "                    except Exception as e:", "                    except BaseException as e:", "silent")
# ---------------------------------------------------------------- C14
m('C14', 'state/memory_store.py', "                value = self.values[index]\n                if self.data_type is bool:\n                    value = bool(value)\n                yield (", "                value = self.values[index]\n                yield (", 'fire', ['MS-7'], 're-introduces the repaired defect 11967a4: iterate yields the raw byte of a bool state')
m('C14', 'state/memory_store.py', "                value = self.values[index]\n                if self.data_type is bool:\n                    value = bool(value)\n                yield (\n                    self.keys[index],\n                    value,", "                yield (\n                    self.keys[index],\n                    bool(self.values[index]) if self.data_type is bool else self.values[index],", 'silent', [], 'the conversion of iterate as a conditional expression')
m("C14", "state/memory_store.py", "        self.values[key[0]] = 0\n", "", "fire", ["MS-3"])
m("C14", "state/memory_store.py", "append_count = (key[0]+1) - len(self.state)", "append_count = key[0] - len(self.state)", "fire", ["MS-1"])
m("C14", "state/memory_store.py", "        return index, next_index+1, free_slots", "        return index, next_index, free_slots", "fire", ["MS-4"])
m("C14", "state/memory_store.py", "functools.partial(array, 'Q')", "functools.partial(array, 'I')", "fire", ["MS-5"])
m("C14", "state/memory_store.py", "        self.state[key[0]] = rs.state.markers.STATE_NOTSET.value()\n        self.keys[key[0]] = key\n", "        self.keys[key[0]] = key\n", "fire", ["MS-3"])
m("C14", "state/store.py", "        return self.states[state].set(key, value)", "        return self.states[state].set(value, key)", "fire", ["MS-6"])
m("C14", "state/memory_store.py", "append_count = (key[0]+1) - len(self.state)", "append_count = key[0] + 1 - len(self.keys)", "silent")
# ---------------------------------------------------------------- C15
m('C15', 'framing/line.py', "            return source.subscribe(\n                on_next=on_next,\n                on_completed=observer.on_completed,\n                on_error=observer.on_error,\n                scheduler=scheduler,\n            )\n        return rx.create(on_subscribe)\n\n    return _frame", "            return source.subscribe(\n                on_next=on_next,\n                on_error=observer.on_error,\n                scheduler=scheduler,\n            )\n        return rx.create(on_subscribe)\n\n    return _frame", 'fire', ['SUB-3'], 'mutation round 4: line.frame does not forward completion')
m('C15', 'framing/length_prefix.py', "                observer.on_next(data)\n\n            return source.subscribe(\n                on_next=on_next,\n                on_completed=observer.on_completed,\n                on_error=observer.on_error\n            )", "                observer.on_next(data)\n\n            return source.subscribe(\n                on_next=on_next,\n                on_completed=observer.on_completed,\n            )", 'fire', ['SUB-3'], 'mutation round 4: length_prefix.frame swallows the source error')
m('C15', 'framing/length_prefix.py', '                while bio_len - offset >= prefix_size:', '                while bio_len + offset >= prefix_size:', 'fire', ['CMP-2', 'FR-2'], 'hand mutant: while avail uses +offset')
m('C15', 'framing/length_prefix.py', '                    if bio_len - offset - prefix_size >= size:', '                    if bio_len + offset - prefix_size >= size:', 'fire', ['CMP-2', 'FR-2'], 'hand mutant: size check uses +offset')
m('C15', 'framing/length_prefix.py', '                    if bio_len - offset - prefix_size >= size:', '                    if bio_len - offset >= size:', 'fire', ['CMP-2', 'FR-2'], 'hand mutant: size check ignores prefix')
m('C15', 'framing/length_prefix.py', '                        offset += size + prefix_size', '                        offset += size', 'fire', ['CMP-2', 'FR-2'], 'hand mutant: offset ignores prefix')
m("C15", "framing/length_prefix.py", "if bio_len - offset - prefix_size >= size:", "if bio_len - offset - prefix_size > size:", "fire", ["CMP-2"])
m("C15", "framing/length_prefix.py", "while bio_len - offset >= prefix_size:", "while bio_len - offset > prefix_size:", "fire", ["CMP-2"])
m("C15", "framing/length_prefix.py", "                bio.write(acc)\n                bio.write(i)", "                bio.write(i)", "fire", ["FR-2"])
m("C15", "framing/line.py", "                acc = lines[-1] or ''\n", "                acc = lines[-1] if len(lines) > 1 else ''\n", "fire", ["FR-1"])
m("C15", "framing/line.py", "lines[0] = acc + lines[0]", "lines[0] = lines[0] + acc", "fire", ["FR-1"])
m("C15", "framing/length_prefix.py", "while bio_len - offset >= prefix_size:", "while prefix_size <= bio_len - offset:", "silent")
m("C15", "framing/line.py", "                if len(acc) > 0:", "                if acc:", "silent")
# ---------------------------------------------------------------- C16
m("C16", "compression/zstd.py", "                    if decompressor.eof and len(i) == 0:\n                        # nothing left to decode; the decompression object\n                        # accepts no more calls once its frame is complete\n                        return\n", "", "fire", ["OB-4"], "the zstd defect repaired by 7eef736, re-introduced (no guard for an empty chunk after the end of the stream)")
m("C16", "compression/z.py", "                    data = compressor.flush()\n                    observer.on_next(data)\n                    observer.on_completed()", "                    observer.on_completed()", "fire", ["OB-2", "AG-6"])
m("C16", "compression/z.py", "decompressor = zlib.decompressobj(wbits = zlib.MAX_WBITS | 16)", "decompressor = zlib.decompressobj(wbits = zlib.MAX_WBITS)", "fire", ["AG-5"])
m("C16", "compression/zstd.py", "                    if not decompressor.eof:\n                        observer.on_error(RuntimeError(\"zstd.decompress: Invalid state at observable completion\"))\n                    else:\n                        data = decompressor.flush()\n                        observer.on_next(data)\n                        observer.on_completed()", "                    data = decompressor.flush()\n                    observer.on_next(data)\n                    observer.on_completed()", "fire", ["OB-3", "AG-6"])
# ---------------------------------------------------------------- C17
m("C17", "data/codec.py", "                    data = decoder.decode(b'', final=True)\n                    observer.on_next(data)", "                    pass", "fire", ["CD-1"])
m("C17", "data/codec.py", "def decode(encoding='utf8', incremental=True):", "def decode(encoding='utf8', incremental=False):", "fire", ["CD-1"])
# ---------------------------------------------------------------- C18
m('C18', 'container/csv.py', "        mode = 'w'\n", "        mode = 'a'\n", 'fire', ['CS-5'], 'mutation round 4: csv dump_to_file appends to an existing file')
m('C18', 'container/csv.py', "file.read(filename, size=64*1024, encoding=encoding, open_obj=open_obj)", "file.read(filename, size=64*1024, open_obj=open_obj)", 'fire', ['CS-5'], 'mutation round 4: csv load_from_file ignores its encoding')
m('C18', 'container/csv.py', "file.read(filename, size=64*1024, encoding=encoding, open_obj=open_obj).pipe(\n", "file.read(filename, mode='rb', size=64*1024, open_obj=open_obj).pipe(\n        ops.map(lambda i: i.decode(encoding or 'utf-8')),\n", 'fire', ['CS-5'], 'seed C18f in short: every read chunk decoded on its own')
m("C18", "container/csv.py", "        mode = 'w'\n        if encoding is not None:", "        mode = None\n        if encoding is not None:", "fire", ["CS-5"], "the dump_to_file defect repaired by 95200ca, re-introduced")
m("C18", "container/csv.py", "        mode = 'w'\n        if encoding is not None:\n            mode = 'wb'", "        mode = 'wb'", "fire", ["CS-5"], "always binary")
m("C18", "container/csv.py", "        mode = 'w'\n        if encoding is not None:\n            mode = 'wb'", "        mode = 'wb' if encoding is not None else 'wt'", "silent")
m('C18', 'container/csv.py', "    if type_repr in ['int', int]:\n        return parse_int", "    if type_repr in ['int', int]:\n        return parse_decimal", 'fire', ['CS-1', 'CS-3'], 'hand mutant: int columns parsed as float')
m('C18', 'container/csv.py', "    if type_repr in ['float', float]:\n        return parse_decimal", "    if type_repr in ['float', float]:\n        return parse_int", 'fire', ['CS-1', 'CS-3'], 'hand mutant: float columns parsed as int')
m('C18', 'container/csv.py', "    elif type_repr in ['str', str]:\n        return lambda i: i", "    elif type_repr in ['str', str]:\n        return lambda i: i.strip()", 'fire', ['CS-1', 'CS-3'], 'hand mutant: str fields stripped')
m('C18', 'container/csv.py', '    return int(i)', '    return int(float(i))', 'fire', ['CS-1', 'CS-3'], 'hand mutant: int via float')
m('C18', 'container/csv.py', '                        f = f.replace(escapechar, f\'{escapechar}{escapechar}\')\n                        f = f.replace(\'"\', f\'{escapechar}"\')', '                        f = f.replace(\'"\', f\'{escapechar}"\')\n                        f = f.replace(escapechar, f\'{escapechar}{escapechar}\')', 'fire', ['CS-1', 'CS-3'], 'hand mutant: writer: quotes escaped before escapes doubled')
m('C18', 'container/csv.py', '                    i = i.replace(f\'{escapechar}{escapechar}\', escapechar)\n                    i = i.replace(f\'{escapechar}"\', \'"\')', '                    i = i.replace(f\'{escapechar}"\', \'"\')\n                    i = i.replace(f\'{escapechar}{escapechar}\', escapechar)', 'silent')
m('C18', 'container/csv.py', '                if first is True and header is True:\n                    first = False', '                if first is True and header is True:\n                    pass', 'fire', ['CS-1', 'CS-3'], 'hand mutant: header repeated on every row')
m('C18', 'container/csv.py', "                    elif f is None:\n                        f = ''", "                    elif f is None:\n                        f = 'None'", 'fire', ['CS-1', 'CS-3'], 'hand mutant: None written as text')
m('C18', 'container/csv.py', '                        f = \'"{}"\'.format(f)', '                        f = \'"{}"\'.format(f) if separator in f or \'"\' in f else f', 'fire', ['CS-1', 'CS-3'], 'hand mutant: quote only when needed (leading blanks / empty strings then differ from None)')
m('C18', 'container/csv.py', '                    agg.append(\'"\')\n                    merged_parts.append(separator.join(agg))\n                    agg = None', '                    agg.append(\'"\')\n                    merged_parts.append(separator.join(agg))', 'fire', ['CS-1', 'CS-3'], 'hand mutant: no reset after close (lone quote)')
m('C18', 'container/csv.py', '                agg.append(t)\n                merged_parts.append(separator.join(agg))\n                agg = None', '                agg.append(t)\n                merged_parts.append(separator.join(agg))', 'fire', ['CS-1', 'CS-3'], 'hand mutant: no reset after close')
m("C18", "container/csv.py", "    body = t[:-1]\n    return (len(body) - len(body.rstrip(escapechar))) % 2 == 0", "    return len(t) < 2 or t[-2] != escapechar", "fire", ["CS-3"], "the merger defect repaired by 8fba40d, re-introduced (one escape character looked at instead of the parity of the run)")
m("C18", "container/csv.py", "    return (len(body) - len(body.rstrip(escapechar))) % 2 == 0", "    return (len(body) - len(body.rstrip(escapechar))) % 2 == 1", "fire", ["CS-3"], "parity inverted")
m("C18", "container/csv.py", "    return (len(body) - len(body.rstrip(escapechar))) % 2 == 0", "    return (len(t) - 1 - len(body.rstrip(escapechar))) % 2 != 1", "silent")
m('C18', 'io/file.py', 'while not disposed and len(data) > 0:', 'while not disposed and len(data) > 1:', 'fire', ['FR-3', 'FH-1'], 'hand mutant: last 1-byte chunk lost')
m('C18', 'io/file.py', 'while not disposed and len(data) > 0:', 'while not disposed and len(data) >= size:', 'fire', ['FR-3', 'FH-1'], 'hand mutant: short last chunk lost')
m('C18', 'io/file.py', 'while not disposed and len(data) > 0:', 'while not disposed and data:', 'silent')
m('C18', 'io/file.py', '                    while not disposed and len(data) > 0:\n                        observer.on_next(data)\n                        data = f.read(size)', '                    while not disposed and len(data) > 0:\n                        data = f.read(size)\n                        observer.on_next(data)', 'fire', ['FR-3', 'FH-1'], 'hand mutant: first chunk skipped')
m('C18', 'io/file.py', '                else:\n                    read_data(file)', '                else:\n                    pass', 'fire', ['FR-3', 'FH-1'], 'hand mutant: file object never read')
m('C18', 'io/file.py', '            def on_completed():\n                if type(file) is str:\n                    f.close()\n', '            def on_completed():\n', 'fire', ['FR-3', 'FH-1'], 'hand mutant: file never closed on completion')
m('C18', 'io/file.py', '            def on_completed():\n                if type(file) is str:\n                    f.close()\n', '            def on_completed():\n                f.close()\n', 'fire', ['FR-3', 'FH-1'], "hand mutant: closes caller's file object")
m('C18', 'io/file.py', '                if type(file) is str:\n                    f.close()\n                observer.on_completed()', '                observer.on_completed()\n                if type(file) is str:\n                    f.close()', 'fire', ['FR-3', 'FH-1'], 'hand mutant: closed after completion')
m('C18', 'container/csv.py', '            elif len(t) > 0 and t[0] == \'"\' and ends_with_closing_quote(t, escapechar) and agg is None:', '            elif len(t) < 0 and t[0] == \'"\' and ends_with_closing_quote(t, escapechar) and agg is None:', 'fire', ['CS-3'], 'hand mutant: complete quoted piece opens a field')
m('C18', 'container/csv.py', '            elif len(t) > 0 and t[0] == \'"\' and ends_with_closing_quote(t, escapechar) and agg is None:', '            elif len(t) >= 0 and t[0] == \'"\' and ends_with_closing_quote(t, escapechar) and agg is None:', 'fire', ['CS-3'], 'hand mutant: index beyond an empty piece')
m('C18', 'container/csv.py', '            elif ends_with_closing_quote(t, escapechar) and agg is not None:', '            elif len(t) > 0 and t[-1] == \'"\' and agg is not None:', 'fire', ['CS-3'], 'hand mutant: escaped quote closes the field')
m('C18', 'container/csv.py', '            elif len(t) > 0 and t[0] == \'"\' and agg is None:', '            elif len(t) > 0 and t[-1] == \'"\' and agg is None:', 'fire', ['CS-3'], 'hand mutant: field opened by a trailing quote')
m('C18', 'container/csv.py', '            elif len(t) > 0 and t[0] == \'"\' and agg is None:', '            elif len(t) > 1 and t[0] == \'"\' and agg is None:', 'silent')
m("C18", "container/csv.py", "                        f = f.replace(escapechar, f'{escapechar}{escapechar}')\n", "", "fire", ["CS-1"])
m("C18", "container/csv.py", "        return lambda i: i == 'True'", "        return lambda i: i == 'true'", "fire", ["CS-1"])
m("C18", "container/csv.py", "def parse_decimal(ii):\n    if len(ii) == 0:\n        return None\n    return float(ii)", "def parse_decimal(ii):\n    if len(ii) == 0:\n        return None\n    s = ii.split('.')\n    r = int(s[1]) / (10 ** len(s[1])) if len(s) > 1 else 0\n    return float(int(s[0])) + r", "fire", ["DP-7"], "the repaired defect")
m("C18", "container/csv.py", "            elif agg is not None:\n                agg.append(t)\n            else:\n                merged_parts.append(t)", "            elif agg is not None and len(t) > 0:\n                agg.append(t)\n            elif agg is None:\n                merged_parts.append(t)", "fire", ["CS-2"], "like seeded change C18a: empty piece inside a quoted field dropped")
# ---------------------------------------------------------------- C19
m('C19', 'io/file.py', 'while not disposed and len(data) > 0:', 'while not disposed and len(data) > 1:', 'fire', ['FR-3', 'FH-1'], 'hand mutant: last 1-byte chunk lost')
m('C19', 'io/file.py', 'while not disposed and len(data) > 0:', 'while not disposed and len(data) >= size:', 'fire', ['FR-3', 'FH-1'], 'hand mutant: short last chunk lost')
m('C19', 'io/file.py', 'while not disposed and len(data) > 0:', 'while not disposed and data:', 'silent')
m('C19', 'io/file.py', '                    while not disposed and len(data) > 0:\n                        observer.on_next(data)\n                        data = f.read(size)', '                    while not disposed and len(data) > 0:\n                        data = f.read(size)\n                        observer.on_next(data)', 'fire', ['FR-3', 'FH-1'], 'hand mutant: first chunk skipped')
m('C19', 'io/file.py', '                else:\n                    read_data(file)', '                else:\n                    pass', 'fire', ['FR-3', 'FH-1'], 'hand mutant: file object never read')
m('C19', 'io/file.py', '            def on_completed():\n                if type(file) is str:\n                    f.close()\n', '            def on_completed():\n', 'fire', ['FR-3', 'FH-1'], 'hand mutant: file never closed on completion')
m('C19', 'io/file.py', '            def on_completed():\n                if type(file) is str:\n                    f.close()\n', '            def on_completed():\n                f.close()\n', 'fire', ['FR-3', 'FH-1'], "hand mutant: closes caller's file object")
m('C19', 'io/file.py', '                if type(file) is str:\n                    f.close()\n                observer.on_completed()', '                observer.on_completed()\n                if type(file) is str:\n                    f.close()', 'fire', ['FR-3', 'FH-1'], 'hand mutant: closed after completion')
m("C19", "container/json.py", "        'gzip': rs.compression.z.decompress,\n        'zstd': rs.compression.zstd.decompress,", "        'gzip': rs.compression.zstd.decompress,\n        'zstd': rs.compression.z.decompress,", "fire", ["AG-7"])
m("C19", "container/json.py", "                rs.data.decode(encoding),\n                line.unframe(),\n                load(skip=skip, ignore_error=ignore_error),\n        )\n    else:", "                line.unframe(),\n                rs.data.decode(encoding),\n                load(skip=skip, ignore_error=ignore_error),\n        )\n    else:", "fire", ["AG-7"])
# ---------------------------------------------------------------- round l / mutation round 5 (language-level traps)
m('C06', 'data/split.py', "    pipeline = rx.pipe(*pipeline) if type(pipeline) is list else pipeline\n", "    if type(pipeline) is list:\n        pipeline.reverse()\n    pipeline = rx.pipe(*pipeline) if type(pipeline) is list else pipeline\n", 'fire', ['ARG-1'], "the caller's stage list reversed in place")
m('C06', 'data/split.py', "    pipeline = rx.pipe(*pipeline) if type(pipeline) is list else pipeline\n", "    if type(pipeline) is list:\n        pipeline = list(pipeline)\n        pipeline.reverse()\n        pipeline.reverse()\n    pipeline = rx.pipe(*pipeline) if type(pipeline) is list else pipeline\n", 'silent', [], "a copy is the factory's own: mutating it is not ARG-1's business")
m('C10', 'data/pad.py', "    return pad_start_mux(size, value)\n", "    if value is not None:\n        return rs.ops.start_with(iter([value] * size))\n    return pad_start_mux(size, value)\n", 'fire', ['GEN-1'], 'seed C10l in short: a one-shot iterator handed to start_with')
m('C10', 'data/pad.py', "    return pad_start_mux(size, value)\n", "    if value is not None:\n        return rs.ops.start_with([value] * size)\n    return pad_start_mux(size, value)\n", 'silent', [], 'a list can be walked once per key')
m('C10', 'operators/first.py', "            return ops.first()(source)", "            return ops.first()(rx.empty())", 'fire', ['AG-1'], 'mutation round 5: the plain arm does not work on its source')
m('C09', 'operators/scan.py', "                    if has_state is False:\n                        value = seed() if callable(seed) else copy.deepcopy(seed)\n                    observer.on_next(value)", "                    if has_state is False:\n                        value = copy.deepcopy(seed)\n                    observer.on_next(value)", 'fire', ['SD-1'], 'mutation round 5: a seed factory copied instead of called (no callable test on the path)')
m('C07', 'data/time_split.py', "        if active_timeout is not None and new >= start + active_timeout:", "        if active_timeout is not None and (new - start).seconds >= active_timeout.seconds:", 'fire', ['DUR-1'], 'durations ordered by one field of the normalised triple')
m('C19', 'container/json.py', "                    line = line.decode()\n", "                    line = line.decode('utf-8', 'replace')\n", 'fire', ['CD-2'], 'lossy error scheme on the way of the data')
m('C19', 'container/json.py', "                    line = line.decode()\n", "                    line = line.decode('utf-8', 'strict')\n", 'silent', [], 'the default scheme spelled out')
m('C18', 'io/file.py', "                    read_data(file)\n", "                    read_data(open_obj)\n", 'fire', ['FR-3'], 'mutation round 5: the file-object arm reads something else than the object given')
m('C20', 'container/parquet.py', "                        _load_file(filename)\n", "                        _load_file(open_obj)\n", 'fire', ['PU-2'], 'mutation round 5: the file-object arm opens the reader on something else')
m('C13', 'operators/scan.py', "                    observer.on_next(i)\n                    i.store.del_key(state, i.key)\n                elif type(i) is rs.state.ProbeStateTopology:", "                    observer.on_next(i)\n                    i.store.del_key(None, i.key)\n                elif type(i) is rs.state.ProbeStateTopology:", 'fire', ['ST-8'], 'mutation round 5: a store call of the error arm names no state')
m('C08', 'operators/tee_map.py', "                observer.on_error,\n                functools.partial(done, i),", "                None,\n                functools.partial(done, i),", 'fire', ['SUB-3'], 'mutation round 5: a None handler is no handler')
# ---------------------------------------------------------------- round m (copy-paste slips)
m('C01', 'operators/flat_map.py', "        return rs.MuxObservable(on_subscribe)", "        return rx.create(on_subscribe)", 'fire', ['MX-9'], 'seed C01m in short')
m('C15', 'framing/length_prefix.py', "                nonlocal acc\n                offset = 0\n", "                nonlocal acc\n                if len(i) > 2**(prefix_size*8):\n                    observer.on_error(ValueError('too big'))\n                offset = 0\n", 'fire', ['FR-2'], 'seed C15m in short: the guard of frame copied into unframe')
m('C19', 'io/file.py', "                    f = open_obj(file, mode, encoding=encoding)", "                    f = open(file, mode, encoding=encoding)", 'fire', ['FH-1'], "seed C19m: the caller's opener ignored by the writer")
m('C10', 'operators/scan.py', "                if terminator:\n                    value = state\n                    if has_state is False:", "                if terminator:\n                    value = state\n                    if value is rs.state.markers.STATE_NOTSET:", 'fire', ['AG-3b'], 'seed C10m: the marker of the mux twin looked for in a variable that starts as None')
# ---------------------------------------------------------------- C20
m('C20', 'container/parquet.py', "pa.array(columns_data[i], type=columns_type[i])", "pa.array(columns_data[i], type=columns_type[i], from_pandas=True)", 'fire', ['PU-2'], 'seed C20g in short: NaN stored as null')
m('C20', 'container/parquet.py', "pa.array(columns_data[i], type=columns_type[i])", "pa.array(columns_data[i])", 'silent', [], 'type left to inference: from_arrays(schema=...) casts (checked against pyarrow)')
m('C20', 'container/parquet.py', "                    else:\n                        _load_file(filename)\n", "", 'fire', ['PU-2'], 'mutation round 4: the loader ignores a file object')
m('C20', 'container/parquet.py', "f = open_obj(filename, mode='wb')", "f = open_obj(filename, mode='ab')", 'fire', ['PU-2'], 'mutation round 4: parquet file opened for appending')
m('C20', 'container/parquet.py', "                        compression=compression,\n                        encryption_properties=encryption_properties,\n", "                        compression=compression,\n                        coerce_timestamps='ms',\n                        encryption_properties=encryption_properties,\n", 'fire', ['PU-2'], 'writer option that rewrites values')
m('C20', 'container/parquet.py', "                        compression=compression,\n                        encryption_properties=encryption_properties,\n", "                        compression=compression,\n                        use_dictionary=True,\n                        encryption_properties=encryption_properties,\n", 'silent', [], 'writer option that does not touch the rows')
m('C20', 'container/parquet.py', '                    writer.close()\n                    writer = None\n                    if type(filename) is str:\n                        f.close()\n\n                    observer.on_completed()', '                    if type(filename) is str:\n                        f.close()\n                    writer.close()\n                    writer = None\n\n                    observer.on_completed()', 'fire', ['FH-1', 'PU-2'], 'hand mutant: file closed before footer')
m('C20', 'container/parquet.py', '                    writer.close()\n                    writer = None\n                    if type(filename) is str:\n                        f.close()\n\n                    observer.on_completed()', '                    writer.close()\n                    writer = None\n\n                    observer.on_completed()', 'fire', ['FH-1', 'PU-2'], 'hand mutant: parquet file not closed')
m('C20', 'container/parquet.py', '                    if disposed:\n                        break', '                    if not disposed:\n                        break', 'fire', ['FH-1', 'PU-2'], 'hand mutant: loader stops after first batch')
m("C20", "container/parquet.py", "rs.data.batch(batch_size=batch_size),", "rs.data.batch(batch_size=1024),", "fire", ["PU-2"])
m("C20", "container/parquet.py", "        columns_type = [t for t in schema.types]\n\n        def _create_record(data):\n            columns_data = [ [] for n in columns_name]\n", "        columns_type = [t for t in schema.types]\n        columns_data = [ [] for n in columns_name]\n\n        def _create_record(data):\n", "fire", ["PU-2"], "the repaired defect")


def apply_unified_diff(patch_text, read_file):
    """Apply a unified diff (as written by git diff) in memory.  Returns {relpath: new source} or None
    if a hunk does not match the current text exactly."""
    import re
    out = {}
    cur = None
    lines = patch_text.splitlines()
    k = 0
    while k < len(lines):
        ln = lines[k]
        if ln.startswith("+++ "):
            path = ln[4:].strip()
            if path.startswith("b/"):
                path = path[2:]
            cur = path
            src = read_file(cur)
            if src is None:
                # a file added by the patch ("--- /dev/null")
                if k > 0 and lines[k - 1].startswith("--- /dev/null"):
                    out[cur] = {"old": [], "new": [], "pos": 0, "added": True}
                    k += 1
                    continue
                return None
            out[cur] = {"old": src.split("\n"), "new": [], "pos": 0}
            k += 1
            continue
        mobj = re.match(r"^@@ -(\d+)(?:,(\d+))? \+(\d+)(?:,(\d+))? @@", ln)
        if mobj and cur is not None:
            start = max(int(mobj.group(1)) - 1, 0)
            st = out[cur]
            # like git apply, tolerate a line offset (the file changed elsewhere since the patch was written): the hunk's
            # old lines are looked for at the stated position first, then at the nearest position where they match
            j = k + 1
            old_seq = []
            while j < len(lines) and not lines[j].startswith("@@") and not lines[j].startswith("diff --git") and not lines[j].startswith("--- "):
                hh = lines[j]
                if not hh.startswith("\\") and not hh.startswith("+"):
                    old_seq.append(hh[1:] if hh else "")
                j += 1
            if old_seq and not st.get("added") and st["old"][start:start + len(old_seq)] != old_seq:
                cands = [q for q in range(st["pos"], len(st["old"]) - len(old_seq) + 1) if st["old"][q:q + len(old_seq)] == old_seq]
                if not cands:
                    return None
                start = min(cands, key=lambda q: abs(q - start))
            if start < st["pos"]:
                return None
            st["new"] += st["old"][st["pos"]:start]
            st["pos"] = start
            k += 1
            while k < len(lines) and not lines[k].startswith("@@") and not lines[k].startswith("diff --git") and not lines[k].startswith("--- "):
                h = lines[k]
                if h.startswith("\\"):
                    k += 1
                    continue
                tag, body = (h[:1], h[1:]) if h else (" ", "")
                if tag == " ":
                    if st["pos"] >= len(st["old"]) or st["old"][st["pos"]] != body:
                        return None
                    st["new"].append(body)
                    st["pos"] += 1
                elif tag == "-":
                    if st["pos"] >= len(st["old"]) or st["old"][st["pos"]] != body:
                        return None
                    st["pos"] += 1
                elif tag == "+":
                    st["new"].append(body)
                k += 1
            continue
        k += 1
    res = {}
    for path, st in out.items():
        st["new"] += st["old"][st["pos"]:]
        res[path] = "\n".join(st["new"]) + ("\n" if st.get("added") else "")
    return res


def _run_seed(args):
    """One independently seeded change (seeded/<id>/patch.diff) applied in memory; the property's own check must report it."""
    seed_dir, prop, repo = args
    from . import props
    from .engine import Ctx
    sid = os.path.basename(seed_dir.rstrip("/"))
    try:
        with open(os.path.join(seed_dir, "patch.diff")) as f:
            patch = f.read()
        base = Program(repo)
        files = apply_unified_diff(patch, lambda rel: base.by_relpath[rel].src if rel in base.by_relpath else None)
        if not files:
            return dict(id="seed-" + sid, status="skipped", detail="patch does not apply to the current tree", expect="fire", note="seeded change " + sid)
        prog = base
        for rel, src in files.items():
            prog = prog.overlay(rel, src)
    except SyntaxError as e:
        return dict(id="seed-" + sid, status="skipped", detail="variant does not parse: %s" % e, expect="fire", note="seeded change " + sid)
    fired, err = [], None
    try:
        from .engine import run_rules
        ctx = Ctx(program=prog, tier="quick")
        allres, err = run_rules(ctx, props.rules_for(prop))
        fired = [] if err else [f.rule for r in allres for f in r.findings]
    except AnalysisError as e:
        err = str(e)
    except Exception as e:
        err = "internal error: %r" % (e,)
    # a seed that a later repair of the library made harmless for its property (meta.json: neutralised_by) must now stay silent
    neutral = None
    try:
        import json as _json
        with open(os.path.join(seed_dir, "meta.json")) as f:
            neutral = _json.load(f).get("neutralised_by")
    except Exception:
        pass
    if neutral:
        status = "ok" if not fired and not err else ("cannot-analyse" if err and not fired else "FALSE-ALARM")
        return dict(id="seed-" + sid, status=status, fired=sorted(set(fired)), error=err, expect="silent",
                    note="seeded change %s, harmless for %s since the repair %s" % (sid, prop, neutral), rel=",".join(files))
    status = "ok" if fired else ("cannot-analyse" if err else "MISSED")
    return dict(id="seed-" + sid, status=status, fired=sorted(set(fired)), error=err, expect="fire", note="independently seeded change " + sid, rel=",".join(files))


def _run_refactor(args):
    """A behaviour-preserving refactoring written by an independent maintainer (refactors/<id>/patch.diff, tests and an
    equivalence sweep passed): no rule of the property may report anything on it."""
    ref_path, prop, repo = args
    from . import props
    from .engine import Ctx
    if os.path.isdir(ref_path):
        ref_path = os.path.join(ref_path, "patch.diff")
    rid = os.path.basename(os.path.dirname(ref_path))
    if os.path.basename(ref_path) != "patch.diff":
        rid += "/" + os.path.basename(ref_path)[:-5]
    try:
        with open(ref_path) as f:
            patch = f.read()
        base = Program(repo)
        files = apply_unified_diff(patch, lambda rel: base.by_relpath[rel].src if rel in base.by_relpath else None)
        if not files:
            return dict(id="refactor-" + rid, status="skipped", detail="patch does not apply to the current tree", expect="silent", note="refactoring " + rid)
        prog = base
        for rel, src in files.items():
            prog = prog.overlay(rel, src)
    except SyntaxError as e:
        return dict(id="refactor-" + rid, status="skipped", detail="variant does not parse: %s" % e, expect="silent", note="refactoring " + rid)
    fired, err = [], None
    try:
        from .engine import unresolved_guard
        from .engine import run_rules
        ctx = Ctx(program=prog, tier="quick")
        allres, err = run_rules(ctx, props.rules_for(prop))
        fired = [] if err else ["%s %s" % (f.rule, f.construct) for r in allres for f in r.findings]
    except AnalysisError as e:
        err = str(e)
    except Exception as e:
        err = "internal error: %r" % (e,)
    status = "ok" if (not fired and err is None) else ("cannot-analyse" if (err and not fired) else "FALSE-ALARM")
    return dict(id="refactor-" + rid, status=status, fired=sorted(set(fired))[:5], error=err, expect="silent",
                note="independent behaviour-preserving refactoring " + rid, rel=",".join(files))


def _run_one(args):
    entry, repo = args
    from . import props
    from .engine import Ctx
    try:
        base = Program(repo)
        mod = base.by_relpath.get(entry["rel"])
        if mod is None or mod.src.count(entry["old"]) != 1:
            return dict(id=entry["id"], status="skipped", detail="anchor text not found exactly once in %s" % entry["rel"])
        prog = base.overlay(entry["rel"], mod.src.replace(entry["old"], entry["new"], 1))
    except SyntaxError as e:
        return dict(id=entry["id"], status="skipped", detail="variant does not parse: %s" % e)
    fired = []
    err = None
    try:
        from .engine import run_rules
        ctx = Ctx(program=prog, tier="quick")
        allres, err = run_rules(ctx, props.rules_for(entry["prop"]))
        fired = [] if err else [f.rule for r in allres for f in r.findings]
    except AnalysisError as e:
        err = str(e)
    except Exception as e:      # a crash of the checker on a variant is a self-test failure
        err = "internal error: %r" % (e,)
    if entry["expect"] == "fire":
        want = set(entry["rules"])
        hit = bool(fired) and (not want or any(any(f == w or f.startswith(w) or w.startswith(f) for w in want) for f in fired))
        ok = hit and err is None
        if err is not None and not fired:
            status = "cannot-analyse"
        else:
            status = "ok" if hit else "MISSED"
    else:
        status = "ok" if (not fired and err is None) else "FALSE-ALARM"
    return dict(id=entry["id"], status=status, fired=sorted(set(fired)), error=err, expect=entry["expect"], note=entry["note"], rel=entry["rel"])


def run_selftest(prop, repo=None, jobs=None):
    entries = [e for e in M if e["prop"] == prop]
    repo = repo or os.environ.get("RXSA_REPO", "/repo")
    jobs = jobs or min(16, len(entries), os.cpu_count() or 1)
    seeded_root = os.path.join(os.path.dirname(os.path.dirname(os.path.abspath(__file__))), "seeded")
    seeds = []
    if os.path.isdir(seeded_root):
        for d in sorted(os.listdir(seeded_root)):
            if d.startswith(prop) and os.path.isfile(os.path.join(seeded_root, d, "patch.diff")):
                seeds.append((os.path.join(seeded_root, d), prop, repo))
    ref_root = os.path.join(os.path.dirname(os.path.dirname(os.path.abspath(__file__))), "refactors")
    refs = []
    if os.path.isdir(ref_root):
        for d in sorted(os.listdir(ref_root)):
            if not os.path.isdir(os.path.join(ref_root, d)):
                continue
            for f in sorted(os.listdir(os.path.join(ref_root, d))):
                # patch.diff: one refactoring; pNN.diff: independent micro-edits, each applied alone
                if f == "patch.diff" or (f.startswith("p") and f.endswith(".diff")):
                    refs.append((os.path.join(ref_root, d, f), prop, repo))
    jobs = min(16, len(entries) + len(seeds) + len(refs), os.cpu_count() or 1)
    with ProcessPoolExecutor(max_workers=jobs) as ex:
        results = list(ex.map(_run_one, [(e, repo) for e in entries])) + list(ex.map(_run_seed, seeds)) + list(ex.map(_run_refactor, refs))
    summary = {}
    for r in results:
        summary[r["status"]] = summary.get(r["status"], 0) + 1
    return dict(variants=len(entries) + len(seeds) + len(refs), summary=summary, results=results)
