"""E0 -- loader and resolver.

Parses every ``*.py`` under ``<repo>/rxsci`` and offers

* per-module top-level binding tables (imports, defs, assignments, including
  those nested in module-level ``try`` / ``if`` blocks -- parquet.py),
* lexical scope facts for every function / lambda (parameters, locals,
  ``nonlocal`` declarations, enclosing function),
* resolution of dotted names through the import tables, so that ``rs.ops.map``
  (rxsci, dual-mode) and ``ops.map`` (RxPY, plain only) are told apart.
"""
from __future__ import annotations

import ast
import hashlib
import os
from typing import Dict, List, Optional, Tuple

REPO = os.environ.get("RXSA_REPO", "/repo")
PKG = "rxsci"


class AnalysisError(Exception):
    """The source has a shape the analysis cannot classify (exit 2)."""


class Scope:
    """Lexical facts of one FunctionDef / Lambda."""

    __slots__ = ("node", "parent", "params", "locals", "nonlocals", "globals",
                 "defs", "qualname", "module")

    def __init__(self, node, parent, module):
        self.node = node
        self.parent = parent          # enclosing Scope or None (module level)
        self.module = module
        self.params: List[str] = []
        self.locals = set()
        self.nonlocals = set()
        self.globals = set()
        self.defs: Dict[str, ast.AST] = {}
        self.qualname = ""


def _param_names(args: ast.arguments) -> List[str]:
    out = [a.arg for a in args.posonlyargs] + [a.arg for a in args.args]
    if args.vararg:
        out.append(args.vararg.arg)
    out += [a.arg for a in args.kwonlyargs]
    if args.kwarg:
        out.append(args.kwarg.arg)
    return out


def _target_names(t, out):
    if isinstance(t, ast.Name):
        out.add(t.id)
    elif isinstance(t, (ast.Tuple, ast.List)):
        for e in t.elts:
            _target_names(e, out)
    elif isinstance(t, ast.Starred):
        _target_names(t.value, out)


class Module:
    def __init__(self, name, path, relpath, src, is_pkg):
        self.name = name
        self.path = path
        self.relpath = relpath
        self.src = src
        self.is_pkg = is_pkg
        self.digest = hashlib.sha256(src.encode()).hexdigest()
        self.tree = ast.parse(src, filename=path)
        self.parent: Dict[ast.AST, ast.AST] = {}
        self.scopes: Dict[ast.AST, Scope] = {}
        self.bindings: Dict[str, tuple] = {}
        self.bind_count: Dict[str, int] = {}
        self._index()

    # ------------------------------------------------------------------
    def _index(self):
        for node in ast.walk(self.tree):
            for child in ast.iter_child_nodes(node):
                self.parent[child] = node
        self._collect_bindings(self.tree.body)
        self._build_scopes(self.tree, None, "")

    def _abs_from(self, level, module):
        if level == 0:
            return module or ""
        parts = self.name.split(".")
        if not self.is_pkg:
            parts = parts[:-1]
        if level > 1:
            parts = parts[: len(parts) - (level - 1)]
        if module:
            parts = parts + module.split(".")
        return ".".join(parts)

    def _collect_bindings(self, body):
        for st in body:
            if isinstance(st, ast.Import):
                for a in st.names:
                    if a.asname:
                        self.bindings[a.asname] = ("import", a.name)
                    else:
                        root = a.name.split(".")[0]
                        self.bindings[root] = ("import", root)
            elif isinstance(st, ast.ImportFrom):
                base = self._abs_from(st.level, st.module)
                for a in st.names:
                    self.bindings[a.asname or a.name] = ("from", base, a.name)
            elif isinstance(st, (ast.FunctionDef, ast.AsyncFunctionDef)):
                self.bindings[st.name] = ("def", st)
            elif isinstance(st, ast.ClassDef):
                self.bindings[st.name] = ("class", st)
            elif isinstance(st, ast.Assign):
                names = set()
                for t in st.targets:
                    _target_names(t, names)
                for n in names:
                    self.bindings[n] = ("assign", st.value)
                    self.bind_count[n] = self.bind_count.get(n, 0) + 1
            elif isinstance(st, ast.AnnAssign) and isinstance(st.target, ast.Name) and st.value is not None:
                self.bindings[st.target.id] = ("assign", st.value)
            elif isinstance(st, ast.Try):
                self._collect_bindings(st.body)
                for h in st.handlers:
                    self._collect_bindings(h.body)
                self._collect_bindings(st.orelse)
                self._collect_bindings(st.finalbody)
            elif isinstance(st, ast.If):
                self._collect_bindings(st.body)
                self._collect_bindings(st.orelse)

    def _build_scopes(self, node, scope, prefix):
        for child in ast.iter_child_nodes(node):
            if isinstance(child, (ast.FunctionDef, ast.AsyncFunctionDef, ast.Lambda)):
                sc = Scope(child, scope, self)
                name = child.name if not isinstance(child, ast.Lambda) else "<lambda@%d>" % child.lineno
                sc.qualname = (prefix + "." + name) if prefix else name
                sc.params = _param_names(child.args)
                self.scopes[child] = sc
                if scope is not None and not isinstance(child, ast.Lambda):
                    scope.defs[child.name] = child
                    scope.locals.add(child.name)
                if isinstance(child, ast.Lambda):
                    self._scan_locals(child.body, sc)
                    self._build_scopes(child, sc, sc.qualname)
                else:
                    for st in child.body:
                        self._scan_locals(st, sc)
                    # decorators/defaults belong to the outer scope; bodies inside
                    self._build_scopes(child, sc, sc.qualname)
            elif isinstance(child, ast.ClassDef):
                self._build_scopes(child, scope, (prefix + "." + child.name) if prefix else child.name)
            else:
                self._build_scopes(child, scope, prefix)

    def _scan_locals(self, node, sc):
        """Names bound in the body of sc (not descending into nested scopes)."""
        if isinstance(node, (ast.FunctionDef, ast.AsyncFunctionDef)):
            sc.locals.add(node.name)
            return
        if isinstance(node, (ast.Lambda, ast.ClassDef)):
            if isinstance(node, ast.ClassDef):
                sc.locals.add(node.name)
            return
        if isinstance(node, ast.Nonlocal):
            sc.nonlocals.update(node.names)
        elif isinstance(node, ast.Global):
            sc.globals.update(node.names)
        elif isinstance(node, ast.Assign):
            for t in node.targets:
                _target_names(t, sc.locals)
        elif isinstance(node, (ast.AugAssign, ast.AnnAssign)):
            _target_names(node.target, sc.locals)
        elif isinstance(node, (ast.For, ast.AsyncFor)):
            _target_names(node.target, sc.locals)
        elif isinstance(node, (ast.With, ast.AsyncWith)):
            for it in node.items:
                if it.optional_vars is not None:
                    _target_names(it.optional_vars, sc.locals)
        elif isinstance(node, ast.ExceptHandler):
            if node.name:
                sc.locals.add(node.name)
        elif isinstance(node, (ast.Import, ast.ImportFrom)):
            for a in node.names:
                sc.locals.add((a.asname or a.name).split(".")[0])
        elif isinstance(node, ast.NamedExpr):
            _target_names(node.target, sc.locals)
        elif isinstance(node, (ast.ListComp, ast.SetComp, ast.DictComp, ast.GeneratorExp)):
            return  # comprehension targets are their own scope
        for child in ast.iter_child_nodes(node):
            self._scan_locals(child, sc)

    # ------------------------------------------------------------------
    def enclosing_function(self, node):
        p = self.parent.get(node)
        while p is not None and not isinstance(p, (ast.FunctionDef, ast.AsyncFunctionDef, ast.Lambda)):
            p = self.parent.get(p)
        return p

    def qualname(self, fn) -> str:
        sc = self.scopes.get(fn)
        return "%s::%s" % (self.relpath, sc.qualname if sc else "<module>")

    def where(self, node) -> str:
        return "%s:%d" % (self.relpath, getattr(node, "lineno", 0))


class Program:
    """All modules of the package."""

    def __init__(self, repo: str = None):
        self.repo = repo or REPO
        self.root = os.path.join(self.repo, PKG)
        self.modules: Dict[str, Module] = {}
        self.by_relpath: Dict[str, Module] = {}
        if not os.path.isdir(self.root):
            raise AnalysisError("package directory %s not found" % self.root)
        for dirpath, dirnames, filenames in os.walk(self.root):
            dirnames[:] = sorted(d for d in dirnames if d != "__pycache__")
            for fn in sorted(filenames):
                if not fn.endswith(".py"):
                    continue
                path = os.path.join(dirpath, fn)
                rel = os.path.relpath(path, self.repo)
                parts = rel[:-3].split(os.sep)
                is_pkg = parts[-1] == "__init__"
                if is_pkg:
                    parts = parts[:-1]
                name = ".".join(parts)
                with open(path, encoding="utf-8") as f:
                    src = f.read()
                try:
                    m = Module(name, path, rel, src, is_pkg)
                except SyntaxError as e:
                    raise AnalysisError("cannot parse %s: %s" % (rel, e))
                self.modules[name] = m
                self.by_relpath[rel] = m

    def overlay(self, relpath: str, src: str) -> "Program":
        """A shallow copy of the program with one module replaced by other
        source text (used by the self-test to analyse in-memory variants)."""
        other = Program.__new__(Program)
        other.repo = self.repo
        other.root = self.root
        other.modules = dict(self.modules)
        other.by_relpath = dict(self.by_relpath)
        old = self.by_relpath.get(relpath)
        if old is None:
            # a module added by the variant
            name = relpath[:-3].replace("/", ".")
            is_pkg = name.endswith(".__init__")
            if is_pkg:
                name = name[:-9]
            m = Module(name, os.path.join(self.repo, relpath), relpath, src, is_pkg)
        else:
            m = Module(old.name, old.path, relpath, src, old.is_pkg)
        other.modules[m.name] = m
        other.by_relpath[relpath] = m
        return other

    # ------------------------------------------------------------------
    def module(self, relpath: str) -> Module:
        m = self.by_relpath.get(relpath)
        if m is None:
            raise AnalysisError("anchor file %s vanished" % relpath)
        return m

    def digests(self, relpaths=None) -> Dict[str, str]:
        if relpaths is None:
            relpaths = sorted(self.by_relpath)
        return {r: self.by_relpath[r].digest[:16] for r in relpaths if r in self.by_relpath}

    # ------------------------------------------------------------------
    def resolve_dotted(self, module: Module, dotted: str, _depth=0) -> tuple:
        """Resolve ``a.b.c`` as seen from the top level of *module*.

        Returns one of
          ('def', Module, FunctionDef) | ('class', Module, ClassDef)
          ('module', name)             | ('ext', 'rx.operators.map')
          ('assign', Module, value_node) | ('unknown', dotted)
        """
        if _depth > 12:
            return ("unknown", dotted)
        parts = dotted.split(".")
        b = module.bindings.get(parts[0])
        if b is None:
            return ("unknown", dotted)
        cur = self._binding_target(module, b, _depth)
        for p in parts[1:]:
            cur = self._getattr(cur, p, _depth)
        return cur

    def _binding_target(self, module, b, depth):
        if b[0] == "import":
            return self._module_ref(b[1])
        if b[0] == "from":
            if b[1] + "." + b[2] in self.modules:      # from . import submodule
                return ("module", b[1] + "." + b[2])
            base = self._module_ref(b[1])
            return self._getattr(base, b[2], depth)
        if b[0] == "def":
            return ("def", module, b[1])
        if b[0] == "class":
            return ("class", module, b[1])
        if b[0] == "assign":
            return ("assign", module, b[1])
        return ("unknown", "?")

    def _module_ref(self, name):
        if name in self.modules:
            return ("module", name)
        return ("ext", name)

    def _getattr(self, cur, attr, depth):
        if cur[0] == "ext":
            return ("ext", cur[1] + "." + attr)
        if cur[0] == "module":
            sub = cur[1] + "." + attr
            m = self.modules[cur[1]]
            b = m.bindings.get(attr)
            if b is not None:
                if depth > 12:
                    return ("unknown", sub)
                return self._binding_target(m, b, depth + 1)
            if sub in self.modules:
                return ("module", sub)
            return ("unknown", sub)
        if cur[0] == "unknown":
            return ("unknown", cur[1] + "." + attr)
        # attribute of a def/class/assign: not followed
        return ("attr", cur, attr)

    def canonical(self, ref) -> str:
        """A printable canonical name for a resolved reference."""
        if ref[0] == "def":
            return "%s.%s" % (ref[1].name, ref[2].name)
        if ref[0] == "class":
            return "%s.%s" % (ref[1].name, ref[2].name)
        if ref[0] in ("module", "ext", "unknown"):
            return ref[1]
        if ref[0] == "assign":
            return "%s.<assign@%d>" % (ref[1].name, ref[2].lineno)
        if ref[0] == "attr":
            return self.canonical(ref[1]) + "." + ref[2]
        return "?"


def dotted_name(node) -> Optional[str]:
    """``a.b.c`` for a Name/Attribute chain, else None."""
    parts = []
    while isinstance(node, ast.Attribute):
        parts.append(node.attr)
        node = node.value
    if isinstance(node, ast.Name):
        parts.append(node.id)
        return ".".join(reversed(parts))
    return None
